"""Fail-closed translator: nextline/utils/pubsub/item.py + broker.py -> Gen/PubSubFuns.v

A GENUINE TRANSLATION: every method of `PubSubItem` that touches a tracked attribute
(`_cache`, `_queues`, `_last_enumerated`, `_last_item`, `_idx`, `_closed`) and every method
of `PubSub` is translated, statement by statement and expression by expression, into the
small abstract syntax of coq/theories/PubSub/Syntax.v.  coq/theories/PubSub/Tie.v
interprets that syntax over the state of PubSub/Model.v and proves that the regenerated
bodies compute the operations of the hand-written model.

Tracked: assignments (plain, chained, annotated, augmented, tuple unpacking), `if`/`else`,
`raise`, `return`, `break`, `for` (one or two loop variables), `while True`, `try/finally`,
`yield <e>` and `x, y = await q.get()` (the two suspension points), `await q.put(e)`,
`await self._enumerate(e)`, `self._<list>.append/remove/clear`; expressions: constants,
`_END`/`_START`, locals, `self._<attr>` (for the two lists: a reference to the LIVE list),
`list(e)` (a private copy), `list[...]()`, `asyncio.Queue[...]()`, 2-tuples, `is`/`is not`,
`<`/`<=`/`>`/`>=` (`not a < b` normalised to `b <= a`), `+`, `not`, `and`/`or`, conditional expressions; parameter lists with
their defaults; whether `subscribe` is an async generator (body runs at the first
`__anext__`) or a plain method (body would run at the call).

Ignored (untracked): docstrings, comments, type annotations, the exception class and
message of a `raise`, `logger.<level>(...)` / `logging.<level>(...)` whose arguments
contain no call / walrus / await / yield and mention no local, parameter or `self`
(the shared rule for ignored positions), the read-only properties, `__repr__`.

Refused (fail closed), besides every unknown construct in a tracked position: `assert`
and `del` in a translated method; class bases other than `Generic[...]`; any class-body
statement that is not a method, a plain annotation or the docstring; decorators (except
`@property` on the three read-only properties); `__aenter__` other than `return self`,
`__aexit__` other than `await self.aclose()` / `await self.close()`; `__bool__`,
`__len__`, `__eq__`, `__hash__`, `__enter__`, `__exit__`, `__aiter__`, ... ; any further
method of either class; module-level statements other than the expected imports, the
two sentinel classes (`class _X(enum.Enum): X = object()`), `Name = TypeVar(..)` / `logger = logging.getLogger(..)` /
call-free assignments that do not rebind a translated name, and TypeAlias annotations;
`Queue` not spelled `asyncio.Queue`, or with arguments (a bounded queue makes `put`
suspend).  The parameter defaults are emitted and `C08_tie_subscribe_defaults`,
`C08_tie_broker_subscribe_default` depend on them.

Anything else in a tracked position raises TranslateError (= a broken tie obligation).
"""
from __future__ import annotations

import ast
import sys
from pathlib import Path

OUTPUT = 'PubSubFuns.v'
SRC_ITEM = 'nextline/utils/pubsub/item.py'
SRC_BROKER = 'nextline/utils/pubsub/broker.py'

ATTRS = {
    '_cache': 'ACache',
    '_queues': 'AQueues',
    '_last_enumerated': 'ALastEnum',
    '_last_item': 'ALastItem',
    '_idx': 'AIdx',
    '_closed': 'AClosed',
}
LIST_ATTRS = {'_cache', '_queues'}
SENTINELS = {'_END': 'EEnd', '_START': 'EStart'}
IGNORED_CALL_ROOTS = {'logger', 'logging'}
LOG_LEVELS = {'debug', 'info', 'warning', 'error', 'exception', 'critical'}

ITEM_METHODS = ['__init__', 'publish', 'clear', 'latest', 'subscribe', 'aclose', '_enumerate']
ITEM_READONLY = {'cache', 'closed', 'n_subscriptions', '__repr__', '__aenter__', '__aexit__'}
BROKER_METHODS = ['subscribe', 'publish', 'latest', 'end', 'close']
IMETHODS = {'subscribe': 'MSubscribe', 'publish': 'MPublish', 'latest': 'MLatest', 'aclose': 'MAclose'}


class TranslateError(Exception):
    pass


def norm(node) -> str:
    return ast.unparse(node).strip()


def q(s: str) -> str:
    assert '"' not in s
    return f'"{s}"'


def zlit(n: int) -> str:
    return f'({n})%Z' if n < 0 else f'{n}%Z'


def is_self_attr(node, names=None):
    return (isinstance(node, ast.Attribute) and isinstance(node.value, ast.Name) and node.value.id == 'self'
            and (names is None or node.attr in names))


def strip_doc(body):
    if body and isinstance(body[0], ast.Expr) and isinstance(body[0].value, ast.Constant) and isinstance(body[0].value.value, str):
        return body[1:]
    return body


def find_class(tree, name):
    xs = [n for n in tree.body if isinstance(n, ast.ClassDef) and n.name == name]
    if len(xs) != 1:
        raise TranslateError(f'expected exactly one class {name}')
    return xs[0]


def methods_of(cls):
    out = {}
    for n in cls.body:
        if isinstance(n, (ast.FunctionDef, ast.AsyncFunctionDef)):
            if n.name in out:
                raise TranslateError(f'{cls.name}.{n.name} defined twice')
            out[n.name] = n
    return out


def params_of(fn, where):
    a = fn.args
    if a.posonlyargs or a.vararg or a.kwarg:
        raise TranslateError(f'{where}: *args/**kwargs/positional-only parameters')
    pos = [x.arg for x in a.args]
    if not pos or pos[0] != 'self':
        raise TranslateError(f'{where}: first parameter is not self')
    pos = pos[1:]
    defaults = [None] * (len(pos) - len(a.defaults)) + list(a.defaults)
    res = list(zip(pos, defaults))
    res += list(zip([x.arg for x in a.kwonlyargs], a.kw_defaults))
    return res


# ------------------------------------------------------------------ item.py: expressions

class ItemTr:
    def __init__(self, where: str, locals_: set[str]):
        self.where = where
        self.locals = locals_
        self.new_queues = 0

    def err(self, node, msg):
        raise TranslateError(f'{self.where}:{getattr(node, "lineno", "?")}: {msg}: `{norm(node)}`')

    def expr(self, e) -> str:
        if isinstance(e, ast.Constant):
            if e.value is None:
                return 'ENone'
            if e.value is True:
                return '(EBool true)'
            if e.value is False:
                return '(EBool false)'
            if isinstance(e.value, int):
                return f'(EInt {zlit(e.value)})'
            self.err(e, 'constant not understood')
        if isinstance(e, ast.UnaryOp) and isinstance(e.op, ast.USub) and isinstance(e.operand, ast.Constant) \
                and isinstance(e.operand.value, int) and not isinstance(e.operand.value, bool):
            return f'(EInt {zlit(-e.operand.value)})'
        if isinstance(e, ast.UnaryOp) and isinstance(e.op, ast.Not):
            c = e.operand
            if isinstance(c, ast.Compare) and len(c.ops) == 1 and isinstance(c.ops[0], (ast.Lt, ast.LtE, ast.Gt, ast.GtE)):
                # normal form: `not a < b` is `b <= a` (the interpreter compares integers only)
                a, b = self.expr(c.left), self.expr(c.comparators[0])
                op = c.ops[0]
                if isinstance(op, ast.Lt):
                    return f'(ELe {b} {a})'
                if isinstance(op, ast.LtE):
                    return f'(ELt {b} {a})'
                if isinstance(op, ast.Gt):
                    return f'(ELe {a} {b})'
                return f'(ELt {a} {b})'
            return f'(ENot {self.expr(e.operand)})'
        if isinstance(e, ast.Name):
            if e.id in SENTINELS:
                return SENTINELS[e.id]
            if e.id in self.locals:
                return f'(EVar {q(e.id)})'
            self.err(e, 'name is neither a local nor a sentinel')
        if is_self_attr(e):
            if e.attr in ATTRS:
                return f'(EAttr {ATTRS[e.attr]})'
            self.err(e, 'attribute of self is not tracked')
        if isinstance(e, ast.Tuple) and len(e.elts) == 2:
            return f'(ETuple {self.expr(e.elts[0])} {self.expr(e.elts[1])})'
        if isinstance(e, ast.Call):
            f = e.func
            if e.keywords:
                self.err(e, 'keyword arguments in an expression')
            if isinstance(f, ast.Name) and f.id == 'list' and len(e.args) == 1:
                return f'(ECopy {self.expr(e.args[0])})'
            base = f.value if isinstance(f, ast.Subscript) else f
            if isinstance(base, ast.Name) and base.id == 'list' and not e.args:
                return 'ENewList'
            if norm(base) == 'asyncio.Queue' and not e.args:
                self.new_queues += 1
                return 'ENewQueue'
            self.err(e, 'call not understood')
        if isinstance(e, ast.Compare) and len(e.ops) == 1:
            a, b = self.expr(e.left), self.expr(e.comparators[0])
            op = e.ops[0]
            if isinstance(op, ast.Is):
                return f'(EIs {a} {b})'
            if isinstance(op, ast.IsNot):
                return f'(EIsNot {a} {b})'
            if isinstance(op, ast.Lt):
                return f'(ELt {a} {b})'
            if isinstance(op, ast.LtE):
                return f'(ELe {a} {b})'
            if isinstance(op, ast.Gt):
                return f'(ELt {b} {a})'
            if isinstance(op, ast.GtE):
                return f'(ELe {b} {a})'
            self.err(e, 'comparison operator not understood')
        if isinstance(e, ast.BoolOp):
            ctor = 'EAnd' if isinstance(e.op, ast.And) else 'EOr'
            vals = [self.expr(v) for v in e.values]
            r = vals[-1]
            for v in reversed(vals[:-1]):
                r = f'({ctor} {v} {r})'
            return r
        if isinstance(e, ast.IfExp):
            return f'(EIfExp {self.expr(e.test)} {self.expr(e.body)} {self.expr(e.orelse)})'
        if isinstance(e, ast.BinOp) and isinstance(e.op, ast.Add):
            return f'(EAdd {self.expr(e.left)} {self.expr(e.right)})'
        self.err(e, 'expression not understood')

    # ---- statements

    def target(self, t) -> str:
        if isinstance(t, ast.Name):
            self.need_local(t)
            return f'TVar {q(t.id)}'
        if is_self_attr(t):
            if t.attr not in ATTRS:
                self.err(t, 'assignment to an untracked attribute of self')
            return f'TAttr {ATTRS[t.attr]}'
        if isinstance(t, ast.Tuple) and len(t.elts) == 2 and all(isinstance(x, ast.Name) for x in t.elts):
            for x in t.elts:
                self.need_local(x)
            return f'TPair {q(t.elts[0].id)} {q(t.elts[1].id)}'
        self.err(t, 'assignment target not understood')

    def need_local(self, name_node):
        if name_node.id not in self.locals or name_node.id in SENTINELS or name_node.id == 'self':
            self.err(name_node, 'not a local variable')

    def ignorable_logger_call(self, call) -> bool:
        """The shared rule for an IGNORED statement: `logger.<level>(...)` / `logging.<level>(...)` whose
        arguments contain no Call, NamedExpr, Await, Yield and mention no local, parameter or `self`."""
        f = call.func
        if not (isinstance(f, ast.Attribute) and isinstance(f.value, ast.Name) and f.value.id in IGNORED_CALL_ROOTS
                and f.attr in LOG_LEVELS):
            return False
        for a in list(call.args) + [k.value for k in call.keywords]:
            for n in ast.walk(a):
                if isinstance(n, (ast.Call, ast.NamedExpr, ast.Await, ast.Yield, ast.YieldFrom, ast.Lambda)):
                    return False
                if isinstance(n, ast.Name) and (n.id == 'self' or n.id in self.locals):
                    return False
        return True

    def list_method(self, call):
        """self._<list>.append(e) / .remove(e) / .clear()"""
        f = call.func
        if isinstance(f, ast.Attribute) and is_self_attr(f.value, LIST_ATTRS) and not call.keywords:
            a = ATTRS[f.value.attr]
            if f.attr == 'append' and len(call.args) == 1:
                return f'(SAppend {a} {self.expr(call.args[0])})'
            if f.attr == 'remove' and len(call.args) == 1:
                return f'(SRemove {a} {self.expr(call.args[0])})'
            if f.attr == 'clear' and not call.args:
                return f'(SClear {a})'
        return None

    def stmt(self, st, ind: int) -> str | None:
        """None = untracked, ignored."""
        pad = ' ' * ind
        if isinstance(st, ast.Expr):
            v = st.value
            if isinstance(v, ast.Constant) and isinstance(v.value, str):
                return None
            if isinstance(v, ast.Yield):
                if v.value is None:
                    self.err(st, 'bare yield')
                return f'(SYield {self.expr(v.value)})'
            if isinstance(v, ast.Await) and isinstance(v.value, ast.Call):
                c = v.value
                f = c.func
                if is_self_attr(f, {'_enumerate'}) and len(c.args) == 1 and not c.keywords:
                    return f'(SCallEnumerate {self.expr(c.args[0])})'
                if isinstance(f, ast.Attribute) and f.attr == 'put' and len(c.args) == 1 and not c.keywords:
                    return f'(SAwaitPut {self.expr(f.value)} {self.expr(c.args[0])})'
                self.err(st, 'await not understood')
            if isinstance(v, ast.Call):
                lm = self.list_method(v)
                if lm:
                    return lm
                if self.ignorable_logger_call(v):
                    return None
            self.err(st, 'expression statement not understood')
        if isinstance(st, ast.Assert):
            self.err(st, 'assert in a translated method (it can raise, and its test can have effects): not ignorable')
        if isinstance(st, ast.Delete):
            self.err(st, 'del in a translated method')
        if isinstance(st, ast.Pass):
            return 'SSkip'
        if isinstance(st, ast.Assign):
            if isinstance(st.value, ast.Await):
                c = st.value.value
                if (isinstance(c, ast.Call) and isinstance(c.func, ast.Attribute) and c.func.attr == 'get'
                        and not c.args and not c.keywords and len(st.targets) == 1
                        and isinstance(st.targets[0], ast.Tuple) and len(st.targets[0].elts) == 2
                        and all(isinstance(x, ast.Name) for x in st.targets[0].elts)):
                    x, y = st.targets[0].elts
                    self.need_local(x)
                    self.need_local(y)
                    return f'(SAwaitGet {q(x.id)} {q(y.id)} {self.expr(c.func.value)})'
                self.err(st, 'await in an assignment not understood')
            ts = '; '.join(self.target(t) for t in st.targets)
            return f'(SAssign [{ts}] {self.expr(st.value)})'
        if isinstance(st, ast.AnnAssign):
            if st.value is None:
                return None
            return f'(SAssign [{self.target(st.target)}] {self.expr(st.value)})'
        if isinstance(st, ast.AugAssign):
            if not isinstance(st.op, ast.Add):
                self.err(st, 'augmented assignment other than +=')
            t = self.target(st.target)
            return f'(SAssign [{t}] (EAdd {self.expr(st.target)} {self.expr(st.value)}))'
        if isinstance(st, ast.If):
            return (f'(SIf {self.expr(st.test)}\n{pad}  {self.block(st.body, ind + 2)}\n'
                    f'{pad}  {self.block(st.orelse, ind + 2)})')
        if isinstance(st, ast.Raise):
            return 'SRaise'
        if isinstance(st, ast.Return):
            return f'(SReturn {self.expr(st.value) if st.value is not None else "ENone"})'
        if isinstance(st, ast.Break):
            return 'SBreak'
        if isinstance(st, ast.For):
            if st.orelse:
                self.err(st, 'for with else')
            t = st.target
            if isinstance(t, ast.Name):
                self.need_local(t)
                return f'(SFor1 {q(t.id)} {self.expr(st.iter)}\n{pad}  {self.block(st.body, ind + 2)})'
            if isinstance(t, ast.Tuple) and len(t.elts) == 2 and all(isinstance(x, ast.Name) for x in t.elts):
                for x in t.elts:
                    self.need_local(x)
                return (f'(SFor2 {q(t.elts[0].id)} {q(t.elts[1].id)} {self.expr(st.iter)}\n'
                        f'{pad}  {self.block(st.body, ind + 2)})')
            self.err(st, 'for target not understood')
        if isinstance(st, ast.While):
            if st.orelse or not (isinstance(st.test, ast.Constant) and st.test.value is True):
                self.err(st, 'while other than `while True:` without else')
            return f'(SWhileTrue\n{pad}  {self.block(st.body, ind + 2)})'
        if isinstance(st, ast.Try):
            if st.handlers or st.orelse or not st.finalbody:
                self.err(st, 'try other than try/finally')
            return f'(STry\n{pad}  {self.block(st.body, ind + 2)}\n{pad}  {self.block(st.finalbody, ind + 2)})'
        self.err(st, 'statement not understood')

    def block(self, body, ind: int) -> str:
        items = [x for x in (self.stmt(st, ind) for st in body) if x is not None]
        if not items:
            return 'SSkip'
        pad = ' ' * ind
        r = items[-1]
        for it in reversed(items[:-1]):
            r = f'(SSeq {it}\n{pad}{r})'
        return r


def local_names(fn) -> set[str]:
    names = {a.arg for a in fn.args.args + fn.args.kwonlyargs if a.arg != 'self'}
    for n in ast.walk(fn):
        if isinstance(n, ast.Name) and isinstance(n.ctx, ast.Store):
            names.add(n.id)
        if isinstance(n, (ast.FunctionDef, ast.AsyncFunctionDef, ast.Lambda, ast.ClassDef)) and n is not fn:
            raise TranslateError(f'{fn.name}: nested definition')
        if isinstance(n, (ast.Global, ast.Nonlocal)):
            raise TranslateError(f'{fn.name}: global/nonlocal')
    return names


def has_yield(fn) -> bool:
    return any(isinstance(n, (ast.Yield, ast.YieldFrom)) for n in ast.walk(fn))


def default_expr(tr: ItemTr, d) -> str:
    return 'None' if d is None else f'(Some {tr.expr(d)})'



FORBIDDEN_DUNDERS = ('__bool__', '__len__', '__eq__', '__ne__', '__hash__', '__getattr__', '__setattr__',
                     '__getattribute__', '__delattr__', '__enter__', '__exit__', '__post_init__', '__new__',
                     '__init_subclass__', '__class_getitem__', '__aiter__', '__anext__', '__iter__', '__next__',
                     '__call__', '__del__', '__getitem__', '__setitem__', '__contains__', '__await__')


def check_class_shape(cls, bases: list[str], where: str):
    """Fail closed on anything in the class statement that could change what the methods mean."""
    if [norm(b) for b in cls.bases] != bases or cls.keywords:
        raise TranslateError(f'{where}: class bases/keywords are {[norm(b) for b in cls.bases]}, expected {bases}')
    if cls.decorator_list:
        raise TranslateError(f'{where}: class is decorated')
    for n in strip_doc(cls.body):
        if isinstance(n, (ast.FunctionDef, ast.AsyncFunctionDef)):
            continue
        if isinstance(n, ast.AnnAssign) and n.value is None and isinstance(n.target, ast.Name):
            continue                    # a plain annotation
        raise TranslateError(f'{where}:{n.lineno}: class-body statement `{norm(n)[:60]}` (only methods, plain '
                             f'annotations and the docstring are accepted)')
    ms = methods_of(cls)
    for d in FORBIDDEN_DUNDERS:
        if d in ms:
            raise TranslateError(f'{where}.{d} defined (changes truthiness / equality / attribute access / protocol)')
    return ms


def check_aenter_aexit(ms, where: str, close_call: str):
    """`__aenter__` is pinned to `return self`, `__aexit__` to `await self.<close>()`."""
    for name, want, kind in (('__aenter__', ['return self'], ast.AsyncFunctionDef),
                             ('__aexit__', [close_call], ast.AsyncFunctionDef)):
        if name not in ms:
            continue
        fn = ms[name]
        if not isinstance(fn, kind) or fn.decorator_list:
            raise TranslateError(f'{where}.{name}: not a plain `async def`')
        body = []
        for st in strip_doc(fn.body):
            if isinstance(st, ast.Delete) and all(isinstance(t, ast.Name) and t.id != 'self' for t in st.targets):
                continue                # `del exc_type, exc_value, traceback`
            body.append(norm(st))
        if body != want:
            raise TranslateError(f'{where}.{name}: body is {body}, expected {want}')


def check_module_shape(tree, where: str, classes: set[str], imports: set[str], reserved: set[str]):
    """Module level: the expected imports, the expected classes, `Name = <call-free expression | TypeVar(..)>`
    and TypeAlias annotations.  Nothing that could rebind or monkeypatch a translated name."""
    seen_imports = set()
    for n in tree.body:
        if isinstance(n, ast.Expr) and isinstance(n.value, ast.Constant) and isinstance(n.value.value, str):
            continue
        if isinstance(n, (ast.Import, ast.ImportFrom)):
            for a in n.names:
                bound = (a.asname or a.name).split('.')[0]
                src = norm(n)
                if a.asname is not None and a.asname != a.name:
                    if bound in reserved:
                        raise TranslateError(f'{where}:{n.lineno}: `{src}` rebinds `{bound}`')
                key = f'{"." * n.level}{n.module or ""}:{a.name}' if isinstance(n, ast.ImportFrom) else f':{a.name}'
                if bound in reserved and key not in imports:
                    raise TranslateError(f'{where}:{n.lineno}: `{src}` binds `{bound}` from an unexpected module')
                if a.asname is None or a.asname == a.name:
                    seen_imports.add(f'{"." * n.level}{n.module or ""}:{a.name}' if isinstance(n, ast.ImportFrom) else f':{a.name}')
            continue
        if isinstance(n, ast.ClassDef):
            if n.name not in classes:
                raise TranslateError(f'{where}:{n.lineno}: unexpected class {n.name}')
            continue
        if isinstance(n, ast.Assign) and len(n.targets) == 1 and isinstance(n.targets[0], ast.Name):
            t = n.targets[0].id
            if norm(n) in ('_START = _Start.START', '_END = _End.END') and where == 'item.py':
                continue                # counted (exactly once each) by translate_item
            if t in reserved:
                raise TranslateError(f'{where}:{n.lineno}: module-level rebinding of `{t}`')
            calls = [c for c in ast.walk(n.value) if isinstance(c, ast.Call)]
            if calls and not (isinstance(n.value, ast.Call) and norm(n.value.func) in ('TypeVar', 'logging.getLogger', 'getLogger')
                              and len(calls) == 1):
                raise TranslateError(f'{where}:{n.lineno}: module-level `{norm(n)[:60]}` contains a call')
            continue
        if isinstance(n, ast.AnnAssign) and isinstance(n.target, ast.Name) and norm(n.annotation) == 'TypeAlias' \
                and n.target.id not in reserved and not any(isinstance(c, ast.Call) for c in ast.walk(n.value)):
            continue
        raise TranslateError(f'{where}:{n.lineno}: module-level statement `{norm(n)[:60]}` not accepted')
    for need in imports:
        if need not in seen_imports:
            raise TranslateError(f'{where}: import `{need}` not found')


def check_sentinel_class(tree, cname: str, member: str):
    cls = find_class(tree, cname)
    body = [norm(x) for x in strip_doc(cls.body)]
    if [norm(b) for b in cls.bases] != ['enum.Enum'] or body != [f'{member} = object()'] or cls.decorator_list:
        raise TranslateError(f'item.py: sentinel class {cname} is not `class {cname}(enum.Enum): {member} = object()`')


def translate_item(tree) -> dict:
    check_module_shape(tree, 'item.py', {'_Start', '_End', 'PubSubItem'}, {':asyncio', ':enum'},
                       {'PubSubItem', '_START', '_END', '_Start', '_End', 'asyncio', 'enum', 'list', 'object'})
    check_sentinel_class(tree, '_Start', 'START')
    check_sentinel_class(tree, '_End', 'END')
    cls = find_class(tree, 'PubSubItem')
    ms = check_class_shape(cls, ['Generic[_Item]'], 'PubSubItem')
    check_aenter_aexit(ms, 'PubSubItem', 'await self.aclose()')
    res = {}
    # module-level sentinels must be what the names say
    mod_assign = [norm(n) for n in tree.body if isinstance(n, ast.Assign)]
    for need in ('_START = _Start.START', '_END = _End.END'):
        if mod_assign.count(need) != 1:
            raise TranslateError(f'item.py: `{need}` not found exactly once at module level')
    for name in ITEM_METHODS:
        if name not in ms:
            raise TranslateError(f'PubSubItem.{name} not found')
    for name, fn in ms.items():
        if name in ITEM_METHODS:
            continue
        if name not in ITEM_READONLY:
            raise TranslateError(f'PubSubItem.{name}: method not modelled')
        if name not in ('cache', 'closed', 'n_subscriptions') and name not in ('__aenter__', '__aexit__') and fn.decorator_list:
            raise TranslateError(f'PubSubItem.{name}: decorated')
        # every other method must not write a tracked attribute or call a mutating method
        for n in ast.walk(fn):
            if is_self_attr(n) and isinstance(n.ctx, (ast.Store, ast.Del)):
                raise TranslateError(f'PubSubItem.{name}: writes self.{n.attr} (method not modelled)')
            if isinstance(n, ast.Call) and isinstance(n.func, ast.Attribute) and is_self_attr(n.func.value, LIST_ATTRS):
                raise TranslateError(f'PubSubItem.{name}: calls a method of self.{n.func.value.attr} (method not modelled)')
            if isinstance(n, ast.Call) and is_self_attr(n.func) and n.func.attr not in ('aclose',):
                raise TranslateError(f'PubSubItem.{name}: calls self.{n.func.attr} (method not modelled)')
        if name in ('cache', 'closed', 'n_subscriptions'):
            if [norm(d) for d in fn.decorator_list] != ['property']:
                raise TranslateError(f'PubSubItem.{name}: not a read-only property')
    expected_kind = {
        '__init__': ast.FunctionDef, 'publish': ast.AsyncFunctionDef, 'clear': ast.FunctionDef,
        'latest': ast.FunctionDef, 'aclose': ast.AsyncFunctionDef, '_enumerate': ast.AsyncFunctionDef,
    }
    for name in ITEM_METHODS:
        fn = ms[name]
        where = f'PubSubItem.{name}'
        if fn.decorator_list:
            raise TranslateError(f'{where}: decorated')
        tr = ItemTr(where, local_names(fn))
        is_agen = isinstance(fn, ast.AsyncFunctionDef) and has_yield(fn)
        if name == 'subscribe':
            kind = 'AsyncGen' if is_agen else ('Coroutine' if isinstance(fn, ast.AsyncFunctionDef) else 'PlainDef')
        else:
            if not isinstance(fn, expected_kind[name]):
                raise TranslateError(f'{where}: expected {expected_kind[name].__name__}')
            if has_yield(fn):
                raise TranslateError(f'{where}: contains yield')
            kind = None
        params = params_of(fn, where)
        body = tr.block(strip_doc(fn.body), 2)
        if tr.new_queues > 1:
            raise TranslateError(f'{where}: more than one asyncio.Queue created per call')
        res[name] = dict(params=[(p, default_expr(tr, d)) for p, d in params], body=body, kind=kind)
    return res


# ------------------------------------------------------------------ broker.py

class BrokerTr:
    def __init__(self, where, locals_):
        self.where = where
        self.locals = set(locals_)

    def err(self, node, msg):
        raise TranslateError(f'{self.where}:{getattr(node, "lineno", "?")}: {msg}: `{norm(node)}`')

    def name(self, n) -> str:
        if isinstance(n, ast.Name) and n.id in self.locals:
            return q(n.id)
        self.err(n, 'argument is not a local name')

    def bexpr(self, e) -> str:
        if isinstance(e, ast.Subscript) and is_self_attr(e.value, {'_queue'}):
            return f'(BGetItem {self.name(e.slice)})'
        if (isinstance(e, ast.Call) and isinstance(e.func, ast.Attribute) and e.func.attr == 'pop'
                and is_self_attr(e.func.value, {'_queue'}) and len(e.args) == 2 and not e.keywords
                and isinstance(e.args[1], ast.Constant) and e.args[1].value is None):
            return f'(BPop {self.name(e.args[0])})'
        if isinstance(e, ast.Name) and e.id in self.locals:
            return f'(BVar {q(e.id)})'
        self.err(e, 'broker expression not understood')

    def call(self, c):
        if not (isinstance(c, ast.Call) and isinstance(c.func, ast.Attribute) and c.func.attr in IMETHODS):
            self.err(c, 'call of something that is not a PubSubItem method')
        pos = '[' + '; '.join(self.name(a) for a in c.args) + ']'
        for k in c.keywords:
            if k.arg is None:
                self.err(c, '**kwargs')
        kw = '[' + '; '.join(f'({q(k.arg)}, {self.name(k.value)})' for k in c.keywords) + ']'
        return f'{self.bexpr(c.func.value)} {IMETHODS[c.func.attr]} {pos} {kw}'

    def stmt(self, st) -> str | None:
        if isinstance(st, ast.Expr) and isinstance(st.value, ast.Constant) and isinstance(st.value.value, str):
            return None
        if isinstance(st, ast.Return) and st.value is not None:
            return f'BReturnCall {self.call(st.value)}'
        if isinstance(st, ast.Expr) and isinstance(st.value, ast.Await):
            return f'BAwaitCall {self.call(st.value.value)}'
        if isinstance(st, ast.If) and isinstance(st.test, ast.NamedExpr) and not st.orelse:
            x = st.test.target.id
            self.locals.add(x)
            return f'BIfWalrus {q(x)} {self.bexpr(st.test.value)} {self.block(st.body)}'
        if isinstance(st, ast.While) and is_self_attr(st.test, {'_queue'}) and not st.orelse:
            return f'BWhileQueue {self.block(st.body)}'
        if (isinstance(st, ast.Assign) and len(st.targets) == 1 and isinstance(st.targets[0], ast.Tuple)
                and len(st.targets[0].elts) == 2 and all(isinstance(x, ast.Name) for x in st.targets[0].elts)
                and norm(st.value) == 'self._queue.popitem()'):
            k, x = st.targets[0].elts
            if k.id in self.locals and k.id != '_':
                self.err(st, 'popitem() overwrites a local that is in use')
            self.locals.add(x.id)
            return f'BPopItem {q(x.id)}'
        self.err(st, 'broker statement not understood')

    def block(self, body) -> str:
        items = [x for x in (self.stmt(s) for s in body) if x is not None]
        return '[' + '; '.join(items) + ']'


def translate_broker(tree, item_init_params) -> dict:
    check_module_shape(tree, 'broker.py', {'PubSub'}, {'collections:defaultdict', '.item:PubSubItem'},
                       {'PubSub', 'PubSubItem', 'defaultdict'})
    cls = find_class(tree, 'PubSub')
    ms = check_class_shape(cls, ['Generic[_KT, _VT]'], 'PubSub')
    check_aenter_aexit(ms, 'PubSub', 'await self.close()')
    res = {}
    for name in BROKER_METHODS + ['__init__']:
        if name not in ms:
            raise TranslateError(f'PubSub.{name} not found')
    init = [norm(s) for s in strip_doc(ms['__init__'].body)]
    if len(init) != 1 or not isinstance(strip_doc(ms['__init__'].body)[0], ast.Assign):
        raise TranslateError(f'PubSub.__init__: body is {init}')
    a = strip_doc(ms['__init__'].body)[0]
    v = a.value
    ok = (len(a.targets) == 1 and is_self_attr(a.targets[0], {'_queue'}) and isinstance(v, ast.Call)
          and norm(v.func.value if isinstance(v.func, ast.Subscript) else v.func) == 'defaultdict'
          and len(v.args) == 1 and not v.keywords and norm(v.args[0]) == 'PubSubItem')
    if not ok:
        raise TranslateError(f'PubSub.__init__: expected `self._queue = defaultdict[...](PubSubItem)`, got `{init[0]}`')
    if ms['__init__'].decorator_list or [a.arg for a in ms['__init__'].args.args] != ['self'] \
            or ms['__init__'].args.kwonlyargs or ms['__init__'].args.vararg or ms['__init__'].args.kwarg:
        raise TranslateError('PubSub.__init__: signature is not `(self)`')
    if any(d is None for _, d in item_init_params):
        raise TranslateError('PubSubItem.__init__ has a parameter without default: defaultdict factory would fail')
    known = set(BROKER_METHODS) | {'__init__', '__aenter__', '__aexit__'}     # the last two are pinned above
    for name, fn in ms.items():
        if name not in known:
            raise TranslateError(f'PubSub.{name}: method not modelled')
    kinds = {'subscribe': ast.FunctionDef, 'publish': ast.AsyncFunctionDef, 'latest': ast.FunctionDef,
             'end': ast.AsyncFunctionDef, 'close': ast.AsyncFunctionDef}
    for name in BROKER_METHODS:
        fn = ms[name]
        where = f'PubSub.{name}'
        if fn.decorator_list:
            raise TranslateError(f'{where}: decorated')
        if has_yield(fn):
            raise TranslateError(f'{where}: is a generator (the item would be looked up at the first __anext__, not at the call)')
        if not isinstance(fn, kinds[name]):
            raise TranslateError(f'{where}: expected {kinds[name].__name__}, found {type(fn).__name__}')
        params = params_of(fn, where)
        tr = BrokerTr(where, [p for p, _ in params])
        dtr = ItemTr(where, set())
        res[name] = dict(params=[(p, default_expr(dtr, d)) for p, d in params], body=tr.block(strip_doc(fn.body)))
    return res


# ------------------------------------------------------------------ output

def plist(params) -> str:
    return '[' + '; '.join(f'({q(p)}, {d})' for p, d in params) + ']'


def translate(repo: Path) -> str:
    repo = Path(repo)
    pi, pb = repo / SRC_ITEM, repo / SRC_BROKER
    for p in (pi, pb):
        if not p.exists():
            raise TranslateError(f'{p} not found')
    item = translate_item(ast.parse(pi.read_text()))
    init_params = item['__init__']['params']
    broker = translate_broker(ast.parse(pb.read_text()), [(p, None if d == 'None' else d) for p, d in init_params])
    L = [
        '(** GENERATED by translate/pubsub_funs.py from',
        f'    {SRC_ITEM} and {SRC_BROKER} (ast, CPython {sys.version_info[0]}.{sys.version_info[1]}) -- do not edit.',
        '    Statement-by-statement translation of the methods of PubSubItem and PubSub into the',
        '    syntax of PubSub/Syntax.v; PubSub/Tie.v interprets it and ties it to PubSub/Model.v. *)',
        'From NL Require Import PubSub.Syntax.',
        'Local Open Scope string_scope.',
        '',
        '(** how a call of PubSubItem.subscribe behaves: AsyncGen = nothing of the body runs before the',
        '    first __anext__ *)',
        'Inductive fun_kind := AsyncGen | Coroutine | PlainDef.',
        '',
    ]
    coqname = {'__init__': 'init', 'publish': 'publish', 'clear': 'clear', 'latest': 'latest',
               'subscribe': 'subscribe', 'aclose': 'aclose', '_enumerate': 'enumerate'}
    for name in ITEM_METHODS:
        m = item[name]
        cn = coqname[name]
        L.append(f'(** PubSubItem.{name} *)')
        L.append(f'Definition item_{cn}_params : list (string * option expr) := {plist(m["params"])}.')
        if m['kind']:
            L.append(f'Definition item_{cn}_kind : fun_kind := {m["kind"]}.')
        L.append(f'Definition item_{cn}_body : stmt :=\n  {m["body"]}.')
        L.append('')
    for name in BROKER_METHODS:
        m = broker[name]
        L.append(f'(** PubSub.{name} *)')
        L.append(f'Definition broker_{name}_params : list (string * option expr) := {plist(m["params"])}.')
        L.append(f'Definition broker_{name}_body : list bstmt :=\n  {m["body"]}.')
        L.append('')
    return '\n'.join(L)


if __name__ == '__main__':
    print(translate(Path(sys.argv[1] if len(sys.argv) > 1 else '/repo')))
