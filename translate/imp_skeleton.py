"""Fail-closed translator: nextline/imp.py (class Imp) + nextline/main.py (class Nextline)
(+ the calls nextline/continuous.py makes back into Nextline)  ->  Gen/ImpSkeleton.v

Every method of Imp and of Nextline (except `__init__`, `__repr__` and properties) is translated
into a term of the statement AST of coq/theories/Life/ImpSyntax.v:

  async with self._lock: B            WithLock B
  if C: A else: B                     If g A B     g = GFlag FStarted|FClosed, GStateIs "running", GOther "<src>"
  return [e] / raise                  Return / Raise    (a tracked call inside e comes first)
  self._started = True                SetFlag FStarted true
  await self._machine.<t>(...)        Trigger T<t>
  await self.pubsub.close()           PubSubClose
  await self._callback.wait_for_run_finish()     WaitRunFinish
  [await] self._hook.(a)hook.<n>(...) Hook async "<n>"
  [await] self.<m>() / self._imp.<m>() / self._continuous.<m>()      Call O.. "<m>"
  async with <such a call>: B         WithCall O.. "<m>" B
  try: A finally: B                   TryFinally A B
  try: A except BaseException: H      TryExcept A H       (a bare `raise` in H = Raise)
  yield                               Yield
  await asyncio.wait_for(<tracked call>, timeout=..)   WaitFor (<that call>)
  await <anything untracked>          AwaitOther "<src>"   (still a suspension point)

Statements that touch nothing tracked and contain no await/return/raise/yield (logging, local
variables, docstrings, asserts, typing) are dropped.  Everything else in a tracked position --
another use of `_machine`, `_lock`, `_callback`, `_imp`, `_continuous`, `_started`, `_closed`, an alias
of one of them, a tracked call in an argument position, an un-awaited coroutine, a manual
`acquire()`/`release()`, try/except or a loop around a tracked action, an unknown decorator --
raises SkeletonError, which `./check` reports as a broken tie obligation.

Life/ImpTie.v gives the terms a semantics (every await may raise, every untracked condition may go
either way) and proves the facts Life/Model.v assumes about them.
"""
from __future__ import annotations

import ast
import sys
from pathlib import Path

OUTPUT = 'ImpSkeleton.v'
SRC_IMP = 'nextline/imp.py'
SRC_MAIN = 'nextline/main.py'
SRC_CONT = 'nextline/continuous.py'
SRC_MACHINE = 'nextline/fsm/machine.py'


class SkeletonError(Exception):
    pass


TRIGGERS = {'run': 'TRun', 'reset': 'TReset', 'aopen': 'TAopen', 'aclose': 'TAclose',
            'initialize': 'TInitialize', 'finish': 'TFinish', 'close': 'TClose'}
FLAGS = {'_started': 'FStarted', '_closed': 'FClosed'}
# attribute names that may only occur in a recognised form
STRICT = {'Imp': {'_machine', '_lock', '_callback'},
          'Nextline': {'_machine', '_lock', '_callback', '_imp', '_continuous', '_started', '_closed'}}
# reads that change nothing (subscriptions / properties / logging)
HARMLESS = {
    'Imp': {('self', '_machine', 'state')},
    'Nextline': {('self', '_imp', 'state'), ('self', '_imp', 'pubsub', 'latest'), ('self', '_imp', 'pubsub', 'subscribe'),
                 ('self', '_continuous', 'enabled'), ('self', '_continuous', 'subscribe_enabled')},
}
CTX_DECORATORS = {'asynccontextmanager', 'contextlib.asynccontextmanager'}
# calls of Continuous back into Nextline that are not lifecycle requests
CONT_IGNORED = {'register', 'unregister'}
CONT_FORBIDDEN = {'_imp', '_machine', '_lock', '_callback'}

# ---- the shared rule for positions that are NOT translated (harness/HARDEN_TASK.md item 2):
# a call there must be one of these (by its source text), `self` may occur only as `self.<known attribute>`,
# no assert, no walrus onto anything but a local name, logger arguments contain no call
LOGGER_CALLS = {'Imp': {'self._logger.' + l for l in ('debug', 'info', 'warning', 'error', 'exception')},
                'Nextline': {'logger.' + l for l in ('debug', 'info', 'warning', 'error', 'exception')}}
ALLOWED_CALLS = {
    'Imp': {'self._hook.register', 'self._hook.unregister', 'log_loaded_plugins'},
    'Nextline': {'getLogger', 'PdbCommand', 'TraceNo', 'PromptNo', 'ResetOptions', 'asyncio.Event', 'linecache.getlines', 'len'},
}
INIT_CALLS = {
    'Imp': {'build_hook', 'PubSub[Any, Any]', 'Context', 'Callback', 'StateMachine', 'getLogger', 'asyncio.Lock'},
    'Nextline': {'InitOptions', 'Continuous', 'Imp'},
}
PURE_METHODS = {'split', 'rstrip'}       # str methods on a local value
KNOWN_SELF = {
    'Imp': {'_hook', 'pubsub', '_context', '_init_options', '_callback', '_machine', '_logger', '_lock', '__class__'},
    'Nextline': {'_init_options', '_continuous', '_timeout_on_exit', '_started', '_closed', '_imp', '__class__'},
}
FORBIDDEN_DUNDERS = {'__enter__', '__exit__', '__bool__', '__len__', '__eq__', '__hash__', '__post_init__', '__getattr__',
                     '__getattribute__', '__setattr__', '__delattr__', '__del__', '__call__', '__await__', '__aiter__',
                     '__anext__', '__iter__', '__next__', '__init_subclass__', '__new__', '__class_getitem__', '__set_name__'}


def norm(node) -> str:
    return ' '.join(ast.unparse(node).split())


def coq_str(s: str) -> str:
    s = s.encode('ascii', 'replace').decode()
    return '"' + s.replace('"', '""') + '"'


def chain(node):
    parts = []
    while isinstance(node, ast.Attribute):
        parts.append(node.attr)
        node = node.value
    if isinstance(node, ast.Name):
        parts.append(node.id)
        return tuple(reversed(parts))
    return None


def chain_nodes(node):
    out = []
    while isinstance(node, ast.Attribute):
        out.append(node)
        node = node.value
    return out


def seq(items: list[str]) -> str:
    items = [i for i in items if i]
    if not items:
        return ''
    if len(items) == 1:
        return items[0]
    return f'Seq {par(items[0])} {par(seq(items[1:]))}'


def par(s: str) -> str:
    return s if (' ' not in s) else f'({s})'


def tokens(s: str) -> list[str]:
    return s.replace('(', ' ').replace(')', ' ').split()


def or_skip(s: str) -> str:
    return s if s else 'Skip'


def method_info(fn) -> dict:
    decs = [norm(d) for d in fn.decorator_list]
    info = {'async': isinstance(fn, ast.AsyncFunctionDef), 'ctx': False, 'property': False, 'node': fn}
    for d in decs:
        if d == 'property':
            info['property'] = True
        elif d in CTX_DECORATORS:
            info['ctx'] = True
        else:
            raise SkeletonError(f'{fn.name}:{fn.lineno}: decorator `{d}` not recognised')
    if info['ctx'] and not info['async']:
        raise SkeletonError(f'{fn.name}:{fn.lineno}: synchronous context manager not recognised')
    return info


def module_check(tree, name: str, path: str, assigns: set[str]):
    """module level: imports, `if TYPE_CHECKING:` imports, the listed plain assignments, the one class"""
    for n in tree.body:
        if isinstance(n, (ast.Import, ast.ImportFrom)):
            continue
        if isinstance(n, ast.Expr) and isinstance(n.value, ast.Constant):
            continue
        if isinstance(n, ast.If) and norm(n.test) == 'TYPE_CHECKING' and not n.orelse \
                and all(isinstance(x, (ast.Import, ast.ImportFrom)) for x in n.body):
            continue
        if isinstance(n, ast.Assign) and norm(n) in assigns:
            continue
        if isinstance(n, ast.ClassDef) and n.name == name:
            continue
        raise SkeletonError(f'{path}:{n.lineno}: module-level statement `{norm(n)[:70]}` not recognised')


def class_methods(tree, name: str, path: str, strict: bool = True):
    xs = [n for n in tree.body if isinstance(n, ast.ClassDef) and n.name == name]
    if len(xs) != 1:
        raise SkeletonError(f'{path}: expected exactly one class {name}')
    if strict:
        if xs[0].bases or xs[0].keywords or xs[0].decorator_list:
            raise SkeletonError(f'{path}: class {name} has base classes / keywords / decorators')
        for n in xs[0].body:
            if isinstance(n, (ast.FunctionDef, ast.AsyncFunctionDef)):
                continue
            if isinstance(n, ast.Expr) and isinstance(n.value, ast.Constant):
                continue
            if isinstance(n, ast.AnnAssign) and n.value is None:
                continue
            raise SkeletonError(f'{path}:{n.lineno}: class-level statement `{norm(n)[:70]}` in class {name}')
    out = {}
    for n in xs[0].body:
        if isinstance(n, (ast.FunctionDef, ast.AsyncFunctionDef)):
            if n.name in out:
                raise SkeletonError(f'{path}: {name}.{n.name} defined twice')
            out[n.name] = method_info(n)
    return xs[0], out


class Tr:
    """translates the methods of one class"""

    def __init__(self, cls: str, own: dict, imp: dict, cont: dict):
        self.cls = cls
        self.own = own          # methods of this class
        self.imp = imp          # methods of Imp
        self.cont = cont        # methods of Continuous
        self.consumed: set[int] = set()
        self.where = cls

    def err(self, node, msg):
        raise SkeletonError(f'{self.where}:{getattr(node, "lineno", "?")}: {msg}')

    # ---- calls
    def classify(self, call: ast.Call):
        """(coq statement, kind) of a tracked call, kind in 'await' | 'sync' | 'ctx'; None if untracked"""
        c = chain(call.func)
        if c is None or c[0] != 'self' or len(c) < 2:
            return None
        via_imp = False
        if self.cls == 'Nextline' and len(c) >= 2 and c[1] == '_imp':
            c = ('self',) + c[2:]
            via_imp = True
            if len(c) == 1:
                self.err(call, '`self._imp(...)` not recognised')
        inside_imp = via_imp or self.cls == 'Imp'
        res = None
        if inside_imp and c[1] == '_machine':
            if len(c) == 3 and c[2] in TRIGGERS:
                res = (f'Trigger {TRIGGERS[c[2]]}', 'await')
            else:
                self.err(call, f'call `{norm(call.func)}` on the state machine not recognised')
        elif inside_imp and c[1] == '_lock':
            self.err(call, f'`{norm(call.func)}`: the lock may only be used as `async with self._lock:`')
        elif inside_imp and c[1] == '_callback':
            if c == ('self', '_callback', 'wait_for_run_finish'):
                res = ('WaitRunFinish', 'await')
            else:
                self.err(call, f'call `{norm(call.func)}` on the callback not recognised')
        elif inside_imp and c == ('self', 'pubsub', 'close'):
            res = ('PubSubClose', 'await')
        elif inside_imp and len(c) >= 3 and c[1] == '_hook' and c[2] in ('hook', 'ahook', 'awith'):
            if len(c) == 4 and c[2] == 'ahook':
                res = (f'Hook true {coq_str(c[3])}', 'await')
            elif len(c) == 4 and c[2] == 'hook':
                res = (f'Hook false {coq_str(c[3])}', 'sync')
            else:
                self.err(call, f'hook call `{norm(call.func)}` not recognised')
        elif via_imp:
            if len(c) == 2 and c[1] in self.imp:
                res = (f'Call OImp {coq_str(c[1])}', self.kind_of(self.imp[c[1]], call))
            elif ('self', '_imp') + c[1:] in HARMLESS['Nextline']:
                return None
            else:
                self.err(call, f'call `{norm(call.func)}` into Imp not recognised')
        elif len(c) == 2 and c[1] in self.own:
            o = 'OImp' if self.cls == 'Imp' else 'ONextline'
            res = (f'Call {o} {coq_str(c[1])}', self.kind_of(self.own[c[1]], call))
        elif self.cls == 'Nextline' and c[1] == '_continuous':
            if c in HARMLESS['Nextline']:
                return None
            if len(c) == 3 and c[2] in self.cont:
                res = (f'Call OContinuous {coq_str(c[2])}', self.kind_of(self.cont[c[2]], call))
            else:
                self.err(call, f'call `{norm(call.func)}` into Continuous not recognised')
        if res is not None:
            for n in chain_nodes(call.func):
                self.consumed.add(id(n))
            for a in list(call.args) + [k.value for k in call.keywords]:
                self.inert_expr(a, 'argument of a tracked call')
        return res

    def kind_of(self, info: dict, call) -> str:
        if info['property']:
            self.err(call, f'`{norm(call.func)}` is a property, not a method')
        if info['ctx']:
            return 'ctx'
        return 'await' if info['async'] else 'sync'

    def inert_expr(self, e, what: str):
        """no await/yield and no tracked call inside e"""
        if e is None:
            return
        for n in ast.walk(e):
            if isinstance(n, (ast.Await, ast.Yield, ast.YieldFrom)):
                self.err(n, f'await/yield inside {what}: `{norm(e)}`')
            if isinstance(n, ast.Call) and self.classify(n) is not None:
                self.err(n, f'tracked call `{norm(n)}` inside {what}')

    def awaited(self, aw: ast.Await) -> str:
        v = aw.value
        if isinstance(v, ast.Call):
            if chain(v.func) in (('asyncio', 'wait_for'), ('wait_for',), ('asyncio', 'timeout'), ('asyncio', 'shield')) \
                    or (chain(v.func) or ('',))[-1] in ('wait_for', 'shield', 'gather', 'wait', 'create_task', 'ensure_future'):
                # a tracked coroutine handed to an asyncio wrapper: only `await asyncio.wait_for(<tracked call>, timeout=...)`
                if chain(v.func) != ('asyncio', 'wait_for') or not v.args or not isinstance(v.args[0], ast.Call):
                    for a in list(v.args) + [k.value for k in v.keywords]:
                        self.inert_expr(a, f'an argument of `{norm(v.func)}`')
                else:
                    inner = self.classify(v.args[0])
                    if inner is not None:
                        if len(v.args) > 2 or [k.arg for k in v.keywords] not in ([], ['timeout']) or len(v.args) + len(v.keywords) != 2:
                            self.err(aw, f'`{norm(v)}`: wait_for(<call>, timeout=...) expected')
                        for a in v.args[1:] + [k.value for k in v.keywords]:
                            self.inert_expr(a, 'the timeout of wait_for')
                        if inner[1] != 'await':
                            self.err(aw, f'`{norm(v.args[0])}` is not a coroutine')
                        return f'WaitFor {par(inner[0])}'
            r = self.classify(v)
            if r is not None:
                if r[1] != 'await':
                    self.err(aw, f'`{norm(v)}` is awaited but is not a coroutine function')
                return r[0]
        self.inert_expr(v, 'an untracked await')
        return f'AwaitOther {coq_str(norm(v))}'

    def sync_expr(self, e) -> str:
        """an expression evaluated without await at statement level: at most one tracked (sync) call"""
        if e is None:
            return ''
        if isinstance(e, ast.Await):
            return self.awaited(e)
        if isinstance(e, (ast.Yield,)):
            self.inert_expr(e.value, 'the value of yield')
            return 'Yield'
        found = []
        guarded = (ast.Lambda, ast.ListComp, ast.SetComp, ast.DictComp, ast.GeneratorExp, ast.BoolOp, ast.IfExp)

        def visit(n, cond):
            if isinstance(n, (ast.Await, ast.Yield, ast.YieldFrom)):
                self.err(n, f'await/yield nested in an expression: `{norm(e)}`')
            if isinstance(n, ast.Call):
                r = self.classify(n)
                if r is not None:
                    if cond:
                        self.err(n, f'tracked call `{norm(n)}` evaluated conditionally/repeatedly')
                    found.append((n, r))
                    return           # its arguments were checked by classify
            for ch in ast.iter_child_nodes(n):
                visit(ch, cond or isinstance(n, guarded))

        visit(e, False)
        if len(found) > 1:
            self.err(e, f'more than one tracked call in `{norm(e)}`')
        if not found:
            return ''
        n, (s, kind) = found[0]
        if kind != 'sync':
            self.err(n, f'`{norm(n)}` is a coroutine/context manager that is neither awaited nor entered')
        return s

    # ---- guards
    def guard(self, test):
        """(coq guard, negated)"""
        if isinstance(test, ast.UnaryOp) and isinstance(test.op, ast.Not):
            g, neg = self.guard(test.operand)
            return g, not neg
        c = chain(test)
        if self.cls == 'Nextline' and c is not None and len(c) == 2 and c[0] == 'self' and c[1] in FLAGS:
            self.consumed.add(id(test))
            return f'GFlag {FLAGS[c[1]]}', False
        if isinstance(test, ast.Compare) and len(test.ops) == 1 and isinstance(test.ops[0], (ast.Eq, ast.NotEq)):
            l, r = test.left, test.comparators[0]
            if isinstance(l, ast.Constant):
                l, r = r, l
            state_chains = [('self', '_machine', 'state')] if self.cls == 'Imp' else \
                [('self', '_imp', 'state'), ('self', '_imp', '_machine', 'state')]
            if chain(l) in state_chains and isinstance(r, ast.Constant) and isinstance(r.value, str):
                for n in chain_nodes(l):
                    self.consumed.add(id(n))
                return f'GStateIs {coq_str(r.value)}', isinstance(test.ops[0], ast.NotEq)
        self.inert_expr(test, 'a condition')
        return f'GOther {coq_str(norm(test))}', False

    # ---- statements
    def body(self, stmts) -> str:
        return seq([self.stmt(s) for s in stmts])

    def all_inert(self, st, what: str):
        """an unsupported compound statement: acceptable only if nothing in it is tracked"""
        for field in ('body', 'orelse', 'finalbody'):
            for s in getattr(st, field, []) or []:
                if self.stmt(s):
                    self.err(s, f'tracked statement `{norm(s)[:80]}` inside {what}')
        for h in getattr(st, 'handlers', []) or []:
            self.inert_expr(h.type, 'an except clause')
            for s in h.body:
                if self.stmt(s):
                    self.err(s, f'tracked statement `{norm(s)[:80]}` inside an except clause')
        for c in getattr(st, 'cases', []) or []:
            for s in c.body:
                if self.stmt(s):
                    self.err(s, f'tracked statement `{norm(s)[:80]}` inside a match statement')

    def target_check(self, t, value):
        """assignment target; returns a SetFlag statement or ''"""
        c = chain(t)
        if self.cls == 'Nextline' and c is not None and len(c) == 2 and c[0] == 'self' and c[1] in FLAGS:
            if isinstance(value, ast.Constant) and isinstance(value.value, bool):
                self.consumed.add(id(t))
                return f'SetFlag {FLAGS[c[1]]} {"true" if value.value else "false"}'
            self.err(t, f'`{norm(t)}` assigned something other than True/False')
        for n in ast.walk(t):
            if isinstance(n, ast.Attribute) and n.attr in STRICT[self.cls]:
                self.err(t, f'assignment to `{norm(t)}` outside __init__')
            if isinstance(n, (ast.Await, ast.Call)):
                self.inert_expr(n, 'an assignment target')
        return ''

    def stmt(self, st) -> str:
        if isinstance(st, ast.Expr):
            if isinstance(st.value, ast.Constant):
                return ''
            return self.sync_expr(st.value)
        if isinstance(st, ast.Pass):
            return ''
        if isinstance(st, ast.Return):
            return seq([self.sync_expr(st.value), 'Return'])
        if isinstance(st, ast.Raise):
            self.inert_expr(st.exc, 'a raise statement')
            self.inert_expr(st.cause, 'a raise statement')
            return 'Raise'
        if isinstance(st, ast.Assign):
            sets = [self.target_check(t, st.value) for t in st.targets]
            return seq([self.sync_expr(st.value)] + sets)
        if isinstance(st, ast.AnnAssign):
            sets = [self.target_check(st.target, st.value)]
            return seq([self.sync_expr(st.value)] + sets)
        if isinstance(st, ast.AugAssign):
            self.target_check(st.target, None)
            return self.sync_expr(st.value)
        if isinstance(st, ast.Assert):
            self.err(st, 'assert in a translated method (it can raise): not recognised')
        if isinstance(st, ast.If):
            g, neg = self.guard(st.test)
            a, b = self.body(st.body), self.body(st.orelse)
            if neg:
                a, b = b, a
            if not a and not b and g.startswith('GOther'):
                return ''
            return f'If ({g}) {par(or_skip(a))} {par(or_skip(b))}'
        if isinstance(st, ast.Try):
            if not st.handlers and not st.orelse and st.finalbody:
                a, b = self.body(st.body), self.body(st.finalbody)
                if not a and not b:
                    return ''
                return f'TryFinally {par(or_skip(a))} {par(or_skip(b))}'
            if len(st.handlers) == 1 and not st.orelse and st.handlers[0].name is None \
                    and (st.handlers[0].type is None or norm(st.handlers[0].type) == 'BaseException'):
                a, h = self.body(st.body), self.body(st.handlers[0].body)
                t = f'TryExcept {par(or_skip(a))} {par(or_skip(h))}' if (a or h) else ''
                if st.finalbody:
                    b = self.body(st.finalbody)
                    return f'TryFinally {par(or_skip(t))} {par(or_skip(b))}' if (t or b) else ''
                return t
            self.all_inert(st, 'a try statement with except/else clauses other than one `except BaseException:`')
            return ''
        if isinstance(st, ast.AsyncWith):
            if len(st.items) != 1:
                self.err(st, '`async with` with several items not recognised')
            it = st.items[0]
            c = chain(it.context_expr)
            lock_chains = [('self', '_lock')] if self.cls == 'Imp' else [('self', '_imp', '_lock')]
            if c in lock_chains:
                if it.optional_vars is not None:
                    self.err(st, '`async with self._lock as ...` not recognised')
                for n in chain_nodes(it.context_expr):
                    self.consumed.add(id(n))
                return f'WithLock {par(or_skip(self.body(st.body)))}'
            if isinstance(it.context_expr, ast.Call):
                r = self.classify(it.context_expr)
                if r is not None and r[1] == 'ctx':
                    b = self.body(st.body)
                    if 'Return' in tokens(b):
                        self.err(st, '`return` inside `async with <context manager method>` not recognised')
                    return f'WithCall {r[0][len("Call "):]} {par(or_skip(b))}'
            self.err(st, f'`async with {norm(it.context_expr)}` not recognised')
        if isinstance(st, (ast.With, ast.For, ast.While, ast.AsyncFor, ast.Match)):
            for field in ('iter', 'test', 'subject'):
                self.inert_expr(getattr(st, field, None), 'a loop/match header')
            for it in getattr(st, 'items', []) or []:
                self.inert_expr(it.context_expr, 'a with item')
            if isinstance(st, ast.AsyncFor):
                self.err(st, '`async for` not recognised')
            self.all_inert(st, 'a loop/with/match statement')
            return ''
        if isinstance(st, (ast.FunctionDef, ast.AsyncFunctionDef, ast.ClassDef, ast.Lambda)):
            for n in ast.walk(st):
                if isinstance(n, ast.Call) and self.classify(n) is not None:
                    self.err(n, f'tracked call `{norm(n)}` inside a nested definition')
            return ''
        if isinstance(st, (ast.Import, ast.ImportFrom, ast.Global, ast.Nonlocal, ast.Break, ast.Continue)):
            return ''
        if isinstance(st, ast.Delete):
            for t in st.targets:
                self.target_check(t, None)
            return ''
        self.err(st, f'statement `{norm(st)[:80]}` not recognised')

    # ---- every other occurrence of a strict name is an error
    def leak_check(self, fn):
        strict = STRICT[self.cls]
        inner = set()
        for n in ast.walk(fn):
            if isinstance(n, ast.Attribute) and isinstance(n.value, ast.Attribute):
                inner.add(id(n.value))
        for n in ast.walk(fn):
            if not isinstance(n, ast.Attribute) or id(n) in inner:
                continue                      # look at maximal chains only
            nodes = chain_nodes(n)
            names = {x.attr for x in nodes}
            c = chain(n)
            touches = names & strict
            if self.cls == 'Imp' and 'pubsub' in names and c == ('self', 'pubsub'):
                self.err(n, 'bare `self.pubsub` (alias) in a translated method')
            if 'close' in names and 'pubsub' in names and not all(id(x) in self.consumed for x in nodes if x.attr == 'close'):
                self.err(n, f'`{norm(n)}` not in a recognised position')
            if c is not None and len(c) >= 3 and c[1] == '_hook' and c[2] in ('hook', 'ahook', 'awith') \
                    and not any(id(x) in self.consumed for x in nodes):
                self.err(n, f'hook access `{norm(n)}` not in a recognised position')
            if not touches:
                continue
            if c is not None and c in HARMLESS[self.cls] and isinstance(n.ctx, ast.Load):
                continue
            if all(id(x) in self.consumed for x in nodes if x.attr in strict):
                continue
            self.err(n, f'`{norm(n)}` is not in a recognised position (alias or unknown use of a tracked attribute)')


    # ---- the rule for everything that is not translated
    def ignored_pass(self, fn, init: bool = False):
        parents = {}
        for n in ast.walk(fn):
            for ch in ast.iter_child_nodes(n):
                parents[id(ch)] = n
        allowed = ALLOWED_CALLS[self.cls] | (INIT_CALLS[self.cls] if init else set())
        for n in ast.walk(fn):
            if isinstance(n, ast.Assert):
                self.err(n, 'assert not recognised (it can raise)')
            if isinstance(n, ast.NamedExpr) and not isinstance(n.target, ast.Name):
                self.err(n, 'walrus onto something other than a local name')
            if isinstance(n, (ast.Lambda,)) or (n is not fn and isinstance(n, (ast.FunctionDef, ast.AsyncFunctionDef, ast.ClassDef))):
                self.err(n, 'nested definition not recognised')
            if isinstance(n, ast.Call):
                src = norm(n.func)
                if self.classify(n) is not None:
                    continue
                if src in LOGGER_CALLS[self.cls]:
                    for a in list(n.args) + [k.value for k in n.keywords]:
                        for x in ast.walk(a):
                            if isinstance(x, (ast.Call, ast.NamedExpr, ast.Await, ast.Yield, ast.YieldFrom)):
                                self.err(x, f'`{norm(x)}` inside the argument of a logging call')
                    continue
                if src == 'asyncio.wait_for':
                    continue            # handled by awaited(): WaitFor / AwaitOther with checked arguments
                c = chain(n.func)
                if c is not None and tuple(c) in HARMLESS[self.cls]:
                    continue
                if isinstance(n.func, ast.Attribute) and n.func.attr in PURE_METHODS and chain(n.func) is None or \
                        (isinstance(n.func, ast.Attribute) and n.func.attr in PURE_METHODS and (c or ('self',))[0] != 'self'):
                    continue
                if src in allowed:
                    continue
                self.err(n, f'call `{norm(n)[:70]}` in a position that is not translated: not in the list of calls known to be irrelevant')
            if isinstance(n, ast.Name) and n.id == 'self':
                par_ = parents.get(id(n))
                if isinstance(par_, ast.Attribute) and par_.value is n:
                    known = KNOWN_SELF[self.cls] | set(self.own)
                    if par_.attr not in known:
                        self.err(n, f'`self.{par_.attr}`: attribute not known to the translator')
                    continue
                if isinstance(par_, (ast.Yield, ast.Return)) and par_.value is n:
                    continue
                if isinstance(par_, ast.arg):
                    continue
                if init and (isinstance(par_, ast.keyword) or isinstance(par_, ast.Call)):
                    continue            # Imp(nextline=self, ...), Continuous(self)
                self.err(n, 'bare `self` passed on / stored (alias)')
        a = fn.args
        for d in list(a.defaults) + [x for x in a.kw_defaults if x is not None]:
            if not (isinstance(d, ast.Constant) or (isinstance(d, ast.UnaryOp) and isinstance(d.operand, ast.Constant))):
                self.err(d, f'default argument value `{norm(d)}` is not a constant')

    def method(self, name: str, info: dict) -> str:
        fn = info['node']
        self.where = f'{self.cls}.{name}'
        b = self.body(fn.body)
        self.leak_check(fn)
        self.ignored_pass(fn)
        n_yield = sum(1 for n in ast.walk(fn) if isinstance(n, (ast.Yield, ast.YieldFrom)))
        if info['ctx']:
            if n_yield != 1 or tokens(b).count('Yield') != 1:
                self.err(fn, 'an asynccontextmanager must have exactly one yield at statement level')
        elif n_yield:
            self.err(fn, 'yield outside an asynccontextmanager')
        return or_skip(b)

    def weak_check(self, name: str, info: dict):
        """properties: not translated; must not touch anything tracked"""
        fn = info['node']
        self.where = f'{self.cls}.{name} (property)'
        for n in ast.walk(fn):
            if isinstance(n, ast.Call) and self.classify(n) is not None:
                r = self.classify(n)
                if r[1] != 'sync' or not r[0].startswith('Call ONextline'):
                    self.err(n, f'tracked call `{norm(n)}` in a property')
            if isinstance(n, (ast.Await, ast.Yield, ast.YieldFrom)):
                self.err(n, 'await/yield in a property')
        saved = set(self.consumed)
        if name != '__repr__':
            self.leak_check(fn)
        self.ignored_pass(fn)
        self.consumed = saved


def init_assignments(fn) -> dict:
    out: dict[str, list] = {}
    for n in ast.walk(fn):
        if isinstance(n, ast.Assign):
            for t in n.targets:
                c = chain(t)
                if c is not None and len(c) == 2 and c[0] == 'self':
                    out.setdefault(c[1], []).append(n.value)
    return out


def translate_class(cls: str, methods: dict, imp: dict, cont: dict) -> list[tuple[str, str]]:
    tr = Tr(cls, methods, imp, cont)
    out = []
    for name, info in methods.items():
        if name == '__init__':
            tr.where = f'{cls}.__init__'
            tr.ignored_pass(info['node'], init=True)
            for st in info['node'].body:
                if isinstance(st, ast.Expr) and isinstance(st.value, ast.Constant):
                    continue
                ok = isinstance(st, ast.Assign) and len(st.targets) == 1 and (chain(st.targets[0]) or ('',))[0] == 'self' \
                    and len(chain(st.targets[0])) == 2
                if not ok:
                    raise SkeletonError(f'{cls}.__init__:{st.lineno}: statement other than `self.<name> = <value>`')
            continue
        if name in FORBIDDEN_DUNDERS:
            raise SkeletonError(f'{cls}.{name}: special method not recognised')
        if info['property'] or name == '__repr__':
            tr.weak_check(name, info)
            continue
        out.append((name, tr.method(name, info)))
    return out


def continuous_calls(path: Path) -> tuple[dict, list[tuple[str, list[str]]]]:
    tree = ast.parse(path.read_text())
    for n in ast.walk(tree):
        if isinstance(n, ast.Attribute) and n.attr in CONT_FORBIDDEN:
            raise SkeletonError(f'{SRC_CONT}:{n.lineno}: `{norm(n)}`: continuous.py reaches into Imp / the state machine')
    _, methods = class_methods(tree, 'Continuous', SRC_CONT, strict=False)

    def direct(fn) -> list[tuple[str, str]]:
        out = []

        def visit(n):
            if isinstance(n, ast.Call):
                c = chain(n.func)
                hit = False
                if c is not None and len(c) == 3 and c[:2] == ('self', '_nextline'):
                    if c[2] not in CONT_IGNORED:
                        out.append(('nl', c[2]))
                    hit = True
                elif c is not None and len(c) == 2 and c[0] == 'self' and c[1] in methods:
                    out.append(('self', c[1]))
                    hit = True
                if hit:
                    for a in list(n.args) + [k.value for k in n.keywords]:
                        visit(a)
                    return
            if isinstance(n, ast.Attribute):
                c = chain(n)
                if c is not None and c[:2] == ('self', '_nextline') and isinstance(n.ctx, ast.Load):
                    raise SkeletonError(f'{SRC_CONT}:{n.lineno}: `{norm(n)}` used other than as a direct method call')
            for ch in ast.iter_child_nodes(n):
                visit(ch)

        visit(fn)
        return out

    d = {name: direct(info['node']) for name, info in methods.items()}

    def expand(name, stack) -> list[str]:
        if name in stack:
            raise SkeletonError(f'{SRC_CONT}: recursion through Continuous.{name}')
        out = []
        for kind, m in d[name]:
            out += [m] if kind == 'nl' else expand(m, stack + [name])
        return out

    return methods, [(name, expand(name, [])) for name, info in methods.items()
                     if name not in ('__init__', '__repr__') and not info['property']]


def machine_info(path: Path):
    """fsm/machine.py: `aopen`/`aclose` are exactly `await self.<trigger>()`; per callback method of the
    StateMachine the Callback methods it awaits (a pin of the names Life/Model.v's comments rely on)"""
    tree = ast.parse(path.read_text())
    _, methods = class_methods(tree, 'StateMachine', SRC_MACHINE, strict=False)
    wrappers, callbacks = [], []
    for name, info in methods.items():
        fn = info['node']
        body = [st for st in fn.body if not (isinstance(st, ast.Expr) and isinstance(st.value, ast.Constant))]
        if name in ('aopen', 'aclose'):
            ok = info['async'] and len(body) == 1 and isinstance(body[0], ast.Expr) and isinstance(body[0].value, ast.Await) \
                and isinstance(body[0].value.value, ast.Call) and not body[0].value.value.args and not body[0].value.value.keywords
            c = chain(body[0].value.value.func) if ok else None
            if not ok or c is None or len(c) != 2 or c[0] != 'self':
                raise SkeletonError(f'{SRC_MACHINE}: StateMachine.{name} is not `await self.<trigger>()`')
            wrappers.append((name, c[1]))
        elif name.startswith('on_') or name == 'after_state_change':
            called = []

            def visit(n):
                if isinstance(n, ast.Call):
                    c = chain(n.func)
                    if c is not None and len(c) == 3 and c[:2] == ('self', '_callback'):
                        called.append(c[2])
                for ch in ast.iter_child_nodes(n):
                    visit(ch)

            visit(fn)
            callbacks.append((name, called))
    if sorted(w[0] for w in wrappers) != ['aclose', 'aopen']:
        raise SkeletonError(f'{SRC_MACHINE}: aopen/aclose not found')
    return sorted(wrappers), callbacks


def skeleton(repo: Path) -> dict:
    repo = Path(repo)
    for p in (SRC_IMP, SRC_MAIN, SRC_CONT, SRC_MACHINE):
        if not (repo / p).exists():
            raise SkeletonError(f'{p} not found')
    imp_tree = ast.parse((repo / SRC_IMP).read_text())
    nl_tree = ast.parse((repo / SRC_MAIN).read_text())
    module_check(imp_tree, 'Imp', SRC_IMP, {'Plugin = object'})
    module_check(nl_tree, 'Nextline', SRC_MAIN, set())
    imp_cls, imp = class_methods(imp_tree, 'Imp', SRC_IMP)
    nl_cls, nl = class_methods(nl_tree, 'Nextline', SRC_MAIN)
    cont, cont_calls = continuous_calls(repo / SRC_CONT)

    # Imp.__init__: ONE asyncio.Lock, one state machine
    if '__init__' not in imp or '__init__' not in nl:
        raise SkeletonError('__init__ not found')
    ia = init_assignments(imp['__init__']['node'])
    locks = sorted(k for k, vs in ia.items() for v in vs
                   if isinstance(v, ast.Call) and (chain(v.func) or ('',))[-1] in ('Lock', 'RLock', 'Semaphore', 'BoundedSemaphore', 'Condition'))
    for k in ('_lock', '_machine'):
        if len(ia.get(k, [])) != 1:
            raise SkeletonError(f'Imp.__init__: expected exactly one assignment to self.{k}')
    if norm(ia['_lock'][0]) != 'asyncio.Lock()':
        raise SkeletonError(f'Imp.__init__: self._lock = {norm(ia["_lock"][0])} is not an asyncio.Lock()')
    n_locks_anywhere = sum(1 for n in ast.walk(imp_cls) if isinstance(n, ast.Call) and norm(n.func) in ('asyncio.Lock', 'Lock'))
    if n_locks_anywhere != 1:
        raise SkeletonError('class Imp creates more than one lock')
    na = init_assignments(nl['__init__']['node'])
    flags = []
    for k in ('_started', '_closed'):
        vs = na.get(k, [])
        if len(vs) != 1 or not isinstance(vs[0], ast.Constant) or not isinstance(vs[0].value, bool):
            raise SkeletonError(f'Nextline.__init__: expected exactly one `self.{k} = True/False`')
        flags.append((FLAGS[k], vs[0].value))
    for k, ctor in (('_imp', 'Imp'), ('_continuous', 'Continuous')):
        vs = na.get(k, [])
        if len(vs) != 1 or not isinstance(vs[0], ast.Call) or chain(vs[0].func) != (ctor,):
            raise SkeletonError(f'Nextline.__init__: expected exactly one `self.{k} = {ctor}(...)`')
    return {
        'locks': locks,
        'flags': flags,
        'imp': translate_class('Imp', imp, imp, cont),
        'nextline': translate_class('Nextline', nl, imp, cont),
        'cont': cont_calls,
        'machine': machine_info(repo / SRC_MACHINE),
    }


def coq_list(items: list[str], indent: str = '  ') -> str:
    if not items:
        return '[]'
    return '[\n' + ';\n'.join(indent + i for i in items) + '\n]'


def translate(repo: Path) -> str:
    sk = skeleton(Path(repo))
    L = [
        '(** GENERATED by translate/imp_skeleton.py from',
        f'    {SRC_IMP}, {SRC_MAIN} (and the calls of {SRC_CONT} into Nextline)',
        f'    (ast, CPython {sys.version_info[0]}.{sys.version_info[1]}) -- do not edit.',
        '    One statement term (Life/ImpSyntax.v) per method of Imp and of Nextline. *)',
        'From Coq Require Import String List Bool.',
        'From NL Require Import Life.ImpSyntax.',
        'Import ListNotations.',
        'Local Open Scope string_scope.',
        '',
        '(** attributes of Imp that hold a lock object created in __init__ *)',
        'Definition imp_locks : list string := ' + '[' + '; '.join(coq_str(x) for x in sk['locks']) + '].',
        '',
        '(** Nextline.__init__ *)',
        'Definition nextline_init_flags : list (flag * bool) := ['
        + '; '.join(f'({f}, {"true" if v else "false"})' for f, v in sk['flags']) + '].',
        '',
        'Definition imp_methods : list (string * stmt) := '
        + coq_list([f'({coq_str(n)},\n     {b})' for n, b in sk['imp']]) + '.',
        '',
        'Definition nextline_methods : list (string * stmt) := '
        + coq_list([f'({coq_str(n)},\n     {b})' for n, b in sk['nextline']]) + '.',
        '',
        '(** per method of Continuous: the methods of Nextline it calls (directly or through its own',
        '    methods), in source order; register/unregister left out *)',
        'Definition continuous_calls : list (string * list string) := '
        + coq_list([f'({coq_str(n)}, [' + '; '.join(coq_str(x) for x in xs) + '])' for n, xs in sk['cont']]) + '.',
        '',
        f'(** {SRC_MACHINE}: `aopen` / `aclose` are `await self.<trigger>()` *)',
        'Definition machine_wrappers : list (string * string) := ['
        + '; '.join(f'({coq_str(a)}, {coq_str(b)})' for a, b in sk['machine'][0]) + '].',
        '(** the Callback methods each callback of the StateMachine awaits *)',
        'Definition machine_callbacks : list (string * list string) := '
        + coq_list([f'({coq_str(n)}, [' + '; '.join(coq_str(x) for x in xs) + '])' for n, xs in sk['machine'][1]]) + '.',
        '',
    ]
    return '\n'.join(L)


if __name__ == '__main__':
    print(translate(Path(sys.argv[1] if len(sys.argv) > 1 else '/repo')))
