"""Fail-closed translator: the helper code of C17 -> Gen/ProcHelpers.v

A GENUINE translation (Python `ast` -> terms of coq/theories/Proc/HelperSyntax.v; expressions and
statements are recognised by SHAPE, no pinned source strings) of

  nextline/utils/multiprocessing_logging.py
      MultiprocessingLogging          -> logging_prog        (queue from the mp context, initializer = partial(_initializer,
                                                              queue), create_task(_listen()), try: yield finally: sentinel, await task)
      MultiprocessingLogging._listen  -> listen_prog         (the loop `while (record := await to_thread(queue.get)) is not None`,
                                                              the level test, logger.handle(record))
      _initializer                    -> initializer_prog    (QueueHandler(queue) installed on the root logger of the child)
  nextline/utils/run.py
      ExitedProcess                   -> exited_fields
      RunningProcess.__init__/_log_created/_log_exited/_format_time/interrupt/send_signal/terminate/kill/__await__
                                      -> rp_*_prog           (every method except __repr__)
      _call_all, _call                -> call_all_prog, call_prog
      run_in_process, ._run           -> outer_prog, run_prog   (the WHOLE bodies, incl. the set-up: Event, executor with
                                                              max_workers, initializer composition, submit, shutdown)
      _exitcode_to_name               -> exitcode_keys_negated (its shape: a dict comprehension whose keys are `-signum`)

coq/theories/Proc/HelperInterp.v interprets the terms, coq/theories/Proc/HelperTie.v proves the C17_tie_* facts about the
REGENERATED definitions for all environments.

Fail closed: inside these functions EVERY statement and expression must be understood (the functions are small; logging
calls and f-strings are translated too, because an exception raised while formatting a log line escapes like any other --
seed C02-4).  Ignored: docstrings, `nonlocal`, `pass`, annotations (of parameters, returns, variables; `x: T` without a value),
`cast(T, x)` (= x), comments.  An ignored annotation / type argument must contain no Call, NamedExpr, Await, Yield, Lambda.
RunningProcess.__repr__ is not translated but must be read-only (no call, walrus, await, yield, raise, store to an
attribute or subscript, del, global).

Outside the translated bodies the translator FAILS CLOSED on (harness/HARDEN_TASK.md item 2):
  * module level: anything but imports, the docstring, `__all__ = ...`, `_T = TypeVar(..)`, the dict comprehension
    `_exitcode_to_name`, def / async def / class; every name the translator recognises BY NAME (partial, cast, getLogger,
    QueueHandler, DEBUG, ProcessPoolExecutor, BrokenProcessPool, _ExceptionWithTraceback, pickle, os, signal, asyncio,
    contextlib, mp, logging, datetime, timezone, MultiprocessingLogging, dataclass, Generic) must be bound exactly once, by
    the expected import; a translated function / class must be defined exactly once and not rebound; a function that is
    not translated (example_func) must not mention a translated name, `_exitcode_to_name`, `global`;
  * local shadowing of a recognised name (parameter or assignment inside a translated function);
  * classes: bases other than `Generic[_T]`, class keywords, decorators other than `@dataclass` on ExitedProcess / none on
    RunningProcess, statements in the class body other than the docstring, methods (RunningProcess) / bare annotations
    (ExitedProcess), any method of RunningProcess other than the translated ones and __repr__ (so no __getattr__, __bool__,
    __eq__, __aenter__ ..., no sibling touching the tracked attributes), any method on ExitedProcess (no __post_init__);
  * decorators on any translated function other than `asynccontextmanager` on MultiprocessingLogging;
  * default argument values: emitted (`outer_defaults`, `logging_defaults`; Proc/HelperTie.v computes the frame of a call
    that omits them); a default on any other translated function, keyword-only parameters, **kwargs.
Anything else raises HelperError and `./check C17` reports a broken tie obligation.
"""
from __future__ import annotations

import ast
import sys
from pathlib import Path

OUTPUT = 'ProcHelpers.v'
SRC_RUN = 'nextline/utils/run.py'
SRC_LOG = 'nextline/utils/multiprocessing_logging.py'


class HelperError(Exception):
    pass


# ---------------------------------------------------------------- helpers

def norm(n) -> str:
    return ast.unparse(n).strip()


def strip_doc(body):
    if body and isinstance(body[0], ast.Expr) and isinstance(body[0].value, ast.Constant) and isinstance(body[0].value.value, str):
        return body[1:]
    return body


def is_name(n, s=None) -> bool:
    return isinstance(n, ast.Name) and (s is None or n.id == s)


def is_chain(n, chain: list[str]) -> bool:
    for part in reversed(chain[1:]):
        if not (isinstance(n, ast.Attribute) and n.attr == part):
            return False
        n = n.value
    return is_name(n, chain[0])


def is_const(n, v) -> bool:
    return isinstance(n, ast.Constant) and n.value is v


def cstr(s: str) -> str:
    if '"' in s or '\\' in s or '\n' in s:
        raise HelperError(f'identifier {s!r} cannot be written as a Coq string')
    return f'"{s}"'


def cz(n: int) -> str:
    return f'({n})%Z'


def clist(xs) -> str:
    return '[' + '; '.join(xs) + ']'


def find(body, kind, name, what=''):
    xs = [n for n in body if isinstance(n, kind) and n.name == name]
    if len(xs) != 1:
        raise HelperError(f'{what}: expected exactly one {kind.__name__} `{name}`, found {len(xs)}')
    return xs[0]


BAD_IN_IGNORED = (ast.Call, ast.NamedExpr, ast.Await, ast.Yield, ast.YieldFrom, ast.Lambda)


def check_ignored(node, what: str):
    """an expression the translator drops (annotation, type argument) must not be able to do anything"""
    if node is None:
        return
    for n in ast.walk(node):
        if isinstance(n, BAD_IN_IGNORED):
            raise HelperError(f'{what}: ignored position `{norm(node)[:80]}` contains a {type(n).__name__}')


def check_annotations(fn):
    a = fn.args
    for x in a.posonlyargs + a.args + a.kwonlyargs + ([a.vararg] if a.vararg else []) + ([a.kwarg] if a.kwarg else []):
        check_ignored(x.annotation, f'{fn.name}: annotation of `{x.arg}`')
    check_ignored(fn.returns, f'{fn.name}: return annotation')


def defaults_of(fn) -> list[tuple[str, ast.AST]]:
    a = fn.args
    if a.kw_defaults:
        raise HelperError(f'{fn.name}: keyword-only defaults')
    names = [x.arg for x in a.args]
    return list(zip(names[len(names) - len(a.defaults):], a.defaults))


def params(fn) -> list[str]:
    a = fn.args
    if a.kwarg or a.posonlyargs or a.kwonlyargs:
        raise HelperError(f'{fn.name}: **kwargs / positional-only / keyword-only parameters')
    out = [x.arg for x in a.args]
    if a.vararg:
        out.append('*' + a.vararg.arg)
    return out


MODULE_GLOBALS = {'DEBUG', '_exitcode_to_name', '__name__'}
# name -> (module, original name) it must be imported from (None: `import <module> [as name]`)
IMPORTS_RUN = {
    'asyncio': ('asyncio', None), 'contextlib': ('contextlib', None), 'os': ('os', None), 'pickle': ('pickle', None),
    'signal': ('signal', None), 'ProcessPoolExecutor': ('concurrent.futures', 'ProcessPoolExecutor'),
    'BrokenProcessPool': ('concurrent.futures.process', 'BrokenProcessPool'),
    '_ExceptionWithTraceback': ('concurrent.futures.process', '_ExceptionWithTraceback'),
    'dataclass': ('dataclasses', 'dataclass'), 'datetime': ('datetime', 'datetime'), 'timezone': ('datetime', 'timezone'),
    'partial': ('functools', 'partial'), 'getLogger': ('logging', 'getLogger'), 'Generic': ('typing', 'Generic'),
    'MultiprocessingLogging': ('.multiprocessing_logging', 'MultiprocessingLogging'),
}
IMPORTS_LOG = {
    'asyncio': ('asyncio', None), 'contextlib': ('contextlib', None), 'logging': ('logging', None),
    'mp': ('multiprocessing', None), 'partial': ('functools', 'partial'), 'DEBUG': ('logging', 'DEBUG'),
    'getLogger': ('logging', 'getLogger'), 'QueueHandler': ('logging.handlers', 'QueueHandler'), 'cast': ('typing', 'cast'),
}
RECOGNISED_BY_NAME = set(IMPORTS_RUN) | set(IMPORTS_LOG) | {'list', 'RunningProcess', 'ExitedProcess', '_exitcode_to_name'}
LOG_METHODS = {'debug', 'info', 'warning', 'error', 'exception', 'critical'}
TRACKED_ATTRS = {'pid', 'exitcode', 'name', 'levelno', '__traceback__'}
CLASSES = {
    'BaseException': 'XcBaseException', 'Exception': 'XcException', 'BrokenProcessPool': 'XcBrokenProcessPool',
    'asyncio.CancelledError': 'XcCancelledError', 'CancelledError': 'XcCancelledError', 'KeyError': 'XcKeyError',
    'ProcessLookupError': 'XcProcessLookupError', 'AttributeError': 'XcAttributeError',
}
CMP = {ast.LtE: 'CLe', ast.Lt: 'CLt', ast.GtE: 'CGe', ast.Gt: 'CGt', ast.Eq: 'CEq', ast.NotEq: 'CNe'}


class Scope:
    """names visible in a function: parameters, assigned names, and those of the enclosing function"""

    def __init__(self, fn, module_funcs: set[str], outer: 'Scope | None' = None, has_self=False):
        self.fn = fn
        self.name = (outer.name + '.' if outer else '') + fn.name
        self.module_funcs = module_funcs
        self.has_self = has_self
        names = {p.lstrip('*') for p in params(fn)}
        self.coros: set[str] = set()
        for node in self.walk_own(fn):
            if isinstance(node, ast.Name) and isinstance(node.ctx, ast.Store):
                names.add(node.id)
            elif isinstance(node, ast.ExceptHandler) and node.name:
                names.add(node.name)
        for st in fn.body:
            if isinstance(st, ast.AsyncFunctionDef):
                self.coros.add(st.name)
        if outer:
            names |= outer.names
        names.discard('self')
        self.names = names
        shadow = (names - (outer.names if outer else set())) & RECOGNISED_BY_NAME
        if shadow:
            raise HelperError(f'{self.name}: local name(s) {sorted(shadow)} shadow a name the translator recognises by name')

    @staticmethod
    def walk_own(fn):
        """nodes of fn's body, not descending into nested function definitions"""
        todo = list(fn.body)
        while todo:
            n = todo.pop()
            yield n
            for c in ast.iter_child_nodes(n):
                if isinstance(c, (ast.FunctionDef, ast.AsyncFunctionDef, ast.ClassDef, ast.Lambda)):
                    continue
                todo.append(c)

    def err(self, node, msg):
        return HelperError(f'{self.name}:{getattr(node, "lineno", "?")}: {msg}')


# ---------------------------------------------------------------- expressions

def tr_args(args, sc: Scope) -> str:
    return clist(tr_exp(a, sc) for a in args)


def no_kw(c: ast.Call, sc: Scope):
    if c.keywords:
        raise sc.err(c, f'keyword arguments in `{norm(c)}`')
    for a in c.args:
        if isinstance(a, ast.Starred):
            raise sc.err(c, f'starred argument in `{norm(c)}`')


def call(k: str, args: list[str]) -> str:
    return f'(ECall {k} {clist(args)})'


def tr_call(c: ast.Call, sc: Scope) -> str:
    f = c.func
    # ---- RunningProcess[_T](process=.., task=..) / RunningProcess(..)
    base = f.value if isinstance(f, ast.Subscript) else f
    if is_name(base, 'RunningProcess'):
        kws = {k.arg: k.value for k in c.keywords}
        if c.args and not c.keywords and len(c.args) == 2:
            p, t = c.args
        elif not c.args and set(kws) == {'process', 'task'}:
            p, t = kws['process'], kws['task']
        else:
            raise sc.err(c, f'`{norm(c)}`: arguments of RunningProcess')
        return call('KRunningProcess', [tr_exp(p, sc), tr_exp(t, sc)])
    if is_name(f, 'ExitedProcess'):
        if c.args or any(k.arg is None for k in c.keywords):
            raise sc.err(c, 'ExitedProcess(...) with positional arguments')
        return '(EExited ' + clist(f'({cstr(k.arg)}, {tr_exp(k.value, sc)})' for k in c.keywords) + ')'
    if is_name(f, 'ProcessPoolExecutor'):
        kws = {k.arg: k.value for k in c.keywords}
        if c.args or set(kws) != {'max_workers', 'mp_context', 'initializer'}:
            raise sc.err(c, f'`{norm(c)}`: expected ProcessPoolExecutor(max_workers=, mp_context=, initializer=)')
        return call('KNewExecutor', [tr_exp(kws['max_workers'], sc), tr_exp(kws['mp_context'], sc), tr_exp(kws['initializer'], sc)])
    if isinstance(f, ast.Attribute) and f.attr == 'enter_async_context':
        if len(c.args) != 1 or c.keywords or not (isinstance(c.args[0], ast.Call) and is_name(c.args[0].func, 'MultiprocessingLogging')):
            raise sc.err(c, f'`{norm(c)}`: only MultiprocessingLogging(...) may be entered on the stack')
        m = c.args[0]
        if not m.args and not m.keywords:
            ctx = 'ENone'
        elif len(m.args) == 1 and not m.keywords:
            ctx = tr_exp(m.args[0], sc)
        elif not m.args and len(m.keywords) == 1 and m.keywords[0].arg == 'mp_context':
            ctx = tr_exp(m.keywords[0].value, sc)
        else:
            raise sc.err(c, f'`{norm(m)}`: arguments of MultiprocessingLogging')
        return call('KEnterLogging', [tr_exp(f.value, sc), ctx])
    no_kw(c, sc)
    a = c.args
    # ---- typing
    if is_name(f, 'cast') and len(a) == 2:
        check_ignored(a[0], f'{sc.name}: type argument of cast')
        return tr_exp(a[1], sc)
    # ---- time, logging
    if is_chain(f, ['datetime', 'now']) and len(a) == 1 and is_chain(a[0], ['timezone', 'utc']):
        return call('KNow', [])
    if isinstance(f, ast.Attribute) and f.attr == 'strftime' and len(a) == 1 and isinstance(a[0], ast.Constant) and isinstance(a[0].value, str):
        return call('KFormatTime', [tr_exp(f.value, sc)])
    if (is_name(f, 'getLogger') or is_chain(f, ['logging', 'getLogger'])) and len(a) <= 1:
        return call('KGetLogger', [tr_exp(x, sc) for x in a])
    if isinstance(f, ast.Attribute) and f.attr in LOG_METHODS and is_name(f.value, 'logger'):
        return call('KLogInfo', [tr_exp(f.value, sc)] + [tr_exp(x, sc) for x in a])
    if isinstance(f, ast.Attribute) and f.attr == 'getEffectiveLevel' and not a:
        return call('KLoggerLevel', [tr_exp(f.value, sc)])
    if isinstance(f, ast.Attribute) and f.attr == 'handle' and len(a) == 1:
        return call('KLoggerHandle', [tr_exp(f.value, sc), tr_exp(a[0], sc)])
    if isinstance(f, ast.Attribute) and f.attr == 'setLevel' and len(a) == 1:
        return call('KLoggerSetLevel', [tr_exp(f.value, sc), tr_exp(a[0], sc)])
    if isinstance(f, ast.Attribute) and f.attr == 'addHandler' and len(a) == 1:
        return call('KLoggerAddHandler', [tr_exp(f.value, sc), tr_exp(a[0], sc)])
    if is_name(f, 'QueueHandler') and len(a) == 1:
        return call('KQueueHandler', [tr_exp(a[0], sc)])
    # ---- partial
    if is_name(f, 'partial'):
        if not a or not is_name(a[0]) or a[0].id not in sc.module_funcs:
            raise sc.err(c, f'`{norm(c)}`: partial of something that is not a module-level function')
        return call(f'(KPartial {cstr(a[0].id)})', [tr_exp(x, sc) for x in a[1:]])
    # ---- signals
    if is_chain(f, ['os', 'kill']) and len(a) == 2:
        return call('KOsKill', [tr_exp(a[0], sc), tr_exp(a[1], sc)])
    if isinstance(f, ast.Attribute) and f.attr == 'terminate' and not a:
        return call('KProcTerminate', [tr_exp(f.value, sc)])
    if isinstance(f, ast.Attribute) and f.attr == 'kill' and not a and not is_name(f.value, 'os'):
        return call('KProcKill', [tr_exp(f.value, sc)])
    # ---- pickling
    if is_name(f, '_ExceptionWithTraceback') and len(a) == 2:
        return call('KWrapTraceback', [tr_exp(a[0], sc), tr_exp(a[1], sc)])
    if is_chain(f, ['pickle', 'dumps']) and len(a) == 1:
        return call('KPickleDumps', [tr_exp(a[0], sc)])
    if is_chain(f, ['pickle', 'loads']) and len(a) == 1:
        return call('KPickleLoads', [tr_exp(a[0], sc)])
    # ---- multiprocessing / asyncio
    if is_chain(f, ['mp', 'get_context']) and not a:
        return call('KGetContext', [])
    if isinstance(f, ast.Attribute) and f.attr == 'Queue' and not a:
        return call('KNewQueue', [tr_exp(f.value, sc)])
    if is_chain(f, ['asyncio', 'create_task']) and len(a) == 1:
        co = a[0]
        if not (isinstance(co, ast.Call) and is_name(co.func) and not co.args and not co.keywords):
            raise sc.err(c, f'`{norm(c)}`: create_task of something other than `<coroutine function>()`')
        return call(f'(KCreateTask {cstr(co.func.id)})', [])
    if isinstance(f, ast.Attribute) and f.attr == 'cancel' and not a:
        return call('KTaskCancel', [tr_exp(f.value, sc)])
    if is_chain(f, ['asyncio', 'Event']) and not a:
        return call('KNewEvent', [])
    if isinstance(f, ast.Attribute) and f.attr == 'set' and not a:
        return call('KEventSet', [tr_exp(f.value, sc)])
    if isinstance(f, ast.Attribute) and f.attr == 'wait' and not a:
        return call('KEventWait', [tr_exp(f.value, sc)])
    if is_chain(f, ['contextlib', 'AsyncExitStack']) and not a:
        return call('KNewStack', [])
    if is_chain(f, ['asyncio', 'get_running_loop']) and not a:
        return call('KGetLoop', [])
    if isinstance(f, ast.Attribute) and f.attr == 'run_in_executor' and len(a) == 2:
        if is_const(a[0], None):
            if isinstance(a[1], ast.Attribute) and a[1].attr == 'shutdown':
                return call('KShutdownInThread', [tr_exp(a[1].value, sc)])
            raise sc.err(c, f'`{norm(c)}`: run_in_executor(None, <something other than executor.shutdown>)')
        return call('KSubmit', [tr_exp(a[0], sc), tr_exp(a[1], sc)])
    if isinstance(f, ast.Attribute) and f.attr == 'shutdown' and not a:
        return call('KShutdownSync', [tr_exp(f.value, sc)])
    if is_chain(f, ['asyncio', 'to_thread']) and a and isinstance(a[0], ast.Attribute):
        if a[0].attr == 'get' and len(a) == 1:
            return call('KToThreadGet', [tr_exp(a[0].value, sc)])
        if a[0].attr == 'put' and len(a) == 2:
            return call('KToThreadPut', [tr_exp(a[0].value, sc), tr_exp(a[1], sc)])
    if isinstance(f, ast.Attribute) and f.attr == '__await__' and not a:
        return call('KTaskAwaitIter', [tr_exp(f.value, sc)])
    # ---- dict
    if isinstance(f, ast.Attribute) and f.attr == 'get' and len(a) == 1:
        return f'(EGet {tr_exp(f.value, sc)} {tr_exp(a[0], sc)})'
    # ---- methods of self, local callables
    if isinstance(f, ast.Attribute) and is_name(f.value, 'self') and sc.has_self:
        return call(f'(KSelfMethod {cstr(f.attr)})', [tr_exp(x, sc) for x in a])
    if is_name(f) and f.id in sc.names:
        return call(f'(KCallVar {cstr(f.id)})', [tr_exp(x, sc) for x in a])
    raise sc.err(c, f'call `{norm(c)}` not recognised')


def tr_exp(n, sc: Scope) -> str:
    if isinstance(n, ast.Constant):
        if n.value is None:
            return 'ENone'
        if n.value is True or n.value is False:
            return f'(EBool {"true" if n.value else "false"})'
        if type(n.value) is int and abs(n.value) < 10 ** 9:
            return f'(EInt {cz(n.value)})'
        if isinstance(n.value, str) and n.value:
            return '(EFmt [])'
        raise sc.err(n, f'constant `{norm(n)}`')
    if isinstance(n, ast.JoinedStr):
        parts = []
        for v in n.values:
            if isinstance(v, ast.FormattedValue):
                if v.format_spec is not None:
                    raise sc.err(n, 'format spec in an f-string')
                parts.append(tr_exp(v.value, sc))
            elif not isinstance(v, ast.Constant):
                raise sc.err(n, 'f-string part')
        return '(EFmt ' + clist(parts) + ')'
    if isinstance(n, ast.Name):
        if n.id == 'self':
            raise sc.err(n, 'bare `self`')
        if n.id in sc.names:
            return f'(EVar {cstr(n.id)})'
        if n.id in MODULE_GLOBALS:
            return f'(EGlobal {cstr(n.id)})'
        raise sc.err(n, f'name `{n.id}` is neither a local variable nor a known module-level name')
    if isinstance(n, ast.Attribute):
        if is_name(n.value, 'self') and sc.has_self:
            return f'(ESelf {cstr(n.attr)})'
        if is_name(n.value, 'signal') and n.attr.startswith('SIG'):
            return f'(EGlobal {cstr("signal." + n.attr)})'
        if n.attr in TRACKED_ATTRS:
            return f'(EAttr {tr_exp(n.value, sc)} {cstr(n.attr)})'
        raise sc.err(n, f'attribute `{norm(n)}`')
    if isinstance(n, ast.BoolOp):
        k = 'EAnd' if isinstance(n.op, ast.And) else 'EOr'
        xs = [tr_exp(v, sc) for v in n.values]
        out = xs[-1]
        for x in reversed(xs[:-1]):
            out = f'({k} {x} {out})'
        return out
    if isinstance(n, ast.UnaryOp):
        if isinstance(n.op, ast.Not):
            return f'(ENot {tr_exp(n.operand, sc)})'
        if isinstance(n.op, ast.USub) and isinstance(n.operand, ast.Constant) and type(n.operand.value) is int:
            return f'(EInt {cz(-n.operand.value)})'
        raise sc.err(n, f'unary `{norm(n)}`')
    if isinstance(n, ast.NamedExpr):
        return f'(EWalrus {cstr(n.target.id)} {tr_exp(n.value, sc)})'
    if isinstance(n, ast.Compare):
        if len(n.ops) != 1:
            raise sc.err(n, 'chained comparison')
        a, b, op = tr_exp(n.left, sc), tr_exp(n.comparators[0], sc), n.ops[0]
        if isinstance(op, ast.Is):
            return f'(EIs {a} {b})'
        if isinstance(op, ast.IsNot):
            return f'(EIsNot {a} {b})'
        if type(op) in CMP:
            return f'(ECmp {CMP[type(op)]} {a} {b})'
        raise sc.err(n, f'comparison `{norm(n)}`')
    if isinstance(n, ast.Subscript):
        # list(<executor>._processes.values())[0]
        v = n.value
        if (isinstance(n.slice, ast.Constant) and n.slice.value == 0 and type(n.slice.value) is int
                and isinstance(v, ast.Call) and is_name(v.func, 'list') and len(v.args) == 1 and not v.keywords
                and isinstance(v.args[0], ast.Call) and not v.args[0].args and not v.args[0].keywords
                and isinstance(v.args[0].func, ast.Attribute) and v.args[0].func.attr == 'values'
                and isinstance(v.args[0].func.value, ast.Attribute) and v.args[0].func.value.attr == '_processes'):
            return call('KFirstProcess', [tr_exp(v.args[0].func.value.value, sc)])
        return f'(EIndex {tr_exp(n.value, sc)} {tr_exp(n.slice, sc)})'
    if isinstance(n, ast.Tuple):
        return '(ETuple ' + clist(tr_exp(e, sc) for e in n.elts) + ')'
    if isinstance(n, ast.Await):
        return f'(EAwait {tr_exp(n.value, sc)})'
    if isinstance(n, ast.YieldFrom):
        return f'(EYieldFrom {tr_exp(n.value, sc)})'
    if isinstance(n, ast.Call):
        return tr_call(n, sc)
    raise sc.err(n, f'expression `{norm(n)}` not recognised')


# ---------------------------------------------------------------- statements

def seq(items: list[str]) -> str:
    items = [i for i in items if i]
    if not items:
        return 'SSkip'
    if len(items) == 1:
        return items[0]
    return f'(SSeq {items[0]} {seq(items[1:])})'


def tr_target(t, sc: Scope) -> str:
    if isinstance(t, ast.Name):
        return f'(TVar {cstr(t.id)})'
    if isinstance(t, ast.Attribute) and is_name(t.value, 'self') and sc.has_self:
        return f'(TSelf {cstr(t.attr)})'
    if isinstance(t, ast.Tuple) and len(t.elts) == 2 and all(isinstance(e, ast.Name) for e in t.elts):
        return f'(TPair {cstr(t.elts[0].id)} {cstr(t.elts[1].id)})'
    raise sc.err(t, f'assignment target `{norm(t)}`')


def tr_body(body, sc: Scope, nested: dict) -> str:
    return seq([tr_stmt(st, sc, nested) for st in strip_doc(body)])


def tr_stmt(st, sc: Scope, nested: dict) -> str:
    if isinstance(st, (ast.Nonlocal, ast.Pass)):
        return ''
    if isinstance(st, ast.AsyncFunctionDef):
        if st.decorator_list or params(st):
            raise sc.err(st, f'nested coroutine `{st.name}` with parameters or decorators')
        if st.name in nested:
            raise sc.err(st, f'`{st.name}` defined twice')
        check_annotations(st)
        nested[st.name] = tr_body(st.body, Scope(st, sc.module_funcs, outer=sc, has_self=False), {})
        return ''
    if isinstance(st, ast.Expr):
        v = st.value
        if isinstance(v, ast.Yield):
            return f'(SYield {tr_exp(v.value, sc) if v.value is not None else "ENone"})'
        return f'(SExpr {tr_exp(v, sc)})'
    if isinstance(st, ast.Assign):
        if len(st.targets) != 1:
            raise sc.err(st, 'chained assignment')
        return f'(SAssign {tr_target(st.targets[0], sc)} {tr_exp(st.value, sc)})'
    if isinstance(st, ast.AnnAssign):
        check_ignored(st.annotation, f'{sc.name}: annotation')
        if st.value is None:
            if not isinstance(st.target, ast.Name):
                raise sc.err(st, 'bare annotation of something that is not a variable')
            return ''
        return f'(SAssign {tr_target(st.target, sc)} {tr_exp(st.value, sc)})'
    if isinstance(st, ast.If):
        return f'(SIf {tr_exp(st.test, sc)} {tr_body(st.body, sc, nested)} {tr_body(st.orelse, sc, nested)})'
    if isinstance(st, ast.While):
        if st.orelse:
            raise sc.err(st, 'while/else')
        return f'(SWhile {tr_exp(st.test, sc)} {tr_body(st.body, sc, nested)})'
    if isinstance(st, ast.For):
        if st.orelse or not isinstance(st.target, ast.Name):
            raise sc.err(st, 'for/else or a structured loop variable')
        return f'(SFor {cstr(st.target.id)} {tr_exp(st.iter, sc)} {tr_body(st.body, sc, nested)})'
    if isinstance(st, ast.Break):
        return 'SBreak'
    if isinstance(st, ast.Continue):
        return 'SContinue'
    if isinstance(st, ast.Return):
        return f'(SReturn {tr_exp(st.value, sc) if st.value is not None else "ENone"})'
    if isinstance(st, ast.Raise):
        if st.exc is not None or st.cause is not None:
            raise sc.err(st, f'`{norm(st)}`: only a bare `raise` is understood')
        return 'SRaise'
    if isinstance(st, ast.Assert):
        return f'(SAssert {tr_exp(st.test, sc)})'
    if isinstance(st, ast.Try):
        hs = []
        for h in st.handlers:
            if h.type is None:
                raise sc.err(h, 'bare except')
            t = norm(h.type)
            if t not in CLASSES:
                raise sc.err(h, f'handler for `{t}` not recognised')
            bind = f'(Some {cstr(h.name)})' if h.name else 'None'
            hs.append(f'(Handler {CLASSES[t]} {bind} {tr_body(h.body, sc, nested)})')
        return (f'(STry {tr_body(st.body, sc, nested)} {clist(hs)} {tr_body(st.orelse, sc, nested)} '
                f'{tr_body(st.finalbody, sc, nested)})')
    if isinstance(st, ast.AsyncWith):
        it = st.items
        if len(it) != 1 or not (isinstance(it[0].context_expr, ast.Call) and is_chain(it[0].context_expr.func, ['contextlib', 'AsyncExitStack'])
                                and not it[0].context_expr.args and not it[0].context_expr.keywords) \
                or not isinstance(it[0].optional_vars, ast.Name):
            raise sc.err(st, 'async with other than `contextlib.AsyncExitStack() as <name>`')
        return f'(SAsyncWithStack {cstr(it[0].optional_vars.id)} {tr_body(st.body, sc, nested)})'
    if isinstance(st, ast.With):
        raise sc.err(st, 'synchronous `with`')
    raise sc.err(st, f'statement `{norm(st)[:80]}` not recognised')


def tr_function(fn, module_funcs, has_self=False, want_nested: tuple = (), allow_defaults=False) -> tuple[str, dict, list[str]]:
    check_annotations(fn)
    if not allow_defaults and (fn.args.defaults or fn.args.kw_defaults):
        raise HelperError(f'{fn.name}: default argument values on a function whose callers pass everything')
    sc = Scope(fn, module_funcs, has_self=has_self)
    nested: dict = {}
    for st in fn.body:
        if isinstance(st, (ast.FunctionDef, ast.ClassDef)):
            raise sc.err(st, 'nested def/class')
    body = tr_body(fn.body, sc, nested)
    if set(nested) != set(want_nested):
        raise HelperError(f'{fn.name}: nested coroutines {sorted(nested)}, expected {sorted(want_nested)}')
    ps = params(fn)
    if has_self:
        if not ps or ps[0] != 'self':
            raise HelperError(f'{fn.name}: first parameter is not self')
        ps = ps[1:]
    return body, nested, ps


# ---------------------------------------------------------------- module / class level (fail closed)

def check_module(tree, src: str, imports: dict, translated: set[str], allowed_assign: set[str]):
    """module-level statements: nothing may rebind or monkeypatch what the translator translates or recognises by name"""
    bound: dict[str, list] = {}

    def bind(name, how):
        bound.setdefault(name, []).append(how)

    body = strip_doc(tree.body)
    for st in body:
        if isinstance(st, ast.Import):
            for al in st.names:
                bind(al.asname or al.name.split('.')[0], (al.name, None))
        elif isinstance(st, ast.ImportFrom):
            mod = '.' * st.level + (st.module or '')
            for al in st.names:
                if al.name == '*':
                    raise HelperError(f'{src}:{st.lineno}: star import')
                bind(al.asname or al.name, (mod, al.name))
        elif isinstance(st, (ast.FunctionDef, ast.AsyncFunctionDef, ast.ClassDef)):
            bind(st.name, ('def', None))
        elif isinstance(st, ast.Assign) and len(st.targets) == 1 and isinstance(st.targets[0], ast.Name) \
                and st.targets[0].id in allowed_assign:
            bind(st.targets[0].id, ('assign', None))
            if st.targets[0].id == '__all__':
                check_ignored(st.value, f'{src}: __all__')
            elif st.targets[0].id == '_T':
                if norm(st.value) not in ("TypeVar('_T')", 'TypeVar("_T")'):
                    raise HelperError(f'{src}:{st.lineno}: `{norm(st)}`')
        else:
            raise HelperError(f'{src}:{st.lineno}: module-level statement `{norm(st)[:80]}` (only imports, __all__, _T, '
                              f'_exitcode_to_name, def, class are understood; anything else could rebind a translated name)')
    for name, want in imports.items():
        got = bound.get(name, [])
        if got != [want]:
            raise HelperError(f'{src}: `{name}` must be bound once, by the import {want}; found {got}')
    for name in translated:
        if bound.get(name) != [('def', None)]:
            raise HelperError(f'{src}: `{name}` must be defined exactly once at module level; found {bound.get(name)}')
    # functions / classes that are not translated must stay away from what is
    for st in body:
        if isinstance(st, (ast.FunctionDef, ast.AsyncFunctionDef, ast.ClassDef)) and st.name not in translated:
            if isinstance(st, ast.ClassDef):
                raise HelperError(f'{src}:{st.lineno}: class `{st.name}` is not translated')
            for n in ast.walk(st):
                if isinstance(n, (ast.Global, ast.Nonlocal)):
                    raise HelperError(f'{src}: untranslated function `{st.name}` has a global statement')
                ident = n.id if isinstance(n, ast.Name) else n.attr if isinstance(n, ast.Attribute) else None
                if ident in translated or ident in ('_exitcode_to_name', '__dict__', 'setattr', 'globals', 'vars'):
                    raise HelperError(f'{src}: untranslated function `{st.name}` mentions `{ident}`')


def check_class(cls, bases: list[str], decorators: list[str]):
    if [norm(b) for b in cls.bases] != bases or cls.keywords:
        raise HelperError(f'class {cls.name}: bases {[norm(b) for b in cls.bases]} / keywords (expected {bases})')
    if [norm(d) for d in cls.decorator_list] != decorators:
        raise HelperError(f'class {cls.name}: decorators {[norm(d) for d in cls.decorator_list]} (expected {decorators})')


def check_readonly(fn, what: str):
    for n in ast.walk(fn):
        if isinstance(n, (ast.Call, ast.NamedExpr, ast.Await, ast.Yield, ast.YieldFrom, ast.Raise, ast.Delete, ast.Global,
                          ast.Nonlocal, ast.Lambda, ast.Import, ast.ImportFrom)):
            raise HelperError(f'{what}: {type(n).__name__} in a method that is not translated')
        if isinstance(n, (ast.Attribute, ast.Subscript)) and isinstance(n.ctx, (ast.Store, ast.Del)):
            raise HelperError(f'{what}: stores to `{norm(n)}`')


# ---------------------------------------------------------------- the two modules

RP_METHODS = ['__init__', '_log_created', '_log_exited', '_format_time', 'interrupt', 'send_signal', 'terminate', 'kill', '__await__']


def translate(repo: Path) -> str:
    repo = Path(repo)
    p_run, p_log = repo / SRC_RUN, repo / SRC_LOG
    for p in (p_run, p_log):
        if not p.exists():
            raise HelperError(f'{p} not found')
    t_run, t_log = ast.parse(p_run.read_text()), ast.parse(p_log.read_text())
    defs: list[tuple[str, str, str]] = []      # (name, type, term)

    check_module(t_log, SRC_LOG, IMPORTS_LOG, {'MultiprocessingLogging', '_initializer'}, {'__all__'})
    check_module(t_run, SRC_RUN, IMPORTS_RUN, {'ExitedProcess', 'RunningProcess', '_call_all', '_call', 'run_in_process'},
                 {'_T', '_exitcode_to_name'})

    def defaults_term(fn, names_ok: set[str]) -> str:
        out = []
        for nm, dv in defaults_of(fn):
            out.append(f'({cstr(nm)}, {tr_exp(dv, Scope(fn, set()))})')
        return clist(out)

    # ---- multiprocessing_logging.py
    log_funcs = {n.name for n in t_log.body if isinstance(n, (ast.FunctionDef, ast.AsyncFunctionDef))}
    ml = find(t_log.body, ast.AsyncFunctionDef, 'MultiprocessingLogging', SRC_LOG)
    decos = [norm(d) for d in ml.decorator_list]
    if decos not in (['contextlib.asynccontextmanager'], ['asynccontextmanager']):
        raise HelperError(f'MultiprocessingLogging: decorators {decos} (expected asynccontextmanager)')
    body, nested, ps = tr_function(ml, log_funcs, want_nested=('_listen',), allow_defaults=True)
    defs.append(('logging_params', 'list string', clist(cstr(x) for x in ps)))
    defs.append(('logging_defaults', 'list (string * hexp)', defaults_term(ml, set())))
    defs.append(('logging_prog', 'hstmt', body))
    defs.append(('listen_prog', 'hstmt', nested['_listen']))
    ini = find(t_log.body, ast.FunctionDef, '_initializer', SRC_LOG)
    if ini.decorator_list:
        raise HelperError('_initializer: decorated')
    body, _, ps = tr_function(ini, log_funcs)
    defs.append(('initializer_params', 'list string', clist(cstr(x) for x in ps)))
    defs.append(('initializer_prog', 'hstmt', body))

    # ---- run.py
    run_funcs = {n.name for n in t_run.body if isinstance(n, (ast.FunctionDef, ast.AsyncFunctionDef))}
    ep = find(t_run.body, ast.ClassDef, 'ExitedProcess', SRC_RUN)
    check_class(ep, ['Generic[_T]'], ['dataclass'])
    for n in strip_doc(ep.body):
        if not (isinstance(n, ast.AnnAssign) and n.value is None and isinstance(n.target, ast.Name)):
            raise HelperError(f'ExitedProcess:{n.lineno}: `{norm(n)[:60]}`: only bare field annotations are understood '
                              f'(no defaults, no methods, no __post_init__)')
        check_ignored(n.annotation, 'ExitedProcess: field annotation')
    fields = [n.target.id for n in ep.body if isinstance(n, ast.AnnAssign) and isinstance(n.target, ast.Name)]
    for n in ep.body:
        if isinstance(n, (ast.FunctionDef, ast.AsyncFunctionDef)):
            raise HelperError(f'ExitedProcess.{n.name}: a method on the result record')
    defs.append(('exited_fields', 'list string', clist(cstr(x) for x in fields)))

    rp = find(t_run.body, ast.ClassDef, 'RunningProcess', SRC_RUN)
    check_class(rp, ['Generic[_T]'], [])
    for n in strip_doc(rp.body):
        if not isinstance(n, ast.FunctionDef):
            raise HelperError(f'RunningProcess:{n.lineno}: `{norm(n)[:60]}`: only methods are understood in the class body')
    meths = [n.name for n in rp.body if isinstance(n, (ast.FunctionDef, ast.AsyncFunctionDef))]
    defs.append(('rp_methods', 'list string', clist(cstr(x) for x in meths)))
    for n in rp.body:
        if isinstance(n, (ast.FunctionDef, ast.AsyncFunctionDef)) and n.decorator_list:
            raise HelperError(f'RunningProcess.{n.name}: decorated method')
        if isinstance(n, ast.Assign):
            raise HelperError('RunningProcess: class-level assignment')
    for m in RP_METHODS:
        fn = find(rp.body, ast.FunctionDef, m, 'RunningProcess')
        body, _, ps = tr_function(fn, run_funcs, has_self=True)
        nm = 'rp_' + m.strip('_')
        defs.append((nm + '_params', 'list string', clist(cstr(x) for x in ps)))
        defs.append((nm + '_prog', 'hstmt', body))
    extra = [m for m in meths if m not in RP_METHODS and m != '__repr__']
    if extra or len(set(meths)) != len(meths):
        raise HelperError(f'RunningProcess: methods {extra or meths} are not translated (a sibling method may touch the '
                          f'tracked attributes; a special method may change what attribute access / truth / await mean)')
    if '__repr__' in meths:
        check_readonly(find(rp.body, ast.FunctionDef, '__repr__', 'RunningProcess'), 'RunningProcess.__repr__')

    for name in ('_call_all', '_call'):
        fn = find(t_run.body, ast.FunctionDef, name, SRC_RUN)
        if fn.decorator_list:
            raise HelperError(f'{name}: decorated')
        body, _, ps = tr_function(fn, run_funcs)
        defs.append((name.strip('_') + '_params', 'list string', clist(cstr(x) for x in ps)))
        defs.append((name.strip('_') + '_prog', 'hstmt', body))

    rip = find(t_run.body, ast.AsyncFunctionDef, 'run_in_process', SRC_RUN)
    if rip.decorator_list:
        raise HelperError('run_in_process: decorated')
    body, nested, ps = tr_function(rip, run_funcs, want_nested=('_run',), allow_defaults=True)
    defs.append(('outer_params', 'list string', clist(cstr(x) for x in ps)))
    defs.append(('outer_defaults', 'list (string * hexp)', defaults_term(rip, set())))
    defs.append(('outer_prog', 'hstmt', body))
    defs.append(('run_prog', 'hstmt', nested['_run']))

    # ---- _exitcode_to_name
    tabs = [n for n in t_run.body if isinstance(n, ast.Assign) and len(n.targets) == 1 and is_name(n.targets[0], '_exitcode_to_name')]
    if len(tabs) != 1 or not isinstance(tabs[0].value, ast.DictComp):
        raise HelperError('_exitcode_to_name: expected one module-level dict comprehension')
    dc = tabs[0].value
    negated = isinstance(dc.key, ast.UnaryOp) and isinstance(dc.key.op, ast.USub) and is_name(dc.key.operand, 'signum')
    defs.append(('exitcode_keys_negated', 'bool', 'true' if negated else 'false'))

    L = [
        '(** GENERATED by translate/proc_helpers.py from',
        f'    {SRC_LOG} and {SRC_RUN} (ast, CPython {sys.version_info[0]}.{sys.version_info[1]}) -- do not edit.',
        '    Terms of Proc/HelperSyntax.v; interpreted by Proc/HelperInterp.v; obligations in Proc/HelperTie.v. *)',
        'From Coq Require Import List ZArith Bool String.',
        'From NL Require Import Proc.HelperSyntax.',
        'Import ListNotations.',
        'Open Scope string_scope.',
        '',
    ]
    for name, ty, term in defs:
        L.append(f'Definition {name} : {ty} :=')
        L.append(f'  {term}.')
        L.append('')
    return '\n'.join(L)


if __name__ == '__main__':
    print(translate(Path(sys.argv[1] if len(sys.argv) > 1 else '/repo')))
