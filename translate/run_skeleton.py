"""Fail-closed translator: nextline/utils/run.py -> Gen/RunSkeleton.v

Extracts with `ast` the CONTROL SKELETON of

  * `run_in_process` (outer part) and its nested coroutine `_run`
    (AsyncExitStack / `if collect_logging` / `executor = ProcessPoolExecutor(...)` /
    `try:` run_in_executor / `event.set()` / `try: ret = await future` with its handlers
    in order / `finally: await loop.run_in_executor(None, executor.shutdown)` /
    `return ret, exc`; a synchronous `with` is rejected),
  * `RunningProcess.__init__`, `.__await__`, `.interrupt`, `.send_signal`,
    `.terminate`, `.kill`,
  * the fields of `ExitedProcess`,
  * `MultiprocessingLogging` (nextline/utils/multiprocessing_logging.py): listener
    task created before the `yield`, `finally:` sentinel put, then `await task`.

Every leaf statement must be one of the statements listed in the tables below
(compared after `ast.unparse`, i.e. modulo comments/layout); every compound
statement must have exactly the recognised shape.  Anything else raises
SkeletonError and `./check C17` reports a broken tie obligation.
"""
from __future__ import annotations

import ast
import sys
from pathlib import Path

OUTPUT = 'RunSkeleton.v'
SRC = 'nextline/utils/run.py'
SRC_LOG = 'nextline/utils/multiprocessing_logging.py'


class SkeletonError(Exception):
    pass


# ---- leaf statements of `_run` (normalised source -> action)
RUN_LEAVES = {
    'logging_initializer = await stack.enter_async_context(MultiprocessingLogging(mp_context=mp_context))': 'EnterLogging',
    'initializer = partial(_call_all, logging_initializer, initializer)': 'WrapInitializer',
    'executor = ProcessPoolExecutor(max_workers=1, mp_context=mp_context, initializer=initializer)': 'NewExecutor',
    'loop = asyncio.get_running_loop()': 'GetLoop',
    'await loop.run_in_executor(None, executor.shutdown)': 'ShutdownInThread',
    'future = loop.run_in_executor(executor, partial(_call, func))': 'Submit',
    'process = list(executor._processes.values())[0]': 'GetProcess',
    'event.set()': 'EventSet',
    'ret = None': 'InitRet',
    'exc = None': 'InitExc',
    'ret, exc = await future': 'AwaitFuture',
    'exc = e': 'StoreExc',
    'pass': 'Pass',
}
IGNORED_RUN = {'nonlocal process', 'nonlocal initializer'}

EXECUTOR_CTOR = 'ProcessPoolExecutor(max_workers=1, mp_context=mp_context, initializer=initializer)'
STACK_CTOR = 'contextlib.AsyncExitStack()'

OUTER_LEAVES = {
    'process: Process | None = None': 'OInitProcess',
    'event = asyncio.Event()': 'ONewEvent',
    'task = asyncio.create_task(_run())': 'OCreateTask',
    'await event.wait()': 'OAwaitEvent',
    'assert process': 'OAssertProcess',
    'ret = RunningProcess[_T](process=process, task=task)': 'OMakeHandle',
    'return ret': 'OReturnHandle',
}

INIT_LEAVES = {
    'self.process = process': 'IStoreProcess',
    'self._task = task': 'IStoreTask',
    'self.process_created_at = datetime.now(timezone.utc)': 'INowCreated',
    'self._process_created_at_fmt = self._format_time(self.process_created_at)': 'IFormat',
    'self._log_created()': 'ILogCreated',
}

AWAIT_LEAVES = {
    'ret, exc = (yield from self._task.__await__())': 'WYieldFromTask',
    'process_exited_at = datetime.now(timezone.utc)': 'WNowExited',
    'self._log_exited(process_exited_at)': 'WLogExited',
    'return ExitedProcess(returned=ret, raised=exc, process=self.process, '
    'process_created_at=self.process_created_at, process_exited_at=process_exited_at)': 'WReturnExited',
}

METHOD_BODIES = {
    'interrupt': {'self.send_signal(signal.SIGINT)': 'MSendSignalSelf SIGINT'},
    'terminate': {'self.process.terminate()': 'MProcessTerminate'},
    'kill': {'self.process.kill()': 'MProcessKill'},
}

EXITED_FIELDS = ['returned', 'raised', 'process', 'process_created_at', 'process_exited_at']


def norm(node) -> str:
    return ast.unparse(node).strip()


def strip_doc(body):
    if body and isinstance(body[0], ast.Expr) and isinstance(body[0].value, ast.Constant) and isinstance(body[0].value.value, str):
        return body[1:]
    return body


def seq(items: list[str]) -> str:
    if not items:
        return 'Skip'
    if len(items) == 1:
        return items[0]
    return f'(Seq {items[0]} {seq(items[1:])})'


def tr_handler_body(body, where) -> str:
    acts = []
    for st in body:
        s = norm(st)
        if s not in ('pass', 'exc = e'):
            raise SkeletonError(f'{where}: handler statement `{s}` not recognised')
        acts.append(RUN_LEAVES[s])
    return '[' + '; '.join(acts) + ']'


def tr_run_stmt(st, where: str) -> str | None:
    ln = getattr(st, 'lineno', '?')
    if isinstance(st, ast.Nonlocal):
        if norm(st) not in IGNORED_RUN:
            raise SkeletonError(f'{where}:{ln}: unexpected `{norm(st)}`')
        return None
    if isinstance(st, ast.AsyncWith):
        if len(st.items) != 1 or norm(st.items[0].context_expr) != STACK_CTOR or \
                st.items[0].optional_vars is None or norm(st.items[0].optional_vars) != 'stack':
            raise SkeletonError(f'{where}:{ln}: async with other than `{STACK_CTOR} as stack`')
        return f'(AsyncWithExitStack {tr_run_body(st.body, where)})'
    if isinstance(st, ast.With):
        raise SkeletonError(f'{where}:{ln}: synchronous `with` inside the coroutine (its __exit__ would block the event loop)')
    if isinstance(st, ast.If):
        if norm(st.test) != 'collect_logging' or st.orelse:
            raise SkeletonError(f'{where}:{ln}: if other than `if collect_logging:` without else')
        return f'(IfCollectLogging {tr_run_body(st.body, where)})'
    if isinstance(st, ast.Try):
        if st.orelse:
            raise SkeletonError(f'{where}:{ln}: try with else')
        if st.finalbody:
            if st.handlers:
                raise SkeletonError(f'{where}:{ln}: try with both handlers and finally')
            return f'(TryFinally {tr_run_body(st.body, where)} {tr_run_body(st.finalbody, where)})'
        hs = []
        for h in st.handlers:
            if h.type is None:
                raise SkeletonError(f'{where}:{h.lineno}: bare except')
            t = norm(h.type)
            if t == 'BrokenProcessPool':
                cls = 'BrokenProcessPoolC'
                if h.name is not None:
                    raise SkeletonError(f'{where}:{h.lineno}: `except BrokenProcessPool as ...`')
            elif t == 'BaseException':
                cls = 'BaseExceptionC'
                if h.name != 'e':
                    raise SkeletonError(f'{where}:{h.lineno}: `except BaseException` must bind `e`')
            else:
                raise SkeletonError(f'{where}:{h.lineno}: handler for `{t}` not recognised')
            hs.append(f'({cls}, {tr_handler_body(h.body, where)})')
        return f'(Try {tr_run_body(st.body, where)} [{"; ".join(hs)}])'
    if isinstance(st, ast.Return):
        if norm(st) != 'return (ret, exc)':
            raise SkeletonError(f'{where}:{ln}: `{norm(st)}` is not `return ret, exc`')
        return 'ReturnRetExc'
    s = norm(st)
    if s in RUN_LEAVES:
        return f'(Do {RUN_LEAVES[s]})'
    raise SkeletonError(f'{where}:{ln}: statement `{s}` not recognised')


def tr_run_body(body, where: str) -> str:
    items = [x for x in (tr_run_stmt(st, where) for st in body) if x is not None]
    return seq(items)


def leaves(body, table: dict, where: str) -> list[str]:
    out = []
    for st in strip_doc(body):
        s = norm(st)
        if s not in table:
            raise SkeletonError(f'{where}:{getattr(st, "lineno", "?")}: statement `{s}` not recognised')
        out.append(table[s])
    return out


def find(body, kind, name):
    xs = [n for n in body if isinstance(n, kind) and n.name == name]
    if len(xs) != 1:
        raise SkeletonError(f'expected exactly one {kind.__name__} {name}')
    return xs[0]


CALL_TRY = ['return (func(), None)']
CALL_HANDLER = ['exc = _ExceptionWithTraceback(e, e.__traceback__)', 'pickle.loads(pickle.dumps(exc))', 'return (None, exc)']


def call_skeleton(tree) -> list[str]:
    """`_call(func)`: the wrapper executed in the worker process"""
    fn = find(tree.body, ast.FunctionDef, '_call')
    if [a.arg for a in fn.args.args] != ['func']:
        raise SkeletonError('_call arguments')
    b = strip_doc(fn.body)
    ok = (len(b) == 1 and isinstance(b[0], ast.Try) and not b[0].orelse and not b[0].finalbody and len(b[0].handlers) == 1
          and [norm(x) for x in b[0].body] == CALL_TRY
          and b[0].handlers[0].type is not None and norm(b[0].handlers[0].type) == 'BaseException' and b[0].handlers[0].name == 'e'
          and [norm(x) for x in b[0].handlers[0].body] == CALL_HANDLER)
    if not ok:
        raise SkeletonError('_call: expected `try: return func(), None / except BaseException as e: exc = _ExceptionWithTraceback(...); '
                            'pickle.loads(pickle.dumps(exc)); return None, exc`')
    return ['CReturnValue', 'CCatchBaseException', 'CWrapTraceback', 'CRoundTrip', 'CReturnException']


def skeleton(repo: Path) -> dict:
    p = repo / SRC
    if not p.exists():
        raise SkeletonError(f'{p} not found')
    tree = ast.parse(p.read_text())
    res = {}
    # ---- run_in_process
    rip = find(tree.body, ast.AsyncFunctionDef, 'run_in_process')
    argnames = [a.arg for a in rip.args.args]
    if argnames != ['func', 'mp_context', 'initializer', 'collect_logging']:
        raise SkeletonError(f'run_in_process arguments {argnames}')
    body = strip_doc(rip.body)
    inner = [n for n in body if isinstance(n, ast.AsyncFunctionDef)]
    if len(inner) != 1 or inner[0].name != '_run' or inner[0].args.args:
        raise SkeletonError('run_in_process: expected exactly the nested coroutine `_run()`')
    if any(isinstance(n, (ast.FunctionDef, ast.ClassDef)) for n in body):
        raise SkeletonError('run_in_process: unexpected nested definition')
    res['run'] = tr_run_body(strip_doc(inner[0].body), '_run')
    res['call'] = call_skeleton(tree)
    res['outer'] = leaves([n for n in body if n is not inner[0]], OUTER_LEAVES, 'run_in_process')
    # position of the nested def relative to the outer leaves: must precede create_task
    idx = body.index(inner[0])
    before = [norm(n) for n in body[:idx]]
    if 'task = asyncio.create_task(_run())' in before:
        raise SkeletonError('run_in_process: task created before `_run` is defined')
    # ---- RunningProcess
    rp = find(tree.body, ast.ClassDef, 'RunningProcess')
    init = find(rp.body, ast.FunctionDef, '__init__')
    if [a.arg for a in init.args.args] != ['self', 'process', 'task']:
        raise SkeletonError('RunningProcess.__init__ arguments')
    res['init'] = leaves(init.body, INIT_LEAVES, 'RunningProcess.__init__')
    aw = find(rp.body, ast.FunctionDef, '__await__')
    aw_body = [st for st in strip_doc(aw.body)]
    res['await'] = leaves(aw_body, AWAIT_LEAVES, 'RunningProcess.__await__')
    for m, table in METHOD_BODIES.items():
        fn = find(rp.body, ast.FunctionDef, m)
        res[m] = leaves(fn.body, table, f'RunningProcess.{m}')
    ss = find(rp.body, ast.FunctionDef, 'send_signal')
    b = strip_doc(ss.body)
    ok = (len(b) == 1 and isinstance(b[0], ast.If) and norm(b[0].test) == 'self.process.pid' and not b[0].orelse
          and [norm(x) for x in b[0].body] == ['os.kill(self.process.pid, sig)'])
    if not ok:
        raise SkeletonError('RunningProcess.send_signal: expected `if self.process.pid: os.kill(self.process.pid, sig)`')
    res['send_signal'] = ['MIfPid [MOsKill]']
    # methods that could touch the task / process besides the modelled ones
    known = {'__init__', '__repr__', '_log_created', '_log_exited', '_format_time', 'interrupt', 'send_signal',
             'terminate', 'kill', '__await__'}
    for n in rp.body:
        if isinstance(n, (ast.FunctionDef, ast.AsyncFunctionDef)) and n.name not in known:
            raise SkeletonError(f'RunningProcess.{n.name}: method not modelled')
    for nm in ('__repr__', '_log_created', '_log_exited', '_format_time'):
        fn = find(rp.body, ast.FunctionDef, nm)
        for node in ast.walk(fn):
            if isinstance(node, (ast.Await, ast.Yield, ast.YieldFrom, ast.Raise)):
                raise SkeletonError(f'RunningProcess.{nm}: await/yield/raise in a logging helper')
            if isinstance(node, ast.Attribute) and node.attr in ('_task', 'kill', 'terminate', 'join', 'close'):
                raise SkeletonError(f'RunningProcess.{nm}: touches {node.attr}')
    # ---- ExitedProcess
    ep = find(tree.body, ast.ClassDef, 'ExitedProcess')
    fields = [n.target.id for n in ep.body if isinstance(n, ast.AnnAssign) and isinstance(n.target, ast.Name)]
    if fields != EXITED_FIELDS:
        raise SkeletonError(f'ExitedProcess fields {fields}')
    res['exited_fields'] = fields
    # ---- MultiprocessingLogging
    pl = repo / SRC_LOG
    if not pl.exists():
        raise SkeletonError(f'{pl} not found')
    tl = ast.parse(pl.read_text())
    ml = find(tl.body, ast.AsyncFunctionDef, 'MultiprocessingLogging')
    if [norm(d) for d in ml.decorator_list] != ['contextlib.asynccontextmanager']:
        raise SkeletonError('MultiprocessingLogging: decorator')
    mb = strip_doc(ml.body)
    acts = []
    for st in mb:
        if isinstance(st, ast.AsyncFunctionDef):
            if st.name != '_listen':
                raise SkeletonError('MultiprocessingLogging: nested coroutine other than _listen')
            wl = strip_doc(st.body)
            if len(wl) != 1 or not isinstance(wl[0], ast.While) or \
                    norm(wl[0].test) != '(record := (await asyncio.to_thread(queue.get))) is not None':
                raise SkeletonError('MultiprocessingLogging._listen: loop shape')
            for node in ast.walk(wl[0]):
                if isinstance(node, (ast.Break, ast.Return, ast.Raise)):
                    raise SkeletonError('MultiprocessingLogging._listen: break/return/raise inside the loop')
            acts.append('LDefListen')
        elif isinstance(st, ast.Try):
            if st.handlers or st.orelse or [norm(x) for x in st.body] != ['yield initializer']:
                raise SkeletonError('MultiprocessingLogging: try body must be `yield initializer` with finally only')
            fin = [norm(x) for x in st.finalbody]
            if fin != ['await asyncio.to_thread(queue.put, None)', 'await task']:
                raise SkeletonError(f'MultiprocessingLogging: finally is {fin}')
            acts += ['LYield', 'LPutSentinel', 'LAwaitListener']
        else:
            s = norm(st)
            table = {
                'mp_context = mp_context or mp.get_context()': 'LContext',
                'queue = cast(Queue[LogRecord | None], mp_context.Queue())': 'LNewQueue',
                'initializer = partial(_initializer, queue)': 'LInitializer',
                'task = asyncio.create_task(_listen())': 'LCreateListener',
            }
            if s not in table:
                raise SkeletonError(f'MultiprocessingLogging:{st.lineno}: statement `{s}` not recognised')
            acts.append(table[s])
    res['logging'] = acts
    return res


def translate(repo: Path) -> str:
    sk = skeleton(Path(repo))
    L = [
        '(** GENERATED by translate/run_skeleton.py from',
        f'    {SRC} and {SRC_LOG} (ast, CPython {sys.version_info[0]}.{sys.version_info[1]}) -- do not edit.',
        '    Control skeleton of run_in_process / _run / RunningProcess / MultiprocessingLogging. *)',
        'From Coq Require Import List.', 'Import ListNotations.', '',
        '(** leaf statements of `_run` *)',
        'Inductive action :=',
        '| EnterLogging      (* logging_initializer = await stack.enter_async_context(MultiprocessingLogging(...)) *)',
        '| WrapInitializer   (* initializer = partial(_call_all, logging_initializer, initializer) *)',
        '| NewExecutor       (* executor = ProcessPoolExecutor(max_workers=1, mp_context=..., initializer=initializer) *)',
        '| GetLoop           (* loop = asyncio.get_running_loop() *)',
        '| ShutdownInThread  (* await loop.run_in_executor(None, executor.shutdown) *)',
        '| Submit            (* future = loop.run_in_executor(executor, partial(_call, func)) *)',
        '| GetProcess        (* process = list(executor._processes.values())[0] *)',
        '| EventSet          (* event.set() *)',
        '| InitRet | InitExc (* ret = None; exc = None *)',
        '| AwaitFuture       (* ret, exc = await future *)',
        '| StoreExc          (* exc = e *)',
        '| Pass.',
        '',
        'Inductive exclass := BrokenProcessPoolC | BaseExceptionC.',
        '',
        'Inductive stmt :=',
        '| Skip',
        '| Do (a : action)',
        '| Seq (s1 s2 : stmt)',
        '| IfCollectLogging (body : stmt)',
        '| AsyncWithExitStack (body : stmt)     (* async with contextlib.AsyncExitStack() as stack *)',
        '| TryFinally (body fin : stmt)',
        '| Try (body : stmt) (handlers : list (exclass * list action))',
        '| ReturnRetExc.                        (* return ret, exc *)',
        '',
        '(** statements of run_in_process around `_run` *)',
        'Inductive outer := OInitProcess | ONewEvent | OCreateTask | OAwaitEvent | OAssertProcess | OMakeHandle | OReturnHandle.',
        '',
        'Inductive init := IStoreProcess | IStoreTask | INowCreated | IFormat | ILogCreated.',
        '',
        'Inductive awaitst := WYieldFromTask | WNowExited | WLogExited | WReturnExited.',
        '',
        'Inductive signame := SIGINT.',
        'Inductive mstmt := MSendSignalSelf (s : signame) | MProcessTerminate | MProcessKill | MOsKill | MIfPid (body : list mstmt).',
        '',
        'Inductive lstmt := LContext | LNewQueue | LInitializer | LDefListen | LCreateListener | LYield | LPutSentinel | LAwaitListener.',
        '',
        '(** `_call(func)`, executed in the worker: try: return func(), None / except BaseException as e: wrap, round-trip, return None, exc *)',
        'Inductive cstmt := CReturnValue | CCatchBaseException | CWrapTraceback | CRoundTrip | CReturnException.',
        '',
        'Inductive field := Freturned | Fraised | Fprocess | Fprocess_created_at | Fprocess_exited_at.',
        '',
        'Definition run_skeleton : stmt :=',
        '  ' + sk['run'] + '.',
        '',
        'Definition call_skeleton : list cstmt := [' + '; '.join(sk['call']) + '].',
        'Definition outer_skeleton : list outer := [' + '; '.join(sk['outer']) + '].',
        'Definition init_skeleton : list init := [' + '; '.join(sk['init']) + '].',
        'Definition await_skeleton : list awaitst := [' + '; '.join(sk['await']) + '].',
        'Definition interrupt_skeleton : list mstmt := [' + '; '.join(sk['interrupt']) + '].',
        'Definition send_signal_skeleton : list mstmt := [' + '; '.join(sk['send_signal']) + '].',
        'Definition terminate_skeleton : list mstmt := [' + '; '.join(sk['terminate']) + '].',
        'Definition kill_skeleton : list mstmt := [' + '; '.join(sk['kill']) + '].',
        'Definition logging_skeleton : list lstmt := [' + '; '.join(sk['logging']) + '].',
        'Definition exited_fields : list field := [' + '; '.join('F' + f for f in sk['exited_fields']) + '].',
        '',
    ]
    return '\n'.join(L)


if __name__ == '__main__':
    print(translate(Path(sys.argv[1] if len(sys.argv) > 1 else '/repo')))
