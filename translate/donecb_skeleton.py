"""Fail-closed translator: nextline/utils/done_callback/thread.py -> Gen/DoneCbSkeleton.v

For `ThreadDoneCallback.register`, `.close` and `._monitor` the bytecode
(`dis.get_instructions`, CPython 3.12) is reduced to the ordered list of
*accesses*: every instruction that reads or writes state reachable from `self`
(attribute loads/stores, iteration over the shared set, `is_alive`, set `add`,
set difference, membership, truth test of the set, the callback call, `join`,
`sleep`, lock acquire/release).  CPython may switch threads between any two
bytecodes; every instruction that is NOT listed only touches the frame's own
stack/locals (or builds thread-local objects) and therefore commutes with the
steps of every other thread, so the boundaries between two consecutive
accesses are exactly the switch points that matter.

Anything that touches `self.<attr>` (or an object loaded from it) in a way that
is not recognised aborts the translation (SkeletonError); `./check` then
reports a broken tie obligation.

`skeleton(repo)` is also used by the opcode scheduler (harness/props/c18.py):
it returns, per method, [(offset, access-name)], i.e. where to park threads.
"""
from __future__ import annotations

import dis
import importlib.util
import sys
from pathlib import Path

OUTPUT = 'DoneCbSkeleton.v'
SRC = 'nextline/utils/done_callback/thread.py'
CLASS = 'ThreadDoneCallback'
METHODS = ['register', 'close', '_monitor']

# attributes of self and their role
SHARED_ATTRS = {'_active', '_closed'}
RO_ATTRS = {'_done': 'ADone', '_interval': 'AInterval', '_t': 'AThread'}   # written in __init__ only
LOCK_ATTRS = {'_lock'}

# accesses that touch state another thread can change (the scheduler parks before these)
SHARED = {'LoadActive', 'StoreActive', 'GetIter', 'IterNext', 'IsAlive', 'SetAdd', 'SetDiff',
          'Contains', 'TruthActive', 'LoadClosed', 'StoreClosed', 'Callback', 'Join',
          'LockAcquire', 'LockRelease'}

# instructions that only touch the frame (stack, fast locals, constants, control flow)
LOCAL_OPS = {
    'RESUME', 'NOP', 'CACHE', 'LOAD_FAST', 'STORE_FAST', 'DELETE_FAST', 'LOAD_FAST_AND_CLEAR',
    'LOAD_FAST_CHECK', 'LOAD_CONST', 'RETURN_CONST', 'RETURN_VALUE', 'POP_TOP', 'SWAP', 'COPY',
    'BUILD_LIST', 'BUILD_SET', 'BUILD_TUPLE', 'SET_ADD', 'LIST_APPEND', 'END_FOR',
    'JUMP_BACKWARD', 'JUMP_FORWARD', 'JUMP_BACKWARD_NO_INTERRUPT',
    'POP_JUMP_IF_NOT_NONE', 'POP_JUMP_IF_NONE',
    'RAISE_VARARGS', 'RERAISE', 'PUSH_EXC_INFO', 'POP_EXCEPT', 'CHECK_EXC_MATCH',
    'BINARY_SUBSCR', 'PUSH_NULL', 'WITH_EXCEPT_START',
}
# globals whose call is thread-local
LOCAL_GLOBALS = {'current_thread', 'RuntimeError', 'BaseException', 'time', 'set', 'len', 'list'}


class SkeletonError(Exception):
    pass


def load_class(repo: Path):
    path = repo / SRC
    if not path.exists():
        raise SkeletonError(f'{path} not found')
    # import by path under a private name, with the repo importable for its own imports
    sys.path.insert(0, str(repo))
    try:
        spec = importlib.util.spec_from_file_location('_verif_donecb_thread', path)
        mod = importlib.util.module_from_spec(spec)
        spec.loader.exec_module(mod)
    finally:
        sys.path.remove(str(repo))
    cls = getattr(mod, CLASS, None)
    if cls is None:
        raise SkeletonError(f'class {CLASS} not found')
    return cls


LOADS = ('LOAD_FAST', 'LOAD_FAST_CHECK')


def _is_self(ins) -> bool:
    return ins is not None and ins.opname in LOADS and ins.argval == 'self'


def _is_local(ins) -> bool:
    return ins is not None and ins.opname in LOADS and ins.argval != 'self'


LOG_LEVELS = {'debug', 'info', 'warning', 'error', 'exception', 'critical', 'log'}


def _logger_call_end(ins, k: int, name: str) -> int:
    """ins[k] is LOAD_GLOBAL <module-level logger>.  The only accepted use is the statement
    `logger.<level>(<constants>)`: LOAD_GLOBAL, LOAD_ATTR <level> (method), LOAD_CONST*, [KW_NAMES], CALL, POP_TOP.
    -> index of the POP_TOP; anything else: SkeletonError."""
    j = k + 1
    if not (j < len(ins) and ins[j].opname == 'LOAD_ATTR' and ins[j].arg & 1 and ins[j].argval in LOG_LEVELS):
        raise SkeletonError(f'{name}@{ins[k].offset}: use of the logger that is not logger.<level>(...)')
    j += 1
    while j < len(ins) and ins[j].opname == 'LOAD_CONST':
        j += 1
    if j < len(ins) and ins[j].opname == 'KW_NAMES':
        j += 1
    if not (j + 1 < len(ins) and ins[j].opname == 'CALL' and ins[j + 1].opname == 'POP_TOP'):
        raise SkeletonError(f'{name}@{ins[k].offset}: logger call with a non-constant argument or a used result')
    if any(x.is_jump_target for x in ins[k + 1:j + 2]):
        raise SkeletonError(f'{name}@{ins[k].offset}: jump into a logger call')
    return j + 1


def method_skeleton(fn, name: str, loggers=frozenset()):
    """-> list of (offset, access, detail)"""
    ins = [i for i in dis.get_instructions(fn) if i.opname != 'CACHE']
    out = []
    # tag of the value most recently pushed by an attribute/global load (None = frame-local value)
    callee_stack: list[str] = []     # pending callables, innermost last
    last_tag = None                  # what the previous instruction left on top of the stack
    iters: list[str] = []            # open iterators, innermost last: 'active' | 'local'
    with_open: list[str] = []        # `with self._lock` blocks seen so far

    def emit(i, acc, detail=''):
        out.append((i.offset, acc, detail))

    skip_to = -1
    for k, i in enumerate(ins):
        if k <= skip_to:
            continue
        prev = ins[k - 1] if k else None
        op = i.opname
        tag = None
        if op == 'LOAD_GLOBAL' and i.argval in loggers and i.argval not in LOCAL_GLOBALS:
            # `logger.<level>(<constants>)`: thread-local as far as `self` is concerned; skipped as a whole
            if last_tag == 'active':
                raise SkeletonError(f'{name}@{i.offset}: logger call while self._active is on the stack')
            skip_to = _logger_call_end(ins, k, name)
            last_tag = None
            continue
        if op in ('LOAD_ATTR', 'LOAD_METHOD'):
            attr = i.argval
            is_method = bool(i.arg & 1) if op == 'LOAD_ATTR' else True
            if _is_self(prev):
                if attr == '_active':
                    if is_method:
                        raise SkeletonError(f'{name}@{i.offset}: method load on self._active')
                    emit(i, 'LoadActive'); tag = 'active'
                elif attr == '_closed':
                    emit(i, 'LoadClosed'); tag = 'closed'
                elif attr in RO_ATTRS:
                    emit(i, f'LoadRO {RO_ATTRS[attr]}'); tag = 'ro:' + attr
                    if is_method:
                        callee_stack.append('ro:' + attr)
                elif attr in LOCK_ATTRS:
                    emit(i, 'LoadRO ALock'); tag = 'lock'
                else:
                    raise SkeletonError(f'{name}@{i.offset}: unknown attribute self.{attr}')
            elif last_tag == 'active':
                if attr == 'add' and is_method:
                    callee_stack.append('set.add'); tag = 'm'
                else:
                    raise SkeletonError(f'{name}@{i.offset}: unknown use self._active.{attr}')
            elif last_tag == 'ro:_t':
                if attr == 'join' and is_method:
                    callee_stack.append('join'); tag = 'm'
                else:
                    raise SkeletonError(f'{name}@{i.offset}: unknown use self._t.{attr}')
            elif last_tag == 'lock':
                if attr in ('acquire', 'release') and is_method:
                    callee_stack.append('lock.' + attr); tag = 'm'
                else:
                    raise SkeletonError(f'{name}@{i.offset}: unknown use of the lock .{attr}')
            elif last_tag == 'global:time' and attr == 'sleep':
                if prev.opname == 'LOAD_GLOBAL' and prev.arg & 1:
                    callee_stack[-1] = 'sleep'      # `NULL + time` already opened the call
                else:
                    callee_stack.append('sleep')
                tag = 'm'
            elif _is_local(prev):
                # attribute of a frame-local object
                if attr == 'is_alive' and is_method:
                    callee_stack.append('is_alive'); tag = 'm'
                elif attr == 'append' and is_method:      # a frame-local list (which one: the `ast` half)
                    callee_stack.append('local'); tag = 'm'
                else:
                    raise SkeletonError(f'{name}@{i.offset}: unknown attribute {prev.argval}.{attr}')
            else:
                raise SkeletonError(f'{name}@{i.offset}: attribute load .{attr} on an untracked value')
        elif op == 'STORE_ATTR':
            attr = i.argval
            if not _is_self(prev):
                raise SkeletonError(f'{name}@{i.offset}: STORE_ATTR .{attr} on a non-self object')
            if attr == '_active':
                emit(i, 'StoreActive')
            elif attr == '_closed':
                emit(i, 'StoreClosed')
            else:
                raise SkeletonError(f'{name}@{i.offset}: store to self.{attr}')
        elif op == 'DELETE_ATTR':
            raise SkeletonError(f'{name}@{i.offset}: DELETE_ATTR')
        elif op == 'LOAD_GLOBAL':
            g = i.argval
            if g not in LOCAL_GLOBALS:
                raise SkeletonError(f'{name}@{i.offset}: unknown global {g}')
            if i.arg & 1:            # NULL + callable
                callee_stack.append('local')
            tag = 'global:' + g
        elif op == 'CALL' and i.arg == 2 and k >= 3 and all(
                x.opname == 'LOAD_CONST' and x.argval is None for x in ins[k - 3:k]):
            # `with` exit: __exit__(None, None, None)
            if not with_open:
                raise SkeletonError(f'{name}@{i.offset}: __exit__ call without `with self._lock`')
            emit(i, 'LockRelease')
        elif op == 'CALL':
            if not callee_stack:
                raise SkeletonError(f'{name}@{i.offset}: CALL of an untracked callable')
            c = callee_stack.pop()
            if c == 'set.add':
                emit(i, 'SetAdd')
            elif c == 'is_alive':
                emit(i, 'IsAlive')
            elif c == 'ro:_done':
                emit(i, 'Callback')
            elif c == 'join':
                emit(i, 'Join')
            elif c == 'sleep':
                emit(i, 'Sleep')
            elif c == 'lock.acquire':
                emit(i, 'LockAcquire')
            elif c == 'lock.release':
                emit(i, 'LockRelease')
            elif c == 'lock.exit':
                emit(i, 'LockRelease')
            elif c == 'local':
                pass
            else:
                raise SkeletonError(f'{name}@{i.offset}: CALL of {c}')
        elif op == 'BEFORE_WITH':
            if last_tag != 'lock':
                raise SkeletonError(f'{name}@{i.offset}: `with` on something that is not self._lock')
            emit(i, 'LockAcquire')
            with_open.append('lock')
        elif op == 'WITH_EXCEPT_START':
            emit(i, 'LockRelease')
        elif op == 'GET_ITER':
            if last_tag == 'active':
                emit(i, 'GetIter'); iters.append('active')
            elif _is_local(prev):
                iters.append('local')
            else:
                raise SkeletonError(f'{name}@{i.offset}: GET_ITER on an untracked value')
        elif op == 'FOR_ITER':
            if not iters:
                raise SkeletonError(f'{name}@{i.offset}: FOR_ITER without GET_ITER')
            if iters[-1] == 'active':
                emit(i, 'IterNext')
        elif op == 'END_FOR':
            if not iters:
                raise SkeletonError(f'{name}@{i.offset}: END_FOR without iterator')
            iters.pop()
        elif op == 'BINARY_OP':
            pp = ins[k - 2] if k >= 2 else None
            shared_operand = last_tag == 'active' or (
                pp is not None and pp.opname == 'LOAD_ATTR' and pp.argval == '_active')
            if shared_operand:
                if i.argrepr == '-' and pp is not None and pp.opname == 'LOAD_ATTR' and pp.argval == '_active' \
                        and prev.opname in LOADS and prev.argval != 'self':
                    emit(i, 'SetDiff')
                else:
                    raise SkeletonError(f'{name}@{i.offset}: BINARY_OP {i.argrepr} on self._active')
            elif not (prev.opname in LOADS + ('LOAD_CONST',)):
                raise SkeletonError(f'{name}@{i.offset}: BINARY_OP on untracked operands')
        elif op == 'CONTAINS_OP':
            if last_tag == 'active':
                emit(i, 'Contains')
            else:
                raise SkeletonError(f'{name}@{i.offset}: CONTAINS_OP on an untracked value')
        elif op in ('POP_JUMP_IF_FALSE', 'POP_JUMP_IF_TRUE'):
            if last_tag == 'active':
                emit(i, 'TruthActive')
            # a bool / frame-local value otherwise
        elif op in LOCAL_OPS:
            if last_tag == 'active' and op not in LOADS:
                # the shared set object is consumed by an instruction we do not understand
                raise SkeletonError(f'{name}@{i.offset}: {op} consumes self._active')
            if op in LOADS and last_tag == 'active':
                tag = None  # e.g. `self._active - done`: checked at the BINARY_OP
        else:
            raise SkeletonError(f'{name}@{i.offset}: unknown opcode {op}')
        last_tag = tag
    if callee_stack:
        raise SkeletonError(f'{name}: unbalanced calls {callee_stack}')
    return out


def check_readonly(cls) -> None:
    """RO attributes are stored in __init__ only; _active/_closed only where the skeleton sees them."""
    for nm, fn in vars(cls).items():
        code = getattr(fn, '__code__', None)
        if code is None:
            continue
        for i in dis.get_instructions(fn):
            if i.opname in ('STORE_ATTR', 'DELETE_ATTR'):
                if nm == '__init__':
                    continue
                if i.argval in RO_ATTRS or i.argval in LOCK_ATTRS:
                    raise SkeletonError(f'{nm}@{i.offset}: store to read-only attribute {i.argval}')
                if nm not in METHODS:
                    raise SkeletonError(f'{nm}@{i.offset}: store to self.{i.argval} outside the modelled methods')
            if i.opname == 'LOAD_ATTR' and i.argval in SHARED_ATTRS and nm not in METHODS and nm != '__init__':
                raise SkeletonError(f'{nm}@{i.offset}: use of self.{i.argval} outside the modelled methods')


def skeleton(repo: Path) -> dict[str, list[tuple[int, str, str]]]:
    import ast as _ast
    from translate.donecb_ast import Module as _Module
    cls = load_class(repo)
    check_readonly(cls)
    # module-level `logger = getLogger(__name__)` names (the `ast` half checks the module level, fail-closed)
    loggers = frozenset(_Module(_ast.parse((repo / SRC).read_text())).loggers)
    res = {}
    for m in METHODS:
        fn = vars(cls).get(m)
        if fn is None:
            raise SkeletonError(f'method {m} missing')
        res[m] = method_skeleton(fn, m, loggers)
    return res, cls


def translate(repo: Path) -> str:
    from translate.donecb_ast import translate_ast
    sk, _ = skeleton(repo)
    ast_lines = translate_ast(repo)
    L = ['(** GENERATED by translate/donecb_skeleton.py from',
         f'    {SRC} (dis, CPython {sys.version_info[0]}.{sys.version_info[1]}) -- do not edit.',
         '    Per method: the ordered list of accesses to state reachable from [self];',
         '    the boundary between two consecutive entries is a thread-switch point. *)',
         'From Coq Require Import List.', 'Import ListNotations.',
         'From NL Require Import DoneCb.SkelSyntax.', '',
         'Inductive roattr := ADone | AInterval | AThread | ALock.', '',
         'Inductive access :=',
         '| LoadActive | StoreActive | GetIter | IterNext | IsAlive | SetAdd | SetDiff | Contains',
         '| TruthActive | LoadClosed | StoreClosed | Callback | Join | Sleep',
         '| LockAcquire | LockRelease | LoadRO (a : roattr).', '']
    for m in METHODS:
        nm = m.lstrip('_')
        L.append(f'(* {CLASS}.{m}: ' + ', '.join(f'{o}:{a}' for o, a, _ in sk[m]) + ' *)')
        L.append(f'Definition {nm}_skeleton : list access :=')
        L.append('  [' + '; '.join(a for _, a, _ in sk[m]) + '].')
        L.append('')
    L += ['(** `ast` half: every method as a statement tree (DoneCb/SkelSyntax.v): polarity of the tests,',
          '    right-hand sides of the stores, arguments of the calls, __init__, defaults.',
          '    Obligations: DoneCb/SkelFacts.v, theorems C18_skelfacts_... *)', '']
    L += ast_lines
    return '\n'.join(L)


if __name__ == '__main__':
    print(translate(Path(sys.argv[1] if len(sys.argv) > 1 else '/repo')))
