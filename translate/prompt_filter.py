"""Fail-closed tie obligation for the main-process command filter (Prompt/System.v):
-> coq/theories/Gen/PromptFilter.v, checked by Prompt/FilterTie.v.

Pins the code facts the model relies on:
  * monitor.py, OnEvent.on_event_in_process: in `case events.OnStartPrompt()` the statement
    `context.open_prompts.add((event.trace_no, event.prompt_no))` comes BEFORE `await ahook.on_start_prompt(...)`;
    in `case events.OnEndPrompt()` `context.open_prompts.discard((event.trace_no, event.prompt_no))` comes BEFORE
    `await ahook.on_end_prompt(...)`; no other statement touches open_prompts there;
  * session.py, CommandSender.send_command: `context.send_command(command)` is reached only after
    `if isinstance(command, PdbCommand): if (command.trace_no, command.prompt_no) not in context.open_prompts: ... return`;
  * session.py, RunSession.run: `context.open_prompts.clear()` before the child is started (before `run_in_process`).
Anything of another shape raises; a fact that does not hold is written as `false` and breaks FilterTie.v."""
from __future__ import annotations

import ast
from pathlib import Path

OUTPUT = 'PromptFilter.v'


class Unsupported(Exception):
    pass


def _method(tree, cls, name):
    for c in tree.body:
        if isinstance(c, ast.ClassDef) and c.name == cls:
            for f in c.body:
                if isinstance(f, (ast.FunctionDef, ast.AsyncFunctionDef)) and f.name == name:
                    return f
    raise Unsupported(f'{cls}.{name} not found')


def _is_open_prompts_call(st, meth, arg_src=None):
    """`context.open_prompts.<meth>(...)` as an expression statement"""
    if not (isinstance(st, ast.Expr) and isinstance(st.value, ast.Call)):
        return False
    f = st.value.func
    ok = (isinstance(f, ast.Attribute) and f.attr == meth and isinstance(f.value, ast.Attribute) and f.value.attr == 'open_prompts'
          and isinstance(f.value.value, ast.Name) and f.value.value.id == 'context')
    if ok and arg_src is not None:
        ok = len(st.value.args) == 1 and not st.value.keywords and ast.unparse(st.value.args[0]) == arg_src
    return ok


def _is_ahook_await(st, hook):
    return (isinstance(st, ast.Expr) and isinstance(st.value, ast.Await) and isinstance(st.value.value, ast.Call)
            and isinstance(st.value.value.func, ast.Attribute) and st.value.value.func.attr == hook
            and isinstance(st.value.value.func.value, ast.Name) and st.value.value.func.value.id == 'ahook')


def _mentions_open_prompts(node) -> bool:
    return any(isinstance(n, ast.Attribute) and n.attr == 'open_prompts' for n in ast.walk(node))


def facts(repo: Path) -> dict:
    mon = ast.parse((repo / 'nextline/plugin/plugins/session/monitor.py').read_text())
    ses = ast.parse((repo / 'nextline/plugin/plugins/session/session.py').read_text())
    out = {}
    # --- monitor.py
    f = _method(mon, 'OnEvent', 'on_event_in_process')
    matches = [s for s in f.body if isinstance(s, ast.Match)]
    if len(matches) != 1:
        raise Unsupported('monitor.py: expected exactly one match statement in on_event_in_process')
    cases = {}
    for c in matches[0].cases:
        pat = c.pattern
        if isinstance(pat, ast.MatchClass) and isinstance(pat.cls, ast.Attribute) and not pat.patterns and not pat.kwd_patterns:
            if c.guard is not None:
                raise Unsupported('monitor.py: guarded case')
            cases[pat.cls.attr] = c.body
        elif isinstance(pat, ast.MatchAs) and pat.pattern is None:
            cases['_'] = c.body
        else:
            raise Unsupported(f'monitor.py:{pat.lineno}: unexpected case pattern')
    key = '(event.trace_no, event.prompt_no)'
    for ev, meth, hook, name in (('OnStartPrompt', 'add', 'on_start_prompt', 'add_before_start_hook'),
                                 ('OnEndPrompt', 'discard', 'on_end_prompt', 'discard_before_end_hook')):
        if ev not in cases:
            raise Unsupported(f'monitor.py: no case for {ev}')
        body = cases[ev]
        upd = [i for i, s in enumerate(body) if _is_open_prompts_call(s, meth, key)]
        hk = [i for i, s in enumerate(body) if _is_ahook_await(s, hook)]
        if len(hk) != 1:
            raise Unsupported(f'monitor.py: case {ev}: expected exactly one await ahook.{hook}(...)')
        others = [s for i, s in enumerate(body) if i not in upd and _mentions_open_prompts(s)]
        out[name] = len(upd) == 1 and upd[0] < hk[0] and not others
    stray = [ev for ev, body in cases.items() if ev not in ('OnStartPrompt', 'OnEndPrompt') and any(_mentions_open_prompts(s) for s in body)]
    out['no_other_update'] = not stray
    # --- session.py: CommandSender.send_command
    f = _method(ses, 'CommandSender', 'send_command')
    body = [s for s in f.body if not (isinstance(s, ast.Expr) and isinstance(s.value, ast.Constant))]
    sends = [i for i, s in enumerate(body) if isinstance(s, ast.Expr) and isinstance(s.value, ast.Call)
             and ast.unparse(s.value) == 'context.send_command(command)']
    if len(sends) != 1 or sends[0] != len(body) - 1:
        raise Unsupported('session.py: CommandSender.send_command does not end with exactly one context.send_command(command)')
    if any('send_command(' in ast.unparse(s) for s in body[:-1] if not isinstance(s, ast.Assert)):
        raise Unsupported('session.py: another call of send_command before the last statement')
    guarded = False
    for s in body[:-1]:
        if (isinstance(s, ast.If) and ast.unparse(s.test) == 'isinstance(command, PdbCommand)' and not s.orelse and len(s.body) == 1
                and isinstance(s.body[0], ast.If) and not s.body[0].orelse
                and ast.unparse(s.body[0].test) == '(command.trace_no, command.prompt_no) not in context.open_prompts'
                and isinstance(s.body[0].body[-1], ast.Return) and s.body[0].body[-1].value is None):
            guarded = True
    out['membership_test_guards_send'] = guarded
    # --- session.py: RunSession.run
    f = _method(ses, 'RunSession', 'run')
    idx_clear = [i for i, s in enumerate(f.body) if _is_open_prompts_call(s, 'clear') and not s.value.args]
    idx_start = [i for i, s in enumerate(f.body) if 'run_in_process' in ast.unparse(s)]
    if len(idx_start) != 1:
        raise Unsupported('session.py: RunSession.run: expected one statement that starts the child (run_in_process)')
    out['cleared_at_run_start'] = len(idx_clear) == 1 and idx_clear[0] < idx_start[0]
    return out


def translate(repo: Path) -> str:
    fs = facts(repo)
    lines = ['(* GENERATED by translate/prompt_filter.py from nextline/plugin/plugins/session/{monitor,session}.py -- do not edit *)']
    for k in ('add_before_start_hook', 'discard_before_end_hook', 'no_other_update', 'membership_test_guards_send', 'cleared_at_run_start'):
        lines.append(f'Definition {k} : bool := {"true" if fs[k] else "false"}.')
    return '\n'.join(lines) + '\n'
