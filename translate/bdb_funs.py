"""Fail-closed translator for the stop logic behind C05 -> Gen/BdbFuns.v

Translates with `ast` (expressions and statements are parsed by shape; no pinned source text)

  the INSTALLED CPython bdb.py (`import bdb; bdb.__file__`; VERIF_BDB=<file> overrides it, development only)
      Bdb.trace_dispatch, dispatch_line/call/return/exception, stop_here, _set_stopinfo,
      set_step/next/return/until                                  -> bdb_methods : list method
      (Bdb.set_continue and Bdb.reset are NOT translated: CustomizedPdb must override / never call them)
  nextline/spawned/plugin/plugins/pdb_/custom.py   CustomizedPdb
      __init__ (botframe, _set_stopinfo), set_continue and every other Bdb method it overrides
                                                                  -> custom_methods : list method
      cmdloop                                                     -> cmdloop_prog : cstmt
      the methods of Bdb/Pdb/Cmd it overrides                     -> custom_overrides : list string
  nextline/spawned/plugin/plugins/pdb_/factory.py
      CmdloopHook.cmdloop                                         -> cmdloop_hook_prog : list hstmt
      Factory._factory (a fresh CustomizedPdb per call, its trace_dispatch returned)  -> checked
  nextline/spawned/plugin/plugins/filter.py   every class with a `filter` hookimpl (+ helpers)
                                                                  -> filter_classes : list fclass
  nextline/spawned/plugin/plugins/__init__.py register            -> register_prog : rstmt
  nextline/spawned/plugin/plugins/global_.py  GlobalTraceFunc.global_trace_func -> global_trace_prog
  nextline/spawned/utils.py WithContext._local_trace              -> local_trace_prog
  nextline/spawned/call.py sys_trace                              -> sys_trace_thread_guarded : bool

into terms of coq/theories/Bdb/Syntax.v.  coq/theories/Bdb/Tie.v interprets them and proves them
equal to the functions of the hand-written Bdb/Model.v.

Fail closed: inside a translated function every statement must be recognised or be IGNORABLE
(docstring, `pass`, a `print(...)`/`logger.xxx(...)` call, `logger = getLogger(...)`, an
assignment to a private attribute that nothing tracked reads); anything else -- a loop, a `del`,
`sys.settrace`, an unknown call, a comparison of an unknown shape -- raises BdbError and
`./check C05` reports a broken tie obligation.
"""
from __future__ import annotations

import ast
import os
import sys
from pathlib import Path

OUTPUT = 'BdbFuns.v'

SRC_CUSTOM = 'nextline/spawned/plugin/plugins/pdb_/custom.py'
SRC_FACTORY = 'nextline/spawned/plugin/plugins/pdb_/factory.py'
SRC_FILTER = 'nextline/spawned/plugin/plugins/filter.py'
SRC_REGISTER = 'nextline/spawned/plugin/plugins/__init__.py'
SRC_GLOBAL = 'nextline/spawned/plugin/plugins/global_.py'
SRC_UTILS = 'nextline/spawned/utils.py'
SRC_CALL = 'nextline/spawned/call.py'
SRC_SPEC = 'nextline/spawned/plugin/spec.py'
SRC_RUNNER = 'nextline/spawned/runner.py'
SRC_LOCAL = 'nextline/spawned/plugin/plugins/local_.py'

BDB_METHODS = ['trace_dispatch', 'dispatch_line', 'dispatch_call', 'dispatch_return', 'dispatch_exception',
               'stop_here', '_set_stopinfo', 'set_until', 'set_step', 'set_next', 'set_return']
# methods of Bdb that are called by the translated ones and are given a meaning by hand in Bdb/Tie.v
BDB_PRIMITIVES = {'user_line', 'user_call', 'user_return', 'user_exception', 'break_here', 'break_anywhere',
                  'is_skipped_module'}
ATTRS = {'stopframe': 'AStopframe', 'returnframe': 'AReturnframe', 'botframe': 'ABotframe', 'stoplineno': 'AStoplineno',
         'quitting': 'AQuitting', 'frame_returning': 'AFrameReturning', 'skip': 'ASkip', 'breaks': 'ABreaks'}
READONLY_ATTRS = {'skip', 'breaks'}
CMPOPS = {ast.Is: 'OIs', ast.IsNot: 'OIsNot', ast.Eq: 'OEq', ast.NotEq: 'ONotEq', ast.GtE: 'OGtE', ast.Gt: 'OGt',
          ast.LtE: 'OLtE', ast.Lt: 'OLt'}
EXCS = {'StopIteration': 'XStopIteration', 'GeneratorExit': 'XGeneratorExit'}
# every method of Bdb whose behaviour the model depends on: CustomizedPdb may override only the ones
# in CUSTOM_TRANSLATED (translated) -- an override of another one is not understood
BDB_TRACKED = set(BDB_METHODS) | BDB_PRIMITIVES | {'set_continue', 'reset', 'set_trace', 'set_quit', 'get_stack', 'format_stack_entry'}
CUSTOM_TRANSLATED = set(BDB_METHODS) | {'set_continue'}
# methods of pdb.Pdb / cmd.Cmd between user_* and the prompt: an override is not understood, except the two below
PDB_TRACKED = {'interaction', '_cmdloop', 'cmdloop', 'setup', 'forget', 'onecmd', 'precmd', 'postcmd', 'preloop', 'postloop',
               'default', 'do_step', 'do_s', 'do_next', 'do_n', 'do_return', 'do_r', 'do_until', 'do_unt', 'do_continue',
               'do_c', 'do_cont', 'bp_commands', 'print_stack_entry', 'execRcLines', 'sigint_handler', 'do_quit', 'do_q',
               'do_exit', 'do_EOF', 'do_jump', 'do_j', 'do_up', 'do_down', 'do_u', 'do_d', 'do_debug', 'do_break', 'do_b',
               'do_tbreak', 'do_commands', 'message', 'error'}


class BdbError(Exception):
    pass


# ---------------------------------------------------------------- generic helpers

def norm(node) -> str:
    return ast.unparse(node).strip()


def q(s: str) -> str:
    if '"' in s or '\n' in s:
        raise BdbError(f'string literal {s!r} cannot be emitted')
    return '"' + s + '"'


def strip_doc(body):
    if body and isinstance(body[0], ast.Expr) and isinstance(body[0].value, ast.Constant) and isinstance(body[0].value.value, str):
        return body[1:]
    return body


def is_name(n, s: str) -> bool:
    return isinstance(n, ast.Name) and n.id == s


def is_attr_chain(n, chain: list[str]) -> bool:
    for part in reversed(chain[1:]):
        if not (isinstance(n, ast.Attribute) and n.attr == part):
            return False
        n = n.value
    return is_name(n, chain[0])


def find(body, kind, name, what=''):
    xs = [n for n in body if isinstance(n, kind) and n.name == name]
    if len(xs) != 1:
        raise BdbError(f'{what}: expected exactly one {kind.__name__} `{name}`, found {len(xs)}')
    return xs[0]


def parse(path: Path):
    if not path.exists():
        raise BdbError(f'{path} not found')
    return ast.parse(path.read_text())


def seq(items: list[str], skip='SSkip', ctor='SSeq') -> str:
    items = [i for i in items if i]
    if not items:
        return skip
    if len(items) == 1:
        return items[0]
    return f'({ctor} {items[0]} {seq(items[1:], skip, ctor)})'


def coq_list(items: list[str]) -> str:
    return '[' + '; '.join(items) + ']'


def zlit(v: int) -> str:
    return f'({v})%Z'


# ---------------------------------------------------------------- Part 1: methods of Bdb / CustomizedPdb

class Scope:
    def __init__(self, where: str, params: list[str]):
        self.where = where
        self.names = set(params)          # parameters and locals assigned so far


def tr_exp(n, sc: Scope) -> str:
    w = f'{sc.where}:{getattr(n, "lineno", "?")}'
    if isinstance(n, ast.Constant):
        if n.value is None:
            return 'ENone'
        if isinstance(n.value, bool):
            return f'(EBool {"true" if n.value else "false"})'
        if type(n.value) is int and abs(n.value) < 10 ** 6:
            return f'(EInt {zlit(n.value)})'
        if isinstance(n.value, str):
            return f'(EStr {q(n.value)})'
        raise BdbError(f'{w}: constant `{norm(n)}`')
    if isinstance(n, ast.UnaryOp) and isinstance(n.op, ast.USub) and isinstance(n.operand, ast.Constant) and type(n.operand.value) is int:
        return f'(EInt {zlit(-n.operand.value)})'
    if isinstance(n, ast.UnaryOp) and isinstance(n.op, ast.Not):
        return f'(ENot {tr_exp(n.operand, sc)})'
    if isinstance(n, ast.Name):
        if n.id in EXCS:
            return f'(EExc {EXCS[n.id]})'
        if n.id in sc.names:
            return f'(EVar {q(n.id)})'
        raise BdbError(f'{w}: name `{n.id}` is neither a parameter nor a local assigned before')
    if isinstance(n, ast.Attribute):
        if is_name(n.value, 'self'):
            if n.attr in ATTRS:
                return f'(ESelf {ATTRS[n.attr]})'
            if n.attr == 'trace_dispatch':
                return 'ETraceDispatch'
            raise BdbError(f'{w}: attribute `self.{n.attr}` is not tracked')
        if n.attr == 'f_back':
            return f'(EBack {tr_exp(n.value, sc)})'
        if n.attr == 'f_lineno':
            return f'(ELineno {tr_exp(n.value, sc)})'
        if n.attr == 'f_trace':
            return f'(EFTrace {tr_exp(n.value, sc)})'
        raise BdbError(f'{w}: attribute read `{norm(n)}`')
    if isinstance(n, ast.BinOp):
        if isinstance(n.op, ast.BitAnd) and is_name(n.right, 'GENERATOR_AND_COROUTINE_FLAGS') \
                and isinstance(n.left, ast.Attribute) and n.left.attr == 'co_flags' \
                and isinstance(n.left.value, ast.Attribute) and n.left.value.attr == 'f_code':
            return f'(EGenFlags {tr_exp(n.left.value.value, sc)})'
        if isinstance(n.op, ast.Add):
            return f'(EAdd {tr_exp(n.left, sc)} {tr_exp(n.right, sc)})'
        raise BdbError(f'{w}: operator in `{norm(n)}`')
    if isinstance(n, ast.BoolOp):
        ctor = 'EAnd' if isinstance(n.op, ast.And) else 'EOr'
        vals = [tr_exp(v, sc) for v in n.values]
        out = vals[-1]
        for v in reversed(vals[:-1]):
            out = f'({ctor} {v} {out})'
        return out
    if isinstance(n, ast.Compare):
        if len(n.ops) != 1:
            raise BdbError(f'{w}: chained comparison `{norm(n)}`')
        op, r = n.ops[0], n.comparators[0]
        if isinstance(op, ast.In):
            if isinstance(r, ast.Tuple) and r.elts and all(isinstance(x, ast.Name) and x.id in EXCS for x in r.elts):
                return f'(EIn {tr_exp(n.left, sc)} {coq_list([EXCS[x.id] for x in r.elts])})'
            raise BdbError(f'{w}: `in` with `{norm(r)}`')
        if type(op) not in CMPOPS:
            raise BdbError(f'{w}: comparison operator in `{norm(n)}`')
        return f'(ECmp {CMPOPS[type(op)]} {tr_exp(n.left, sc)} {tr_exp(r, sc)})'
    if isinstance(n, ast.Subscript):
        if isinstance(n.slice, ast.Constant) and type(n.slice.value) is int and 0 <= n.slice.value <= 2:
            return f'(EIndex {tr_exp(n.value, sc)} {n.slice.value})'
        raise BdbError(f'{w}: subscript `{norm(n)}`')
    if isinstance(n, ast.Call):
        f = n.func
        if isinstance(f, ast.Attribute) and is_name(f.value, 'self') and not n.keywords:
            if f.attr == 'is_skipped_module':
                # its argument is never evaluated by the stop logic (self.skip is None): kept opaque
                return f'(ECall {q(f.attr)} [EOpaque])'
            if f.attr in BDB_METHODS or f.attr in BDB_PRIMITIVES or f.attr == 'set_continue':
                return f'(ECall {q(f.attr)} {coq_list([tr_exp(a, sc) for a in n.args])})'
        raise BdbError(f'{w}: call `{norm(n)}`')
    raise BdbError(f'{w}: expression `{norm(n)}`')


EFFECTFUL = (ast.Call, ast.NamedExpr, ast.Await, ast.Yield, ast.YieldFrom, ast.Lambda, ast.GeneratorExp, ast.ListComp,
             ast.SetComp, ast.DictComp, ast.Starred)


def pure_text(n) -> bool:
    """an argument of a log / print call: no Call, NamedExpr, Await, Yield, comprehension anywhere in it
    (`repr(<name>)` / `str(<name>)` of a plain name is let through: bdb.py prints repr(event))"""
    if isinstance(n, ast.Call) and (is_name(n.func, 'repr') or is_name(n.func, 'str')) and len(n.args) == 1 and not n.keywords \
            and isinstance(n.args[0], ast.Name):
        return True
    return not any(isinstance(x, EFFECTFUL) for x in ast.walk(n))


def is_noise(st) -> bool:
    """The ONLY statements that are ignored in a translated function (shared rule for ignored positions):
         pass / a bare constant (docstring);
         print(...), logger.<level>(...), self._logger.<level>(...), getLogger(<name>).<level>(...)
             whose arguments contain no Call / NamedExpr / Await / Yield / comprehension;
         logger = getLogger(<name>);   msg = <such a text>  (the text of a log message).
       An `assert` is never noise."""
    if isinstance(st, ast.Pass):
        return True
    if isinstance(st, ast.Expr) and isinstance(st.value, ast.Constant):
        return True
    if isinstance(st, ast.Expr) and isinstance(st.value, ast.Call):
        c = st.value
        f = c.func
        if not all(pure_text(a) for a in c.args) or not all(k.arg is not None and pure_text(k.value) for k in c.keywords):
            return False
        if is_name(f, 'print'):
            return True
        if not isinstance(f, ast.Attribute) or f.attr not in ('debug', 'info', 'warning', 'error', 'exception', 'critical', 'log'):
            return False
        if isinstance(f.value, ast.Call) and is_name(f.value.func, 'getLogger') and all(isinstance(a, ast.Name) for a in f.value.args) \
                and not f.value.keywords:
            return True                 # getLogger(__name__).debug(...)
        return is_name(f.value, 'logger') or is_attr_chain(f.value, ['self', '_logger'])
    if isinstance(st, ast.Assign) and len(st.targets) == 1 and is_name(st.targets[0], 'logger'):
        v = st.value
        return isinstance(v, ast.Call) and is_name(v.func, 'getLogger') and all(isinstance(a, ast.Name) for a in v.args) and not v.keywords
    if isinstance(st, ast.Assign) and len(st.targets) == 1 and is_name(st.targets[0], 'msg'):
        return isinstance(st.value, (ast.JoinedStr, ast.Constant)) and pure_text(st.value)
    return False


def check_module_level(tree, where: str, allowed_assign=()) -> None:
    """module body: docstring, imports, def/class, `__all__`-like assignments of the names given; anything else
    (an attribute store = monkeypatch, a re-binding of a translated name, a call) is refused"""
    defined: dict[str, int] = {}
    for st in tree.body:
        if isinstance(st, ast.Expr) and isinstance(st.value, ast.Constant):
            continue
        if isinstance(st, (ast.Import, ast.ImportFrom)):
            for a in st.names:
                nm = (a.asname or a.name).split('.')[0]
                defined[nm] = defined.get(nm, 0) + 1
            continue
        if isinstance(st, (ast.FunctionDef, ast.AsyncFunctionDef, ast.ClassDef)):
            defined[st.name] = defined.get(st.name, 0) + 1
            continue
        if isinstance(st, ast.Assign) and len(st.targets) == 1 and isinstance(st.targets[0], ast.Name) and st.targets[0].id in allowed_assign \
                and pure_text(st.value):
            defined[st.targets[0].id] = defined.get(st.targets[0].id, 0) + 1
            continue
        raise BdbError(f'{where}:{st.lineno}: module-level statement `{norm(st).splitlines()[0]}` not recognised')
    twice = sorted(k for k, v in defined.items() if v > 1)
    if twice:
        raise BdbError(f'{where}: {twice} bound more than once at module level')


def imports_of(tree) -> dict:
    imp = {}
    for st in tree.body:
        if isinstance(st, ast.ImportFrom):
            for a in st.names:
                imp[a.asname or a.name] = ('.' * st.level + (st.module or ''), a.name)
        elif isinstance(st, ast.Import):
            for a in st.names:
                imp[a.asname or a.name.split('.')[0]] = (a.name, None)
    return imp


def check_class_body(cls, where: str) -> list:
    """class body: docstring and `def`s only (no class-level state, no nested class, no alias of a method)"""
    fns = []
    for st in strip_doc(cls.body):
        if isinstance(st, ast.FunctionDef):
            fns.append(st)
        elif isinstance(st, ast.Pass):
            continue
        else:
            raise BdbError(f'{where}:{st.lineno}: class-level statement `{norm(st).splitlines()[0]}`')
    names = [f.name for f in fns]
    if len(set(names)) != len(names):
        raise BdbError(f'{where}: a method is defined twice')
    return fns


def tr_body(body, sc: Scope, extra=None) -> str:
    return seq([tr_stmt(st, sc, extra) for st in strip_doc(body)])


def tr_stmt(st, sc: Scope, extra=None) -> str:
    w = f'{sc.where}:{getattr(st, "lineno", "?")}'
    if is_noise(st):
        return ''
    if extra is not None:
        r = extra(st, sc)
        if r is not None:
            return r
    if isinstance(st, ast.If):
        return f'(SIf {tr_exp(st.test, sc)} {tr_body(st.body, sc, extra)} {tr_body(st.orelse, sc, extra)})'
    if isinstance(st, ast.Return):
        return f'(SReturn {tr_exp(st.value, sc) if st.value is not None else "ENone"})'
    if isinstance(st, ast.Raise):
        if st.cause is None and (is_name(st.exc, 'BdbQuit') or (isinstance(st.exc, ast.Call) and is_name(st.exc.func, 'BdbQuit'))):
            return 'SRaiseBdbQuit'
        raise BdbError(f'{w}: `{norm(st)}`')
    if isinstance(st, ast.Try):
        if st.handlers or st.orelse or not st.finalbody:
            raise BdbError(f'{w}: try statement other than try/finally')
        return f'(STryFinally {tr_body(st.body, sc, extra)} {tr_body(st.finalbody, sc, extra)})'
    if isinstance(st, ast.Expr) and isinstance(st.value, ast.Call):
        return f'(SExpr {tr_exp(st.value, sc)})'
    if isinstance(st, ast.Assign) and len(st.targets) == 1:
        t = st.targets[0]
        if isinstance(t, ast.Attribute) and is_name(t.value, 'self'):
            if t.attr in ATTRS and t.attr not in READONLY_ATTRS:
                return f'(SSetSelf {ATTRS[t.attr]} {tr_exp(st.value, sc)})'
            raise BdbError(f'{w}: assignment to `self.{t.attr}`')
        if isinstance(t, ast.Attribute) and t.attr == 'f_trace':
            return f'(SSetFTrace {tr_exp(t.value, sc)} {tr_exp(st.value, sc)})'
        if isinstance(t, ast.Name):
            e = tr_exp(st.value, sc)
            sc.names.add(t.id)
            return f'(SSetLocal {q(t.id)} {e})'
    raise BdbError(f'{w}: statement `{norm(st).splitlines()[0]}` not recognised')


def tr_params(fn, where: str) -> list[tuple[str, str | None]]:
    a = fn.args
    if a.vararg or a.kwarg or a.posonlyargs or a.kwonlyargs:
        raise BdbError(f'{where}: *args/**kwargs/positional-only/keyword-only parameters')
    names = [x.arg for x in a.args]
    if not names or names[0] != 'self':
        raise BdbError(f'{where}: first parameter is not self')
    names = names[1:]
    defaults: list = [None] * (len(names) - len(a.defaults)) + list(a.defaults)
    sc = Scope(where, [])
    return [(n, tr_exp(d, sc) if d is not None else None) for n, d in zip(names, defaults)]


def tr_method(fn, where: str, extra=None, ignore_params=False) -> str:
    if fn.decorator_list:
        raise BdbError(f'{where}: decorators')
    params = [] if ignore_params else tr_params(fn, where)
    sc = Scope(where, [p for p, _ in params])
    body = tr_body(fn.body, sc, extra)
    ps = coq_list([f'({q(p)}, {"Some " + d if d else "None"})' for p, d in params])
    return f'mkM {q(fn.name)} {ps}\n    {body}'


def bdb_path() -> Path:
    p = os.environ.get('VERIF_BDB')
    if p:
        return Path(p)
    import bdb
    return Path(bdb.__file__)


def bdb_methods() -> list[str]:
    tree = parse(bdb_path())
    cls = find(tree.body, ast.ClassDef, 'Bdb', 'bdb.py')
    # GENERATOR_AND_COROUTINE_FLAGS = CO_GENERATOR | CO_COROUTINE | CO_ASYNC_GENERATOR
    flags = [st for st in tree.body if isinstance(st, ast.Assign) and len(st.targets) == 1 and is_name(st.targets[0], 'GENERATOR_AND_COROUTINE_FLAGS')]
    if len(flags) != 1 or not isinstance(flags[0].value, ast.BinOp):
        raise BdbError('bdb.py: GENERATOR_AND_COROUTINE_FLAGS')
    parts = set()

    def ors(n):
        if isinstance(n, ast.BinOp) and isinstance(n.op, ast.BitOr):
            ors(n.left)
            ors(n.right)
        elif isinstance(n, ast.Name):
            parts.add(n.id)
        else:
            raise BdbError('bdb.py: GENERATOR_AND_COROUTINE_FLAGS is not an `|` of names')
    ors(flags[0].value)
    if parts != {'CO_GENERATOR', 'CO_COROUTINE', 'CO_ASYNC_GENERATOR'}:
        raise BdbError(f'bdb.py: GENERATOR_AND_COROUTINE_FLAGS = {sorted(parts)}')
    out = []
    for name in BDB_METHODS:
        fn = find(cls.body, ast.FunctionDef, name, 'bdb.Bdb')
        out.append(tr_method(fn, f'bdb.Bdb.{name}'))
    return out


def custom_defs(repo: Path) -> dict:
    tree = parse(repo / SRC_CUSTOM)
    check_module_level(tree, SRC_CUSTOM)
    cls = find(tree.body, ast.ClassDef, 'CustomizedPdb', SRC_CUSTOM)
    if [norm(b) for b in cls.bases] != ['Pdb'] or cls.keywords or cls.decorator_list:
        raise BdbError('CustomizedPdb: bases/decorators')
    imp = imports_of(tree)
    if imp.get('Pdb') != ('pdb', 'Pdb'):
        raise BdbError('custom.py: `Pdb` is not `from pdb import Pdb`')
    if imp.get('NotOnTraceCall') != ('nextline.spawned.exc', 'NotOnTraceCall'):
        raise BdbError('custom.py: NotOnTraceCall import')
    methods: list[str] = []
    overrides: list[str] = []
    res: dict = {}
    for st in check_class_body(cls, 'CustomizedPdb'):
        name = st.name
        if name in overrides or name == '__init__' and 'init' in res:
            raise BdbError(f'CustomizedPdb.{name} defined twice')
        where = f'CustomizedPdb.{name}'
        if name == '__init__':
            check_init_signature(st)
            res['init'] = tr_method(st, where, extra=init_extra, ignore_params=True)
            continue
        overrides.append(name)
        if name == 'cmdloop':
            res['cmdloop'] = tr_cmdloop(st)
        elif name == '_cmdloop':
            check_underscore_cmdloop(st)
        elif name in CUSTOM_TRANSLATED:
            methods.append(tr_method(st, where))
        else:
            # any other method -- an override of a Bdb/Pdb/Cmd method (do_*, user_*, precmd, postcmd, onecmd, default,
            # message, error, interaction, ...), a dunder (__getattribute__, __setattr__ ...) or a new helper -- is refused
            raise BdbError(f'{where}: CustomizedPdb defines `{name}`: only __init__, cmdloop, _cmdloop, set_continue and '
                           f'overrides of the translated Bdb methods are understood')
    if 'init' not in res:
        raise BdbError('CustomizedPdb.__init__ missing')
    if 'cmdloop' not in res:
        raise BdbError('CustomizedPdb.cmdloop missing')
    if 'set_continue' not in overrides:
        raise BdbError('CustomizedPdb does not override set_continue (Bdb.set_continue calls sys.settrace(None))')
    res['methods'] = methods
    res['overrides'] = overrides
    return res


def init_extra(st, sc: Scope):
    """CustomizedPdb.__init__: `super().__init__(stdin=<name>, stdout=<name>, nosigint=True, readrc=False)` (no skip: Bdb.skip
    stays None; no .pdbrc commands) and `self._cmdloop_hook = cmdloop_hook` have no effect on the stop logic; nothing else is let through"""
    w = f'{sc.where}:{st.lineno}'
    if isinstance(st, ast.Expr) and isinstance(st.value, ast.Call):
        c = st.value
        f = c.func
        if isinstance(f, ast.Attribute) and f.attr == '__init__' and isinstance(f.value, ast.Call) and is_name(f.value.func, 'super') \
                and not f.value.args and not f.value.keywords:
            kws = {k.arg: k.value for k in c.keywords}
            if c.args or None in kws or set(kws) - {'stdin', 'stdout', 'nosigint', 'readrc'}:
                raise BdbError(f'{w}: super().__init__ with positional arguments / **kwargs / skip= / completekey= (only stdin, stdout, nosigint, readrc)')
            if not (isinstance(kws.get('nosigint'), ast.Constant) and kws['nosigint'].value is True):
                raise BdbError(f'{w}: super().__init__ without nosigint=True')
            if not (isinstance(kws.get('readrc'), ast.Constant) and kws['readrc'].value is False):
                raise BdbError(f'{w}: super().__init__ without readrc=False (a .pdbrc file would issue commands)')
            for k in ('stdin', 'stdout'):
                if k in kws and not isinstance(kws[k], ast.Name):
                    raise BdbError(f'{w}: super().__init__({k}=<not a plain name>)')
            if sc.__dict__.get('super_init'):
                raise BdbError(f'{w}: super().__init__ called twice')
            sc.super_init = True
            return ''
    if isinstance(st, ast.Assign) and len(st.targets) == 1 and is_attr_chain(st.targets[0], ['self', '_cmdloop_hook']):
        if not is_name(st.value, 'cmdloop_hook'):
            raise BdbError(f'{w}: self._cmdloop_hook is not the parameter cmdloop_hook')
        return ''
    return None


def check_init_signature(fn) -> None:
    a = fn.args
    if [x.arg for x in a.args] != ['self', 'cmdloop_hook', 'stdin', 'stdout'] or a.defaults or a.vararg or a.kwarg or a.kwonlyargs \
            or a.posonlyargs or fn.decorator_list:
        raise BdbError('CustomizedPdb.__init__: parameters other than (self, cmdloop_hook, stdin, stdout) / defaults / decorators')


def check_underscore_cmdloop(fn) -> None:
    """_cmdloop(self): self.cmdloop()"""
    if fn.decorator_list or [a.arg for a in fn.args.args] != ['self'] or fn.args.vararg or fn.args.kwarg or fn.args.kwonlyargs:
        raise BdbError('CustomizedPdb._cmdloop: decorators/parameters')
    body = strip_doc(fn.body)
    body = [st for st in body if not is_noise(st)]
    ok = len(body) == 1 and isinstance(body[0], ast.Expr) and isinstance(body[0].value, ast.Call) \
        and is_attr_chain(body[0].value.func, ['self', 'cmdloop']) and not body[0].value.args and not body[0].value.keywords
    if not ok:
        raise BdbError('CustomizedPdb._cmdloop is not `self.cmdloop()`')


def tr_cmdloop(fn) -> str:
    where = 'CustomizedPdb.cmdloop'
    a = fn.args
    if fn.decorator_list or [x.arg for x in a.args] != ['self', 'intro'] or a.vararg or a.kwarg or a.kwonlyargs or a.posonlyargs \
            or len(a.defaults) != 1 or not (isinstance(a.defaults[0], ast.Constant) and a.defaults[0].value is None):
        raise BdbError(f'{where}: decorators / parameters other than (self, intro=None)')
    sc = Scope(where, [])

    def cbody(sts) -> str:
        return seq([cstmt(s) for s in strip_doc(sts)], 'CSkip', 'CSeq')

    def cstmt(st) -> str:
        w = f'{where}:{st.lineno}'
        if is_noise(st):
            return ''
        if isinstance(st, ast.Try):
            if st.orelse or st.finalbody or len(st.handlers) != 1:
                raise BdbError(f'{w}: try statement other than try/except NotOnTraceCall')
            h = st.handlers[0]
            if not is_name(h.type, 'NotOnTraceCall') or h.name is not None:
                raise BdbError(f'{w}: handler of `{norm(h.type) if h.type else "everything"}`')
            return f'(CTryExceptNotOnTraceCall {cbody(st.body)} {tr_body(h.body, sc)})'
        if isinstance(st, ast.With):
            ok = len(st.items) == 1 and st.items[0].optional_vars is None
            c = st.items[0].context_expr if ok else None
            ok = ok and isinstance(c, ast.Call) and is_attr_chain(c.func, ['self', '_cmdloop_hook']) and not c.args and not c.keywords
            if not ok:
                raise BdbError(f'{w}: `with` other than `with self._cmdloop_hook():`')
            return f'(CWithCmdloopHook {cbody(st.body)})'
        if isinstance(st, ast.Expr) and isinstance(st.value, ast.Call):
            c = st.value
            f = c.func
            if isinstance(f, ast.Attribute) and f.attr == 'cmdloop' and isinstance(f.value, ast.Call) and is_name(f.value.func, 'super') \
                    and not f.value.args and not f.value.keywords and not c.args \
                    and [(k.arg, norm(k.value)) for k in c.keywords] in ([('intro', 'intro')], []):
                return 'CSuperCmdloop'
        raise BdbError(f'{w}: statement `{norm(st).splitlines()[0]}` not recognised')

    return cbody(fn.body)


def factory_defs(repo: Path) -> dict:
    tree = parse(repo / SRC_FACTORY)
    check_module_level(tree, SRC_FACTORY)
    ch = find(tree.body, ast.FunctionDef, 'CmdloopHook', SRC_FACTORY)
    if ch.decorator_list or [a.arg for a in ch.args.args] != ['hook'] or ch.args.defaults:
        raise BdbError('factory.CmdloopHook: decorators/parameters')
    inner = [st for st in strip_doc(ch.body) if isinstance(st, ast.FunctionDef)]
    rest = [st for st in strip_doc(ch.body) if not isinstance(st, ast.FunctionDef)]
    if len(inner) != 1 or len(rest) != 1 or not (isinstance(rest[0], ast.Return) and is_name(rest[0].value, inner[0].name)):
        raise BdbError('factory.CmdloopHook: expected one inner function, returned')
    if inner[0].decorator_list or inner[0].args.args or inner[0].args.vararg or inner[0].args.kwarg or inner[0].args.kwonlyargs:
        raise BdbError('factory.CmdloopHook: the inner function has decorators/parameters')
    prog = []
    for st in strip_doc(inner[0].body):
        w = f'factory.CmdloopHook:{st.lineno}'
        if is_noise(st):
            continue
        if isinstance(st, ast.If) and not st.orelse and len(st.body) == 1 and isinstance(st.body[0], ast.Raise) \
                and is_name(st.body[0].exc, 'NotOnTraceCall') and isinstance(st.test, ast.UnaryOp) and isinstance(st.test.op, ast.Not) \
                and isinstance(st.test.operand, ast.Call) and is_attr_chain(st.test.operand.func, ['hook', 'hook', 'is_on_trace_call']) \
                and not st.test.operand.args and not st.test.operand.keywords:
            prog.append('HIfNotOnTraceCallRaise')
        elif isinstance(st, ast.Return) and isinstance(st.value, ast.Call) and is_attr_chain(st.value.func, ['hook', 'with_', 'on_cmdloop']) \
                and not st.value.args and not st.value.keywords:
            prog.append('HReturnOnCmdloop')
        else:
            raise BdbError(f'{w}: statement `{norm(st).splitlines()[0]}` not recognised')
    # Factory: cmdloop_hook = CmdloopHook(hook=hook); _factory: pdb = CustomizedPdb(cmdloop_hook=cmdloop_hook, ...); return pdb.trace_dispatch
    fa = find(tree.body, ast.FunctionDef, 'Factory', SRC_FACTORY)
    hook_assign = [st for st in fa.body if isinstance(st, ast.Assign) and len(st.targets) == 1 and is_name(st.targets[0], 'cmdloop_hook')]
    if len(hook_assign) != 1 or ast.dump(hook_assign[0].value) != ast.dump(ast.parse('CmdloopHook(hook=hook)', mode='eval').body):
        raise BdbError('factory.Factory: cmdloop_hook is not CmdloopHook(hook=hook)')
    if fa.decorator_list or [a.arg for a in fa.args.args] != ['hook']:
        raise BdbError('factory.Factory: decorators/parameters')
    for st in strip_doc(fa.body):
        if st is hook_assign[0] or isinstance(st, ast.FunctionDef):
            continue
        if isinstance(st, ast.Assign) and len(st.targets) == 1 and is_name(st.targets[0], 'prompt_func') \
                and ast.dump(st.value) == ast.dump(ast.parse('PromptFunc(hook=hook)', mode='eval').body):
            continue
        if isinstance(st, ast.Return) and is_name(st.value, '_factory'):
            continue
        raise BdbError(f'factory.Factory:{st.lineno}: statement `{norm(st).splitlines()[0]}` not recognised')
    inner_f = [st for st in fa.body if isinstance(st, ast.FunctionDef)]
    if len(inner_f) != 1 or inner_f[0].name != '_factory' or inner_f[0].decorator_list or inner_f[0].args.args:
        raise BdbError('factory.Factory: expected one inner function `_factory()` without decorators')
    made = False
    returned = False
    for st in strip_doc(inner_f[0].body):
        if isinstance(st, ast.Assign) and len(st.targets) == 1 and is_name(st.targets[0], 'pdb'):
            c = st.value
            if not (isinstance(c, ast.Call) and is_name(c.func, 'CustomizedPdb')) or c.args:
                raise BdbError('factory._factory: pdb is not CustomizedPdb(...)')
            kws = {k.arg: k.value for k in c.keywords}
            if not is_name(kws.get('cmdloop_hook'), 'cmdloop_hook'):
                raise BdbError('factory._factory: CustomizedPdb(cmdloop_hook=...) is not the CmdloopHook')
            if set(kws) != {'cmdloop_hook', 'stdin', 'stdout'} or not all(isinstance(v, ast.Name) for v in kws.values()) or made:
                raise BdbError('factory._factory: CustomizedPdb(...) arguments / created twice')
            made = True
        elif isinstance(st, ast.Return):
            if not (made and is_attr_chain(st.value, ['pdb', 'trace_dispatch'])):
                raise BdbError(f'factory._factory: `{norm(st)}` is not `return pdb.trace_dispatch` of a fresh CustomizedPdb')
            returned = True
        elif isinstance(st, ast.Assign) and len(st.targets) == 1 and is_name(st.targets[0], 'stdio') \
                and ast.dump(st.value) == ast.dump(ast.parse('StdInOut(prompt_func=prompt_func)', mode='eval').body):
            continue                    # the stream object of this Pdb (C07/C13): pinned shape
        elif isinstance(st, ast.Assign) and len(st.targets) == 1 and is_attr_chain(st.targets[0], ['stdio', 'prompt_end']) \
                and is_attr_chain(st.value, ['pdb', 'prompt']):
            continue
        elif is_noise(st):
            continue
        else:
            raise BdbError(f'factory._factory:{st.lineno}: statement `{norm(st).splitlines()[0]}` not recognised')
    if not returned:
        raise BdbError('factory._factory: no `return pdb.trace_dispatch`')
    imp = [st for st in tree.body if isinstance(st, ast.ImportFrom) and st.level == 1 and st.module == 'custom'
           and any(a.name == 'CustomizedPdb' and a.asname is None for a in st.names)]
    if len(imp) != 1:
        raise BdbError('factory.py: `from .custom import CustomizedPdb`')
    # PdbInstanceFactory: init -> self._factory = Factory(hook=hook); create_local_trace_func -> return self._factory()   (pin)
    pf = find(tree.body, ast.ClassDef, 'PdbInstanceFactory', SRC_FACTORY)
    if pf.bases or pf.keywords or pf.decorator_list:
        raise BdbError('PdbInstanceFactory: bases/decorators')
    want = {'init': "self._factory = Factory(hook=hook)", 'create_local_trace_func': "return self._factory()"}
    got = {}
    for fn in check_class_body(pf, 'PdbInstanceFactory'):
        if fn.name not in want or hookimpl_info(fn, f'PdbInstanceFactory.{fn.name}') is not False:
            raise BdbError(f'PdbInstanceFactory.{fn.name}: unexpected method / not a plain hookimpl')
        body = [st for st in strip_doc(fn.body) if not is_noise(st)]
        if len(body) != 1 or ast.dump(body[0]) != ast.dump(ast.parse(want[fn.name]).body[0]):
            raise BdbError(f'PdbInstanceFactory.{fn.name} is not `{want[fn.name]}`')
        got[fn.name] = True
    if set(got) != set(want):
        raise BdbError('PdbInstanceFactory: init / create_local_trace_func missing')
    return {'hook': coq_list(prog)}


# ---------------------------------------------------------------- Part 3: filters, registration, global trace function

class FScope:
    def __init__(self, where: str, trace_args: str):
        self.where = where
        self.trace_args = trace_args
        self.env: dict[str, str] = {}       # single-assignment locals -> ('frame' | an sv term | ('cond', term))


def hookimpl_info(fn, where: str):
    """None if not a hookimpl, else trylast"""
    for d in fn.decorator_list:
        if is_name(d, 'hookimpl'):
            if len(fn.decorator_list) != 1:
                raise BdbError(f'{where}: decorators besides hookimpl')
            return False
        if isinstance(d, ast.Call) and is_name(d.func, 'hookimpl'):
            if len(fn.decorator_list) != 1:
                raise BdbError(f'{where}: decorators besides hookimpl')
            kw = {k.arg: k.value for k in d.keywords}
            if d.args or set(kw) - {'trylast'}:
                raise BdbError(f'{where}: hookimpl options other than trylast')
            tl = kw.get('trylast')
            if tl is None:
                return False
            if not (isinstance(tl, ast.Constant) and isinstance(tl.value, bool)):
                raise BdbError(f'{where}: trylast is not a literal')
            return tl.value
    return None


def tr_sv(n, sc: FScope) -> str:
    w = f'{sc.where}:{getattr(n, "lineno", "?")}'
    if isinstance(n, ast.Constant) and isinstance(n.value, str):
        return f'(XStr {q(n.value)})'
    if isinstance(n, ast.Constant) and n.value is None:
        return 'XNone'
    if is_attr_chain(n, ['_script', '__name__']):
        return 'XScriptName'
    if isinstance(n, ast.Name) and n.id in sc.env and isinstance(sc.env[n.id], str) and sc.env[n.id] != 'frame':
        return sc.env[n.id]
    if isinstance(n, ast.Attribute) and n.attr == 'co_name' and isinstance(n.value, ast.Attribute) and n.value.attr == 'f_code' \
            and is_frame(n.value.value, sc):
        return 'XCoName'
    if isinstance(n, ast.Call) and isinstance(n.func, ast.Attribute) and n.func.attr == 'get' and isinstance(n.func.value, ast.Attribute) \
            and n.func.value.attr == 'f_globals' and is_frame(n.func.value.value, sc) and len(n.args) == 1 and not n.keywords \
            and isinstance(n.args[0], ast.Constant) and n.args[0].value == '__name__':
        return 'XModName'
    raise BdbError(f'{w}: value `{norm(n)}` not recognised')


def is_frame(n, sc: FScope) -> bool:
    if isinstance(n, ast.Name) and sc.env.get(n.id) == 'frame':
        return True
    return isinstance(n, ast.Subscript) and is_name(n.value, sc.trace_args) and isinstance(n.slice, ast.Constant) and n.slice.value == 0


def tr_fcond(n, sc: FScope) -> str:
    w = f'{sc.where}:{getattr(n, "lineno", "?")}'
    if isinstance(n, ast.UnaryOp) and isinstance(n.op, ast.Not):
        return f'(CNot {tr_fcond(n.operand, sc)})'
    if isinstance(n, ast.Name) and isinstance(sc.env.get(n.id), tuple):
        return sc.env[n.id][1]
    if isinstance(n, ast.Compare) and len(n.ops) == 1:
        op, l, r = n.ops[0], n.left, n.comparators[0]
        if isinstance(op, ast.Eq):
            if is_attr_chain(l, ['self', '_entering_thread']) and isinstance(r, ast.Call) and is_attr_chain(r.func, ['threading', 'current_thread']) \
                    and not r.args and not r.keywords:
                return 'CEnteringHere'
            return f'(CEq {tr_sv(l, sc)} {tr_sv(r, sc)})'
        if isinstance(op, ast.Is) and isinstance(r, ast.Constant) and r.value is None:
            return f'(CIsNone {tr_sv(l, sc)})'
        if isinstance(op, ast.In):
            if is_attr_chain(r, ['self', '_modules_to_trace']):
                return f'(CInMods {tr_sv(l, sc)})'
            if is_attr_chain(r, ['self', '_traced_tasks_and_threads']) and is_task_or_thread(l, sc):
                return 'CTraced'
        raise BdbError(f'{w}: comparison `{norm(n)}` not recognised')
    if is_attr_chain(n, ['self', '_first_module_added']):
        return 'CFirstAdded'
    if isinstance(n, ast.Call) and not n.keywords:
        f = n.func
        if is_attr_chain(f, ['self', '_match_any_']) and len(n.args) == 1:
            sc.uses_match_any = True
            return f'(CSkipMatch {tr_sv(n.args[0], sc)})'
        if is_name(f, 'match_any') and len(n.args) == 2 and is_attr_chain(n.args[1], ['self', '_modules_to_trace']):
            return f'(CMatchMods {tr_sv(n.args[0], sc)})'
        if isinstance(f, ast.Attribute) and is_name(f.value, 'self') and len(n.args) == 1 and is_name(n.args[0], sc.trace_args):
            return f'(CCallSelf {q(f.attr)})'
    raise BdbError(f'{w}: condition `{norm(n)}` not recognised')


def is_task_or_thread(n, sc: FScope) -> bool:
    if isinstance(n, ast.Name) and sc.env.get(n.id) == ('tot',):
        return True
    return isinstance(n, ast.Call) and is_name(n.func, 'current_task_or_thread') and not n.args and not n.keywords


def tr_fbody(sts, sc: FScope) -> str:
    return seq([tr_fstmt(s, sc) for s in strip_doc(sts)], 'FSkip', 'FSeq')


def tr_fstmt(st, sc: FScope) -> str:
    w = f'{sc.where}:{st.lineno}'
    if is_noise(st):
        return ''
    if isinstance(st, ast.If):
        return f'(FIf {tr_fcond(st.test, sc)} {tr_fbody(st.body, sc)} {tr_fbody(st.orelse, sc)})'
    if isinstance(st, ast.Return):
        v = st.value
        if v is None or (isinstance(v, ast.Constant) and v.value is None):
            return '(FReturn FRNone)'
        if isinstance(v, ast.Constant) and isinstance(v.value, bool):
            return f'(FReturn (FRBool {"true" if v.value else "false"}))'
        if isinstance(v, ast.BoolOp) and isinstance(v.op, ast.Or) and len(v.values) == 2 and isinstance(v.values[1], ast.Constant) \
                and v.values[1].value is None:
            return f'(FReturn (FROrNone {tr_fcond(v.values[0], sc)}))'
        return f'(FReturn (FRCond {tr_fcond(v, sc)}))'
    if isinstance(st, ast.Assign) and len(st.targets) == 1:
        t, v = st.targets[0], st.value
        if isinstance(t, ast.Name):
            if t.id in sc.env:
                raise BdbError(f'{w}: local `{t.id}` assigned twice')
            if is_frame(v, sc):
                sc.env[t.id] = 'frame'
                return ''
            if is_task_or_thread(v, sc):
                sc.env[t.id] = ('tot',)
                return ''
            try:
                sc.env[t.id] = tr_sv(v, sc)
            except BdbError:
                sc.env[t.id] = ('cond', tr_fcond(v, sc))
            return ''
        if isinstance(t, ast.Tuple) and len(t.elts) == 3 and all(isinstance(x, ast.Name) for x in t.elts) and is_name(v, sc.trace_args):
            if t.elts[0].id in sc.env:
                raise BdbError(f'{w}: local `{t.elts[0].id}` assigned twice')
            sc.env[t.elts[0].id] = 'frame'
            return ''
        if is_attr_chain(t, ['self', '_first_module_added']) and isinstance(v, ast.Constant) and isinstance(v.value, bool):
            return f'(FSetFirstAdded {"true" if v.value else "false"})'
    if isinstance(st, ast.Expr) and isinstance(st.value, ast.Call) and not st.value.keywords:
        c = st.value
        f = c.func
        if is_attr_chain(f, ['self', '_traced_tasks_and_threads', 'add']) and len(c.args) == 1 and is_task_or_thread(c.args[0], sc):
            return 'FTracedAdd'
        if is_attr_chain(f, ['self', '_modules_to_trace', 'add']) and len(c.args) == 1:
            return f'(FModsAdd {tr_sv(c.args[0], sc)})'
        if isinstance(f, ast.Attribute) and is_name(f.value, 'self') and len(c.args) == 1 and is_name(c.args[0], sc.trace_args):
            return f'(FCallSelf {q(f.attr)})'
    raise BdbError(f'{w}: statement `{norm(st).splitlines()[0]}` not recognised')


def check_match_any(cls) -> None:
    """self._match_any_ = lru_cache(partial(match_any, patterns=modules_to_skip)) in init(self, modules_to_skip)"""
    init = [f for f in cls.body if isinstance(f, ast.FunctionDef) and f.name == 'init']
    if len(init) != 1 or [a.arg for a in init[0].args.args] != ['self', 'modules_to_skip']:
        raise BdbError(f'filter.py: {cls.name}.init(self, modules_to_skip)')
    want = ast.dump(ast.parse('self._match_any_ = lru_cache(partial(match_any, patterns=modules_to_skip))').body[0])
    if not any(ast.dump(st) == want for st in init[0].body):
        raise BdbError(f'filter.py: {cls.name}._match_any_ is not lru_cache(partial(match_any, patterns=modules_to_skip))')


def filter_defs(repo: Path) -> list[str]:
    tree = parse(repo / SRC_FILTER)
    check_module_level(tree, SRC_FILTER)
    imp = imports_of(tree)
    want_imp = {'_script': ('.', '_script'), 'match_any': ('nextline.utils', 'match_any'),
                'current_task_or_thread': ('nextline.utils', 'current_task_or_thread'), 'threading': ('threading', None),
                'lru_cache': ('functools', 'lru_cache'), 'partial': ('functools', 'partial'),
                'hookimpl': ('nextline.spawned.plugin.spec', 'hookimpl')}
    for k, v in want_imp.items():
        if imp.get(k) != v:
            raise BdbError(f'filter.py: `{k}` is {imp.get(k)}, expected {v}')
    out = []
    for cls in tree.body:
        if not isinstance(cls, ast.ClassDef):
            continue
        fns = {f.name: f for f in cls.body if isinstance(f, ast.FunctionDef)}
        flt = fns.get('filter')
        if flt is None or hookimpl_info(flt, f'{cls.name}.filter') is None:
            if flt is not None or any(isinstance(x, ast.Attribute) and x.attr in STATE_ATTRS for x in ast.walk(cls)):
                raise BdbError(f'filter.py: {cls.name}: a `filter` that is not a hookimpl / a class touching the filters\' state')
            continue
        check_class_body(cls, cls.name)
        for f in fns.values():
            if f.name.startswith('__') and f.name != '__init__':
                raise BdbError(f'filter.py: {cls.name}.{f.name}: special methods are not understood')
        if cls.bases or cls.keywords or cls.decorator_list:
            raise BdbError(f'filter.py: {cls.name}: bases/decorators')
        trylast = hookimpl_info(flt, f'{cls.name}.filter')
        if [a.arg for a in flt.args.args] != ['self', 'trace_args'] or flt.args.defaults or flt.args.vararg or flt.args.kwarg or flt.args.kwonlyargs:
            raise BdbError(f'{cls.name}.filter: parameters')
        sc = FScope(f'{cls.name}.filter', 'trace_args')
        body = tr_fbody(flt.body, sc)
        if getattr(sc, 'uses_match_any', False):
            check_match_any(cls)
        helpers = []
        todo = helper_calls(body)
        seen = set()
        while todo:
            h = todo.pop(0)
            if h in seen:
                continue
            seen.add(h)
            hf = fns.get(h)
            if hf is None or hf.decorator_list or [a.arg for a in hf.args.args] != ['self', 'trace_args'] or hf.args.defaults:
                raise BdbError(f'{cls.name}.{h}: helper not found / decorated / parameters')
            hsc = FScope(f'{cls.name}.{h}', 'trace_args')
            hb = tr_fbody(hf.body, hsc)
            helpers.append(f'({q(h)}, {hb})')
            todo += helper_calls(hb)
        # who else writes the state the filter reads?  only __init__ (initial values) and on_cmdloop (modelled by c_mods0)
        for name, f in fns.items():
            if name in ('filter', '__init__') or name in seen:
                continue
            check_sibling(cls.name, f)
        if '__init__' in fns:
            check_filer_init(cls.name, fns['__init__'])
        out.append(f'mkFC {q(cls.name)} (Some ({"true" if trylast else "false"},\n    {body}))\n    {coq_list(helpers)}')
    return out


STATE_ATTRS = ('_modules_to_trace', '_first_module_added', '_traced_tasks_and_threads', '_entering_thread', '_match_any_', '_patterns')

# the other methods of a filter class that may touch its state, statement by statement (pins; what they mean for the
# model: `context` makes the entering thread the one that runs the script (c_entering), `on_cmdloop` adds the module of
# every prompt (c_mods0 of the OTHER streams), FilterByModuleName.init fixes the skip patterns)
SIBLINGS = {
    ('FilerByModule', 'context'): ['self._entering_thread = threading.current_thread()', 'yield'],
    ('FilerByModule', 'on_cmdloop'): ['trace_args = self._hook.hook.current_trace_args()', 'self._add(trace_args)', 'yield'],
    ('FilerByModule', 'init'): ['self._hook = hook'],
    ('FilterByModuleName', 'init'): ['self._patterns = frozenset(modules_to_skip)',
                                     'self._match_any_ = lru_cache(partial(match_any, patterns=modules_to_skip))'],
}


def check_sibling(cname: str, fn) -> None:
    touches = any(isinstance(x, ast.Attribute) and x.attr in STATE_ATTRS for x in ast.walk(fn)) \
        or any(isinstance(x, ast.Call) and isinstance(x.func, ast.Attribute) and is_name(x.func.value, 'self') for x in ast.walk(fn))
    want = SIBLINGS.get((cname, fn.name))
    if want is None:
        if touches:
            raise BdbError(f'{cname}.{fn.name}: touches the state of the filter / calls a method of it')
        return
    body = [st for st in strip_doc(fn.body) if not is_noise(st)]
    if [ast.dump(st) for st in body] != [ast.dump(ast.parse('def f():\n    ' + w).body[0].body[0]) for w in want]:
        raise BdbError(f'{cname}.{fn.name}: body differs from {want}')


def helper_calls(term: str) -> list[str]:
    import re
    return re.findall(r'\((?:FCallSelf|CCallSelf) "([^"]+)"\)', term)


def check_filer_init(cname: str, fn) -> None:
    """initial values: _modules_to_trace empty set, _first_module_added False, _traced_tasks_and_threads empty set"""
    want = {'_modules_to_trace': 'set', '_first_module_added': False, '_traced_tasks_and_threads': 'set'}
    got = {}
    for st in strip_doc(fn.body):
        t = st.targets[0] if isinstance(st, ast.Assign) and len(st.targets) == 1 else (st.target if isinstance(st, ast.AnnAssign) else None)
        if isinstance(t, ast.Attribute) and is_name(t.value, 'self') and t.attr in want:
            v = st.value
            if isinstance(v, ast.Constant) and v.value is False:
                got[t.attr] = False
            elif isinstance(v, ast.Call) and not v.args and not v.keywords and (is_name(v.func, 'set') or (isinstance(v.func, ast.Subscript) and is_name(v.func.value, 'set'))):
                got[t.attr] = 'set'
            else:
                raise BdbError(f'{cname}.__init__: initial value of {t.attr}')
    for k, v in want.items():
        if k in got and got[k] != v:
            raise BdbError(f'{cname}.__init__: initial value of {k}')
    if any(k not in got for k in want) and got:
        raise BdbError(f'{cname}.__init__: not all of {sorted(want)} are initialised')


def register_prog(repo: Path) -> str:
    tree = parse(repo / SRC_REGISTER)
    check_module_level(tree, SRC_REGISTER, allowed_assign=('__all__',))
    fn = find(tree.body, ast.FunctionDef, 'register', SRC_REGISTER)
    if [a.arg for a in fn.args.args] != ['hook', 'run_arg'] or fn.decorator_list:
        raise BdbError('register: parameters/decorators')

    def body(sts) -> str:
        out = []
        for st in strip_doc(sts):
            w = f'register:{st.lineno}'
            if isinstance(st, ast.If):
                if not is_attr_chain(st.test, ['run_arg', 'trace_modules']):
                    raise BdbError(f'{w}: condition `{norm(st.test)}` is not run_arg.trace_modules')
                out.append(f'(RIfTraceModules {body(st.body)} {body(st.orelse)})')
            elif isinstance(st, ast.Expr) and isinstance(st.value, ast.Call) and is_attr_chain(st.value.func, ['hook', 'register']) \
                    and len(st.value.args) == 1 and not st.value.keywords and isinstance(st.value.args[0], ast.Name):
                out.append(f'(RRegister {q(st.value.args[0].id)})')
            elif is_noise(st):
                continue
            else:
                raise BdbError(f'{w}: statement `{norm(st).splitlines()[0]}` not recognised')
        return seq(out, 'RSkip', 'RSeq')

    # the names registered are the classes of filter.py (no aliasing)
    imported = imports_of(tree)
    for name, (mod, orig) in imported.items():
        if mod == '.filter' and name != orig:
            raise BdbError(f'plugins/__init__.py: filter class {orig} imported as {name}')
        if mod != '.filter' and (orig or '').startswith(('Filter', 'Filer')):
            raise BdbError(f'plugins/__init__.py: {orig} imported from {mod}')
    for nm in ('FilerByModule', 'FilterLambda', 'FilterByModuleName', 'FilterMainScript'):
        if nm in imported and imported[nm] != ('.filter', nm):
            raise BdbError(f'plugins/__init__.py: {nm} is {imported[nm]}')
    if imported.get('GlobalTraceFunc') != ('.global_', 'GlobalTraceFunc') or imported.get('PdbInstanceFactory') != ('.pdb_', 'PdbInstanceFactory'):
        raise BdbError('plugins/__init__.py: GlobalTraceFunc / PdbInstanceFactory imports')
    return body(fn.body)


def other_filter_impls(repo: Path) -> None:
    """no `filter` hookimpl outside filter.py; the spec is firstresult"""
    base = repo / 'nextline' / 'spawned' / 'plugin'
    for p in sorted((base / 'plugins').rglob('*.py')):
        if p.name == 'filter.py':
            continue
        for cls in ast.walk(parse(p)):
            if isinstance(cls, ast.ClassDef):
                for f in cls.body:
                    if isinstance(f, ast.FunctionDef) and f.name == 'filter' and hookimpl_info(f, f'{p.name}:{cls.name}.filter') is not None:
                        raise BdbError(f'{p}: a `filter` hook implementation outside filter.py')
    spec = parse(repo / SRC_SPEC)
    fs = [n for n in spec.body if isinstance(n, ast.FunctionDef) and n.name == 'filter']
    want = ast.dump(ast.parse('hookspec(firstresult=True)', mode='eval').body)
    if len(fs) != 1 or not any(ast.dump(d) == want for d in fs[0].decorator_list):
        raise BdbError('spec.py: filter is not declared hookspec(firstresult=True)')


def global_prog(repo: Path) -> str:
    tree = parse(repo / SRC_GLOBAL)
    check_module_level(tree, SRC_GLOBAL)
    cls = find(tree.body, ast.ClassDef, 'GlobalTraceFunc', SRC_GLOBAL)
    if cls.bases or cls.keywords or cls.decorator_list:
        raise BdbError('GlobalTraceFunc: bases/decorators')
    for f in check_class_body(cls, 'GlobalTraceFunc'):
        if f.name == 'init':
            body = [st for st in strip_doc(f.body) if not is_noise(st)]
            if [ast.dump(x) for x in body] != [ast.dump(ast.parse('self._hook = hook').body[0])] or hookimpl_info(f, 'GlobalTraceFunc.init') is not False:
                raise BdbError('GlobalTraceFunc.init is not `self._hook = hook`')
        elif f.name != 'global_trace_func':
            raise BdbError(f'GlobalTraceFunc.{f.name}: unexpected method')
    fn = find(cls.body, ast.FunctionDef, 'global_trace_func', 'GlobalTraceFunc')
    if fn.args.defaults or fn.args.vararg or fn.args.kwarg or fn.args.kwonlyargs:
        raise BdbError('global_trace_func: defaults / *args')
    # TraceFuncCreator._trace_func: `return self._hook.hook.global_trace_func(frame=frame, event=event, arg=arg)` inside try / except: raise   (pin)
    tc = find(tree.body, ast.ClassDef, 'TraceFuncCreator', SRC_GLOBAL)
    cf = find(tc.body, ast.FunctionDef, 'create_trace_func', 'TraceFuncCreator')
    inner = [st for st in strip_doc(cf.body) if isinstance(st, ast.FunctionDef)]
    rest = [st for st in strip_doc(cf.body) if not isinstance(st, ast.FunctionDef) and not is_noise(st)]
    want_inner = ast.parse("""
def _trace_func(frame, event, arg):
    try:
        return self._hook.hook.global_trace_func(frame=frame, event=event, arg=arg)
    except BaseException:
        self._logger.exception('')
        raise
""").body[0]
    if len(inner) != 1 or len(rest) != 1 or not (isinstance(rest[0], ast.Return) and is_name(rest[0].value, inner[0].name)) \
            or inner[0].decorator_list or [ast.dump(x) for x in strip_doc(inner[0].body)] != [ast.dump(x) for x in want_inner.body] \
            or [a.arg for a in inner[0].args.args] != ['frame', 'event', 'arg']:
        raise BdbError('TraceFuncCreator.create_trace_func: the trace function is not a plain call of the global_trace_func hook')
    if [a.arg for a in fn.args.args] != ['self', 'frame', 'event', 'arg'] or hookimpl_info(fn, 'global_trace_func') is None:
        raise BdbError('global_trace_func: parameters/decorators')

    def is_tuple_args(k) -> bool:
        return isinstance(k, ast.Tuple) and [norm(x) for x in k.elts] == ['frame', 'event', 'arg']

    def gexp(n, w) -> str:
        if isinstance(n, ast.Constant) and n.value is None:
            return 'GNone'
        if isinstance(n, ast.Call) and not n.args:
            kws = {k.arg: k.value for k in n.keywords}
            if is_attr_chain(n.func, ['self', '_hook', 'hook', 'filter']) and set(kws) == {'trace_args'} and is_tuple_args(kws['trace_args']):
                return 'GHookFilter'
            if is_attr_chain(n.func, ['self', '_hook', 'hook', 'local_trace_func']) and set(kws) == {'frame', 'event', 'arg'} \
                    and all(is_name(kws[k], k) for k in kws):
                return 'GLocalTraceFunc'
        raise BdbError(f'{w}: expression `{norm(n)}` not recognised')

    def body(sts) -> str:
        out = []
        for st in strip_doc(sts):
            w = f'global_trace_func:{st.lineno}'
            if is_noise(st):
                continue
            if isinstance(st, ast.If) and not st.orelse:
                out.append(f'GIf {gexp(st.test, w)} {body(st.body)}')
            elif isinstance(st, ast.Return):
                out.append(f'GReturn {gexp(st.value, w) if st.value is not None else "GNone"}')
            elif isinstance(st, ast.Expr) and isinstance(st.value, ast.Call) and is_attr_chain(st.value.func, ['self', '_hook', 'hook', 'filtered']) \
                    and not st.value.args and [k.arg for k in st.value.keywords] == ['trace_args'] and is_tuple_args(st.value.keywords[0].value):
                out.append('GFiltered')
            else:
                raise BdbError(f'{w}: statement `{norm(st).splitlines()[0]}` not recognised')
        return coq_list(out)

    return body(fn.body)


def local_trace_prog(repo: Path) -> str:
    tree = parse(repo / SRC_UTILS)
    check_module_level(tree, SRC_UTILS)
    wc = find(tree.body, ast.FunctionDef, 'WithContext', SRC_UTILS)
    if wc.decorator_list or [a.arg for a in wc.args.args] != ['trace', 'context'] or wc.args.defaults:
        raise BdbError('WithContext: decorators/parameters')
    cl = find(wc.body, ast.FunctionDef, '_create_local_trace', 'WithContext')
    gt = find(wc.body, ast.FunctionDef, '_global_trace', 'WithContext')
    lt = find(cl.body, ast.FunctionDef, '_local_trace', '_create_local_trace')
    for f, ps in ((cl, []), (gt, ['frame', 'event', 'arg']), (lt, ['frame', 'event', 'arg'])):
        if f.decorator_list or [a.arg for a in f.args.args] != ps or f.args.defaults or f.args.vararg or f.args.kwarg:
            raise BdbError(f'WithContext.{f.name}: decorators/parameters')
    # _global_trace: return _create_local_trace()(frame, event, arg)  -- a FRESH closure per call event
    gb = [st for st in strip_doc(gt.body) if not is_noise(st)]
    want = ast.dump(ast.parse('return _create_local_trace()(frame, event, arg)').body[0])
    if len(gb) != 1 or ast.dump(gb[0]) != want:
        raise BdbError('WithContext._global_trace is not `return _create_local_trace()(frame, event, arg)`')
    rest = [st for st in strip_doc(wc.body) if st not in (cl, gt) and not is_noise(st)]
    if len(rest) != 1 or not (isinstance(rest[0], ast.Return) and is_name(rest[0].value, '_global_trace')):
        raise BdbError('WithContext does not return _global_trace')
    # _create_local_trace: next_trace = trace; def _local_trace; return _local_trace
    cb = [st for st in strip_doc(cl.body) if st is not lt and not is_noise(st)]
    ok = len(cb) == 2 and isinstance(cb[0], (ast.Assign, ast.AnnAssign)) and isinstance(cb[1], ast.Return) and is_name(cb[1].value, '_local_trace')
    if ok:
        t = cb[0].target if isinstance(cb[0], ast.AnnAssign) else cb[0].targets[0]
        ok = is_name(t, 'next_trace') and is_name(cb[0].value, 'trace')
    if not ok:
        raise BdbError('WithContext._create_local_trace: `next_trace = trace` ... `return _local_trace`')

    def wexp(n, w) -> str:
        if n is None or (isinstance(n, ast.Constant) and n.value is None):
            return 'WNone'
        if is_name(n, '_local_trace'):
            return 'WLocalTrace'
        if is_name(n, 'next_trace'):
            return 'WNextTrace'
        raise BdbError(f'{w}: `{norm(n)}` not recognised')

    def body(sts) -> str:
        out = []
        for st in strip_doc(sts):
            w = f'_local_trace:{st.lineno}'
            if is_noise(st):
                continue
            if isinstance(st, ast.Nonlocal):
                if st.names != ['next_trace']:
                    raise BdbError(f'{w}: `{norm(st)}`')
                continue
            if isinstance(st, ast.Assert):
                if not (is_name(st.test, 'next_trace') and st.msg is None):
                    raise BdbError(f'{w}: `{norm(st)}` is not `assert next_trace`')
                out.append('WAssertNextTrace')
                continue
            if isinstance(st, ast.With):
                c = st.items[0].context_expr if len(st.items) == 1 and st.items[0].optional_vars is None else None
                if not (isinstance(c, ast.Call) and is_name(c.func, 'context') and [norm(a) for a in c.args] == ['frame', 'event', 'arg'] and not c.keywords):
                    raise BdbError(f'{w}: `with` other than `with context(frame, event, arg):`')
                out += body_list(st.body)
            elif isinstance(st, ast.If) and not st.orelse and isinstance(st.test, ast.NamedExpr) and is_name(st.test.target, 'next_trace') \
                    and isinstance(st.test.value, ast.Call) and is_name(st.test.value.func, 'next_trace') \
                    and [norm(a) for a in st.test.value.args] == ['frame', 'event', 'arg'] and not st.test.value.keywords:
                out.append(f'WIfAssignNextTrace {coq_list(body_list(st.body))}')
            elif isinstance(st, ast.Return):
                out.append(f'WReturn {wexp(st.value, w)}')
            else:
                raise BdbError(f'{w}: statement `{norm(st).splitlines()[0]}` not recognised')
        return out

    def body_list(sts):
        return body(sts)

    return coq_list(body(lt.body))


def sys_trace_guard(repo: Path) -> bool:
    """sys_trace(trace_func, thread): threading.settrace(trace_func) only under `if thread:`; sys.settrace(trace_func) unconditionally"""
    tree = parse(repo / SRC_CALL)
    check_module_level(tree, SRC_CALL)
    fn = find(tree.body, ast.FunctionDef, 'sys_trace', SRC_CALL)
    if [a.arg for a in fn.args.args] != ['trace_func', 'thread'] or [norm(d) for d in fn.decorator_list] != ['contextmanager']:
        raise BdbError('sys_trace: parameters/decorators')
    imp = imports_of(tree)
    if imp.get('sys') != ('sys', None) or imp.get('threading') != ('threading', None) or imp.get('contextmanager') != ('contextlib', 'contextmanager'):
        raise BdbError('call.py: sys / threading / contextmanager imports')
    # the only call: runner._compile_and_run `with sys_trace(trace_func=trace_func, thread=run_arg.trace_threads):` (pin)
    rt = parse(repo / SRC_RUNNER)
    if imports_of(rt).get('sys_trace') != ('.call', 'sys_trace'):
        raise BdbError('runner.py: `from .call import sys_trace`')
    calls = [x for x in ast.walk(rt) if isinstance(x, ast.Call) and is_name(x.func, 'sys_trace')]
    want = ast.dump(ast.parse('sys_trace(trace_func=trace_func, thread=run_arg.trace_threads)', mode='eval').body)
    if len(calls) != 1 or ast.dump(calls[0]) != want:
        raise BdbError('runner.py: sys_trace is not called exactly once as sys_trace(trace_func=trace_func, thread=run_arg.trace_threads)')
    tf = [st for st in ast.walk(rt) if isinstance(st, ast.Assign) and len(st.targets) == 1 and is_name(st.targets[0], 'trace_func')]
    if len(tf) != 1 or ast.dump(tf[0].value) != ast.dump(ast.parse('hook.hook.create_trace_func()', mode='eval').body):
        raise BdbError('runner.py: trace_func is not hook.hook.create_trace_func()')
    for p2 in sorted((repo / 'nextline').rglob('*.py')):
        if p2.name in ('call.py', 'runner.py', 'skip.py'):
            continue
        rel = p2.relative_to(repo).as_posix()
        if rel == 'nextline/disable.py':
            continue                    # `disable_trace`, a utility exported for user scripts; nextline itself must not use it (below)
        if rel != 'nextline/__init__.py' and any(isinstance(x, (ast.Name, ast.Attribute, ast.alias)) and
                                                  (getattr(x, 'id', None) == 'disable_trace' or getattr(x, 'attr', None) == 'disable_trace'
                                                   or getattr(x, 'name', None) == 'disable_trace') for x in ast.walk(parse(p2))):
            raise BdbError(f'{p2}: nextline uses disable_trace')
        if any(isinstance(x, ast.Attribute) and x.attr in ('settrace', 'setprofile', 'monitoring') and isinstance(x.value, ast.Name)
               and x.value.id in ('sys', 'threading') for x in ast.walk(parse(p2))):
            raise BdbError(f'{p2}: sys/threading.settrace used outside call.py')
    guarded = None
    sys_set = False
    seen_yield = False
    for st in strip_doc(fn.body):
        if isinstance(st, ast.Try):
            seen_yield = True
            continue
        if seen_yield:
            raise BdbError(f'sys_trace:{st.lineno}: statement after the try/finally')
        calls = [x for x in ast.walk(st) if isinstance(x, ast.Call) and is_attr_chain(x.func, ['threading', 'settrace'])]
        if calls:
            ok = isinstance(st, ast.If) and is_name(st.test, 'thread') and not st.orelse and len(st.body) == 1 and len(calls) == 1 \
                and isinstance(st.body[0], ast.Expr) and st.body[0].value is calls[0] and len(calls[0].args) == 1 and is_name(calls[0].args[0], 'trace_func')
            if not ok or guarded is not None:
                raise BdbError(f'sys_trace:{st.lineno}: threading.settrace is not called exactly once under `if thread:`')
            guarded = True
            continue
        if isinstance(st, ast.Expr) and isinstance(st.value, ast.Call) and is_attr_chain(st.value.func, ['sys', 'settrace']):
            if not (len(st.value.args) == 1 and is_name(st.value.args[0], 'trace_func')) or sys_set:
                raise BdbError(f'sys_trace:{st.lineno}: `{norm(st)}`')
            sys_set = True
            continue
        if isinstance(st, ast.Assign) and len(st.targets) == 1 and isinstance(st.targets[0], ast.Name) and st.targets[0].id.startswith('org_'):
            continue
        raise BdbError(f'sys_trace:{st.lineno}: statement `{norm(st).splitlines()[0]}` not recognised')
    if not sys_set or not guarded:
        raise BdbError('sys_trace: sys.settrace(trace_func) / guarded threading.settrace(trace_func) missing')
    return True


def local_pins(repo: Path) -> None:
    """local_.py (pins, no term emitted): one trace function per trace number, each a WithContext around the function
    the `create_local_trace_func` hook returns (= a fresh CustomizedPdb's trace_dispatch, factory.py)"""
    tree = parse(repo / SRC_LOCAL)
    check_module_level(tree, SRC_LOCAL)
    imp = imports_of(tree)
    if imp.get('WithContext') != ('nextline.spawned.utils', 'WithContext') or imp.get('defaultdict') != ('collections', 'defaultdict'):
        raise BdbError('local_.py: WithContext / defaultdict imports')
    cls = find(tree.body, ast.ClassDef, 'LocalTraceFunc', SRC_LOCAL)
    if cls.bases or cls.keywords or cls.decorator_list:
        raise BdbError('LocalTraceFunc: bases/decorators')
    want = {
        'init': ['self._hook = hook', 'factory = Factory(hook)', 'self._map = defaultdict[TraceNo, TraceFunction](factory)'],
        'local_trace_func': ['trace_no = self._hook.hook.current_trace_no()', 'local_trace_func = self._map[trace_no]',
                             'return local_trace_func(frame, event, arg)'],
    }
    for fn in check_class_body(cls, 'LocalTraceFunc'):
        if fn.name in want:
            body = [st for st in strip_doc(fn.body) if not is_noise(st)]
            if hookimpl_info(fn, f'LocalTraceFunc.{fn.name}') is not False \
                    or [ast.dump(x) for x in body] != [ast.dump(ast.parse('def f():\n    ' + w).body[0].body[0]) for w in want[fn.name]]:
                raise BdbError(f'LocalTraceFunc.{fn.name}: body differs from {want[fn.name]}')
        elif any(isinstance(x, ast.Attribute) and x.attr == '_map' for x in ast.walk(fn)):
            raise BdbError(f'LocalTraceFunc.{fn.name}: touches _map')
    fa = find(tree.body, ast.FunctionDef, 'Factory', SRC_LOCAL)
    inner = [st for st in strip_doc(fa.body) if isinstance(st, ast.FunctionDef)]
    if len(inner) != 1 or inner[0].name != '_factory' or inner[0].decorator_list or inner[0].args.args:
        raise BdbError('local_.Factory: expected one inner function `_factory()`')
    rest = [st for st in strip_doc(fa.body) if st is not inner[0] and not is_noise(st)]
    if not rest or not (isinstance(rest[-1], ast.Return) and is_name(rest[-1].value, '_factory')):
        raise BdbError('local_.Factory does not return _factory')
    body = strip_doc(inner[0].body)
    first, last = body[0], body[-1]
    if ast.dump(first) != ast.dump(ast.parse('trace = hook.hook.create_local_trace_func()').body[0]) \
            or ast.dump(last) != ast.dump(ast.parse('return WithContext(trace, context=_context)').body[0]):
        raise BdbError('local_.Factory._factory: first/last statement differ from `trace = hook.hook.create_local_trace_func()` / '
                       '`return WithContext(trace, context=_context)`')
    uses = [x for st in body[1:-1] for x in ast.walk(st) if isinstance(x, ast.Name) and x.id in ('trace', 'WithContext')]
    if uses:
        raise BdbError('local_.Factory._factory: `trace` / WithContext used between creation and wrapping')
    ctx = [st for st in body[1:-1] if isinstance(st, ast.FunctionDef) and st.name == '_context']
    if len(ctx) != 1 or [norm(d) for d in ctx[0].decorator_list] != ['contextmanager'] \
            or sum(isinstance(x, (ast.Yield, ast.YieldFrom)) for x in ast.walk(ctx[0])) != 1:
        raise BdbError('local_.Factory._factory: `_context` is not a contextmanager with exactly one yield')


# ---------------------------------------------------------------- all of it

def translate(repo: Path) -> str:
    repo = Path(repo)
    bm = bdb_methods()
    cd = custom_defs(repo)
    fd = factory_defs(repo)
    other_filter_impls(repo)
    fcs = filter_defs(repo)
    reg = register_prog(repo)
    glob = global_prog(repo)
    loc = local_trace_prog(repo)
    guard = sys_trace_guard(repo)
    local_pins(repo)

    def mlist(ms):
        return '[' + ';\n   '.join(ms) + ']'

    L = [
        '(** GENERATED by translate/bdb_funs.py (ast, CPython %d.%d) -- do not edit.' % sys.version_info[:2],
        "    From the installed CPython bdb.py (class Bdb) and, in /repo,",
        f'    {SRC_CUSTOM}, {SRC_FACTORY},',
        f'    {SRC_FILTER}, {SRC_REGISTER},',
        f'    {SRC_GLOBAL}, {SRC_UTILS}, {SRC_CALL}.',
        '    Terms of Bdb/Syntax.v; interpreted and tied to Bdb/Model.v by Bdb/Tie.v. *)',
        'From Coq Require Import List String ZArith.',
        'From NL Require Import Bdb.Syntax.',
        'Import ListNotations.',
        'Local Open Scope string_scope.',
        '',
        '(** bdb.Bdb: trace_dispatch, dispatch_*, stop_here, _set_stopinfo, set_until/step/next/return *)',
        f'Definition bdb_methods : list method :=\n  {mlist(bm)}.',
        '',
        '(** CustomizedPdb: the Bdb methods it overrides (they shadow the ones above) *)',
        f'Definition custom_methods : list method :=\n  {mlist(cd["methods"])}.',
        '',
        '(** CustomizedPdb.__init__, as far as the stop logic is concerned *)',
        f'Definition custom_init : method :=\n  {cd["init"]}.',
        '',
        '(** every method CustomizedPdb defines besides __init__ *)',
        f'Definition custom_overrides : list string := {coq_list([q(x) for x in cd["overrides"]])}.',
        '',
        '(** CustomizedPdb.cmdloop *)',
        f'Definition cmdloop_prog : cstmt :=\n  {cd["cmdloop"]}.',
        '',
        '(** factory.py CmdloopHook: the context manager factory passed to CustomizedPdb as cmdloop_hook *)',
        f'Definition cmdloop_hook_prog : list hstmt := {fd["hook"]}.',
        '',
        '(** filter.py: the classes implementing the firstresult hook `filter` *)',
        f'Definition filter_classes : list fclass :=\n  {mlist(fcs)}.',
        '',
        '(** plugins/__init__.py register(hook, run_arg) *)',
        f'Definition register_prog : rstmt :=\n  {reg}.',
        '',
        '(** GlobalTraceFunc.global_trace_func(self, frame, event, arg) *)',
        f'Definition global_trace_prog : list gstmt := {glob}.',
        '',
        '(** WithContext._local_trace(frame, event, arg), inside `with context(frame, event, arg):` *)',
        f'Definition local_trace_prog : list wstmt := {loc}.',
        '',
        '(** sys_trace: sys.settrace(trace_func) always, threading.settrace(trace_func) only under `if thread:` *)',
        f'Definition sys_trace_thread_guarded : bool := {"true" if guard else "false"}.',
        '',
    ]
    return '\n'.join(L)


if __name__ == '__main__':
    print(translate(Path(sys.argv[1] if len(sys.argv) > 1 else '/repo')))
