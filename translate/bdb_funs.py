"""Fail-closed translator for the stop logic behind C05 -> Gen/BdbFuns.v

Translates with `ast` (expressions and statements are parsed by shape; no pinned source text)

  the INSTALLED CPython bdb.py (`import bdb; bdb.__file__`; VERIF_BDB=<file> overrides it, development only)
      Bdb.trace_dispatch, dispatch_line/call/return/exception, stop_here, _set_stopinfo,
      set_step/next/return/until                                  -> bdb_methods : list method
      (Bdb.set_continue and Bdb.reset are NOT translated: CustomizedPdb must override / never call them)
  nextline/spawned/plugin/plugins/pdb_/custom.py   CustomizedPdb
      __init__ (botframe, _set_stopinfo), set_continue and every other Bdb method it overrides
                                                                  -> custom_methods : list method
      cmdloop                                                     -> cmdloop_prog : cstmt
      the methods of Bdb/Pdb/Cmd it overrides                     -> custom_overrides : list string
  nextline/spawned/plugin/plugins/pdb_/factory.py
      CmdloopHook.cmdloop                                         -> cmdloop_hook_prog : list hstmt
      Factory._factory (a fresh CustomizedPdb per call, its trace_dispatch returned)  -> checked
  nextline/spawned/plugin/plugins/filter.py   every class with a `filter` hookimpl (+ helpers)
                                                                  -> filter_classes : list fclass
  nextline/spawned/plugin/plugins/__init__.py register            -> register_prog : rstmt
  nextline/spawned/plugin/plugins/global_.py  GlobalTraceFunc.global_trace_func -> global_trace_prog
  nextline/spawned/utils.py WithContext._local_trace              -> local_trace_prog
  nextline/spawned/call.py sys_trace                              -> sys_trace_thread_guarded : bool

into terms of coq/theories/Bdb/Syntax.v.  coq/theories/Bdb/Tie.v interprets them and proves them
equal to the functions of the hand-written Bdb/Model.v.

Fail closed: inside a translated function every statement must be recognised or be IGNORABLE
(docstring, `pass`, a `print(...)`/`logger.xxx(...)` call, `logger = getLogger(...)`, an
assignment to a private attribute that nothing tracked reads); anything else -- a loop, a `del`,
`sys.settrace`, an unknown call, a comparison of an unknown shape -- raises BdbError and
`./check C05` reports a broken tie obligation.
"""
from __future__ import annotations

import ast
import os
import sys
from pathlib import Path

OUTPUT = 'BdbFuns.v'

SRC_CUSTOM = 'nextline/spawned/plugin/plugins/pdb_/custom.py'
SRC_FACTORY = 'nextline/spawned/plugin/plugins/pdb_/factory.py'
SRC_FILTER = 'nextline/spawned/plugin/plugins/filter.py'
SRC_REGISTER = 'nextline/spawned/plugin/plugins/__init__.py'
SRC_GLOBAL = 'nextline/spawned/plugin/plugins/global_.py'
SRC_UTILS = 'nextline/spawned/utils.py'
SRC_CALL = 'nextline/spawned/call.py'
SRC_SPEC = 'nextline/spawned/plugin/spec.py'

BDB_METHODS = ['trace_dispatch', 'dispatch_line', 'dispatch_call', 'dispatch_return', 'dispatch_exception',
               'stop_here', '_set_stopinfo', 'set_until', 'set_step', 'set_next', 'set_return']
# methods of Bdb that are called by the translated ones and are given a meaning by hand in Bdb/Tie.v
BDB_PRIMITIVES = {'user_line', 'user_call', 'user_return', 'user_exception', 'break_here', 'break_anywhere',
                  'is_skipped_module'}
ATTRS = {'stopframe': 'AStopframe', 'returnframe': 'AReturnframe', 'botframe': 'ABotframe', 'stoplineno': 'AStoplineno',
         'quitting': 'AQuitting', 'frame_returning': 'AFrameReturning', 'skip': 'ASkip', 'breaks': 'ABreaks'}
READONLY_ATTRS = {'skip', 'breaks'}
CMPOPS = {ast.Is: 'OIs', ast.IsNot: 'OIsNot', ast.Eq: 'OEq', ast.NotEq: 'ONotEq', ast.GtE: 'OGtE', ast.Gt: 'OGt',
          ast.LtE: 'OLtE', ast.Lt: 'OLt'}
EXCS = {'StopIteration': 'XStopIteration', 'GeneratorExit': 'XGeneratorExit'}
# every method of Bdb whose behaviour the model depends on: CustomizedPdb may override only the ones
# in CUSTOM_TRANSLATED (translated) -- an override of another one is not understood
BDB_TRACKED = set(BDB_METHODS) | BDB_PRIMITIVES | {'set_continue', 'reset', 'set_trace', 'set_quit', 'get_stack', 'format_stack_entry'}
CUSTOM_TRANSLATED = set(BDB_METHODS) | {'set_continue'}
# methods of pdb.Pdb / cmd.Cmd between user_* and the prompt: an override is not understood, except the two below
PDB_TRACKED = {'interaction', '_cmdloop', 'cmdloop', 'setup', 'forget', 'onecmd', 'precmd', 'postcmd', 'preloop', 'postloop',
               'default', 'do_step', 'do_s', 'do_next', 'do_n', 'do_return', 'do_r', 'do_until', 'do_unt', 'do_continue',
               'do_c', 'do_cont', 'bp_commands', 'print_stack_entry', 'execRcLines', 'sigint_handler', 'do_quit', 'do_q',
               'do_exit', 'do_EOF', 'do_jump', 'do_j', 'do_up', 'do_down', 'do_u', 'do_d', 'do_debug', 'do_break', 'do_b',
               'do_tbreak', 'do_commands', 'message', 'error'}


class BdbError(Exception):
    pass


# ---------------------------------------------------------------- generic helpers

def norm(node) -> str:
    return ast.unparse(node).strip()


def q(s: str) -> str:
    if '"' in s or '\n' in s:
        raise BdbError(f'string literal {s!r} cannot be emitted')
    return '"' + s + '"'


def strip_doc(body):
    if body and isinstance(body[0], ast.Expr) and isinstance(body[0].value, ast.Constant) and isinstance(body[0].value.value, str):
        return body[1:]
    return body


def is_name(n, s: str) -> bool:
    return isinstance(n, ast.Name) and n.id == s


def is_attr_chain(n, chain: list[str]) -> bool:
    for part in reversed(chain[1:]):
        if not (isinstance(n, ast.Attribute) and n.attr == part):
            return False
        n = n.value
    return is_name(n, chain[0])


def find(body, kind, name, what=''):
    xs = [n for n in body if isinstance(n, kind) and n.name == name]
    if len(xs) != 1:
        raise BdbError(f'{what}: expected exactly one {kind.__name__} `{name}`, found {len(xs)}')
    return xs[0]


def parse(path: Path):
    if not path.exists():
        raise BdbError(f'{path} not found')
    return ast.parse(path.read_text())


def seq(items: list[str], skip='SSkip', ctor='SSeq') -> str:
    items = [i for i in items if i]
    if not items:
        return skip
    if len(items) == 1:
        return items[0]
    return f'({ctor} {items[0]} {seq(items[1:], skip, ctor)})'


def coq_list(items: list[str]) -> str:
    return '[' + '; '.join(items) + ']'


def zlit(v: int) -> str:
    return f'({v})%Z'


# ---------------------------------------------------------------- Part 1: methods of Bdb / CustomizedPdb

class Scope:
    def __init__(self, where: str, params: list[str]):
        self.where = where
        self.names = set(params)          # parameters and locals assigned so far


def tr_exp(n, sc: Scope) -> str:
    w = f'{sc.where}:{getattr(n, "lineno", "?")}'
    if isinstance(n, ast.Constant):
        if n.value is None:
            return 'ENone'
        if isinstance(n.value, bool):
            return f'(EBool {"true" if n.value else "false"})'
        if type(n.value) is int and abs(n.value) < 10 ** 6:
            return f'(EInt {zlit(n.value)})'
        if isinstance(n.value, str):
            return f'(EStr {q(n.value)})'
        raise BdbError(f'{w}: constant `{norm(n)}`')
    if isinstance(n, ast.UnaryOp) and isinstance(n.op, ast.USub) and isinstance(n.operand, ast.Constant) and type(n.operand.value) is int:
        return f'(EInt {zlit(-n.operand.value)})'
    if isinstance(n, ast.UnaryOp) and isinstance(n.op, ast.Not):
        return f'(ENot {tr_exp(n.operand, sc)})'
    if isinstance(n, ast.Name):
        if n.id in EXCS:
            return f'(EExc {EXCS[n.id]})'
        if n.id in sc.names:
            return f'(EVar {q(n.id)})'
        raise BdbError(f'{w}: name `{n.id}` is neither a parameter nor a local assigned before')
    if isinstance(n, ast.Attribute):
        if is_name(n.value, 'self'):
            if n.attr in ATTRS:
                return f'(ESelf {ATTRS[n.attr]})'
            if n.attr == 'trace_dispatch':
                return 'ETraceDispatch'
            raise BdbError(f'{w}: attribute `self.{n.attr}` is not tracked')
        if n.attr == 'f_back':
            return f'(EBack {tr_exp(n.value, sc)})'
        if n.attr == 'f_lineno':
            return f'(ELineno {tr_exp(n.value, sc)})'
        if n.attr == 'f_trace':
            return f'(EFTrace {tr_exp(n.value, sc)})'
        raise BdbError(f'{w}: attribute read `{norm(n)}`')
    if isinstance(n, ast.BinOp):
        if isinstance(n.op, ast.BitAnd) and is_name(n.right, 'GENERATOR_AND_COROUTINE_FLAGS') \
                and isinstance(n.left, ast.Attribute) and n.left.attr == 'co_flags' \
                and isinstance(n.left.value, ast.Attribute) and n.left.value.attr == 'f_code':
            return f'(EGenFlags {tr_exp(n.left.value.value, sc)})'
        if isinstance(n.op, ast.Add):
            return f'(EAdd {tr_exp(n.left, sc)} {tr_exp(n.right, sc)})'
        raise BdbError(f'{w}: operator in `{norm(n)}`')
    if isinstance(n, ast.BoolOp):
        ctor = 'EAnd' if isinstance(n.op, ast.And) else 'EOr'
        vals = [tr_exp(v, sc) for v in n.values]
        out = vals[-1]
        for v in reversed(vals[:-1]):
            out = f'({ctor} {v} {out})'
        return out
    if isinstance(n, ast.Compare):
        if len(n.ops) != 1:
            raise BdbError(f'{w}: chained comparison `{norm(n)}`')
        op, r = n.ops[0], n.comparators[0]
        if isinstance(op, ast.In):
            if isinstance(r, ast.Tuple) and r.elts and all(isinstance(x, ast.Name) and x.id in EXCS for x in r.elts):
                return f'(EIn {tr_exp(n.left, sc)} {coq_list([EXCS[x.id] for x in r.elts])})'
            raise BdbError(f'{w}: `in` with `{norm(r)}`')
        if type(op) not in CMPOPS:
            raise BdbError(f'{w}: comparison operator in `{norm(n)}`')
        return f'(ECmp {CMPOPS[type(op)]} {tr_exp(n.left, sc)} {tr_exp(r, sc)})'
    if isinstance(n, ast.Subscript):
        if isinstance(n.slice, ast.Constant) and type(n.slice.value) is int and 0 <= n.slice.value <= 2:
            return f'(EIndex {tr_exp(n.value, sc)} {n.slice.value})'
        raise BdbError(f'{w}: subscript `{norm(n)}`')
    if isinstance(n, ast.Call):
        f = n.func
        if isinstance(f, ast.Attribute) and is_name(f.value, 'self') and not n.keywords:
            if f.attr == 'is_skipped_module':
                # its argument is never evaluated by the stop logic (self.skip is None): kept opaque
                return f'(ECall {q(f.attr)} [EOpaque])'
            if f.attr in BDB_METHODS or f.attr in BDB_PRIMITIVES or f.attr == 'set_continue':
                return f'(ECall {q(f.attr)} {coq_list([tr_exp(a, sc) for a in n.args])})'
        raise BdbError(f'{w}: call `{norm(n)}`')
    raise BdbError(f'{w}: expression `{norm(n)}`')


def is_noise(st) -> bool:
    """print(...), logger.xxx(...), logger = getLogger(...), pass, a bare string"""
    if isinstance(st, ast.Pass):
        return True
    if isinstance(st, ast.Expr) and isinstance(st.value, ast.Constant):
        return True
    if isinstance(st, ast.Expr) and isinstance(st.value, ast.Call):
        f = st.value.func
        if any(isinstance(x, (ast.NamedExpr, ast.Await, ast.Yield, ast.YieldFrom, ast.Lambda)) for x in ast.walk(st)):
            return False
        inner_calls = [x for a in st.value.args + [k.value for k in st.value.keywords] for x in ast.walk(a) if isinstance(x, ast.Call)]
        if any(not (is_name(c.func, 'repr') or is_name(c.func, 'str')) for c in inner_calls):    # arguments may only format
            return False
        if is_name(f, 'print'):
            return True
        if isinstance(f, ast.Attribute) and isinstance(f.value, ast.Call) and is_name(f.value.func, 'getLogger'):
            return True                 # getLogger(__name__).debug(...)
        return isinstance(f, ast.Attribute) and (is_name(f.value, 'logger') or is_attr_chain(f.value, ['self', '_logger']))
    if isinstance(st, ast.Assign) and len(st.targets) == 1 and is_name(st.targets[0], 'logger'):
        return isinstance(st.value, ast.Call) and is_name(st.value.func, 'getLogger')
    return False


def tr_body(body, sc: Scope, extra=None) -> str:
    return seq([tr_stmt(st, sc, extra) for st in strip_doc(body)])


def tr_stmt(st, sc: Scope, extra=None) -> str:
    w = f'{sc.where}:{getattr(st, "lineno", "?")}'
    if is_noise(st):
        return ''
    if extra is not None:
        r = extra(st, sc)
        if r is not None:
            return r
    if isinstance(st, ast.If):
        return f'(SIf {tr_exp(st.test, sc)} {tr_body(st.body, sc, extra)} {tr_body(st.orelse, sc, extra)})'
    if isinstance(st, ast.Return):
        return f'(SReturn {tr_exp(st.value, sc) if st.value is not None else "ENone"})'
    if isinstance(st, ast.Raise):
        if st.cause is None and (is_name(st.exc, 'BdbQuit') or (isinstance(st.exc, ast.Call) and is_name(st.exc.func, 'BdbQuit'))):
            return 'SRaiseBdbQuit'
        raise BdbError(f'{w}: `{norm(st)}`')
    if isinstance(st, ast.Try):
        if st.handlers or st.orelse or not st.finalbody:
            raise BdbError(f'{w}: try statement other than try/finally')
        return f'(STryFinally {tr_body(st.body, sc, extra)} {tr_body(st.finalbody, sc, extra)})'
    if isinstance(st, ast.Expr) and isinstance(st.value, ast.Call):
        return f'(SExpr {tr_exp(st.value, sc)})'
    if isinstance(st, ast.Assign) and len(st.targets) == 1:
        t = st.targets[0]
        if isinstance(t, ast.Attribute) and is_name(t.value, 'self'):
            if t.attr in ATTRS and t.attr not in READONLY_ATTRS:
                return f'(SSetSelf {ATTRS[t.attr]} {tr_exp(st.value, sc)})'
            raise BdbError(f'{w}: assignment to `self.{t.attr}`')
        if isinstance(t, ast.Attribute) and t.attr == 'f_trace':
            return f'(SSetFTrace {tr_exp(t.value, sc)} {tr_exp(st.value, sc)})'
        if isinstance(t, ast.Name):
            e = tr_exp(st.value, sc)
            sc.names.add(t.id)
            return f'(SSetLocal {q(t.id)} {e})'
    raise BdbError(f'{w}: statement `{norm(st).splitlines()[0]}` not recognised')


def tr_params(fn, where: str) -> list[tuple[str, str | None]]:
    a = fn.args
    if a.vararg or a.kwarg or a.posonlyargs or a.kwonlyargs:
        raise BdbError(f'{where}: *args/**kwargs/positional-only/keyword-only parameters')
    names = [x.arg for x in a.args]
    if not names or names[0] != 'self':
        raise BdbError(f'{where}: first parameter is not self')
    names = names[1:]
    defaults: list = [None] * (len(names) - len(a.defaults)) + list(a.defaults)
    sc = Scope(where, [])
    return [(n, tr_exp(d, sc) if d is not None else None) for n, d in zip(names, defaults)]


def tr_method(fn, where: str, extra=None, ignore_params=False) -> str:
    if fn.decorator_list:
        raise BdbError(f'{where}: decorators')
    params = [] if ignore_params else tr_params(fn, where)
    sc = Scope(where, [p for p, _ in params])
    body = tr_body(fn.body, sc, extra)
    ps = coq_list([f'({q(p)}, {"Some " + d if d else "None"})' for p, d in params])
    return f'mkM {q(fn.name)} {ps}\n    {body}'


def bdb_path() -> Path:
    p = os.environ.get('VERIF_BDB')
    if p:
        return Path(p)
    import bdb
    return Path(bdb.__file__)


def bdb_methods() -> list[str]:
    tree = parse(bdb_path())
    cls = find(tree.body, ast.ClassDef, 'Bdb', 'bdb.py')
    # GENERATOR_AND_COROUTINE_FLAGS = CO_GENERATOR | CO_COROUTINE | CO_ASYNC_GENERATOR
    flags = [st for st in tree.body if isinstance(st, ast.Assign) and len(st.targets) == 1 and is_name(st.targets[0], 'GENERATOR_AND_COROUTINE_FLAGS')]
    if len(flags) != 1 or not isinstance(flags[0].value, ast.BinOp):
        raise BdbError('bdb.py: GENERATOR_AND_COROUTINE_FLAGS')
    parts = set()

    def ors(n):
        if isinstance(n, ast.BinOp) and isinstance(n.op, ast.BitOr):
            ors(n.left)
            ors(n.right)
        elif isinstance(n, ast.Name):
            parts.add(n.id)
        else:
            raise BdbError('bdb.py: GENERATOR_AND_COROUTINE_FLAGS is not an `|` of names')
    ors(flags[0].value)
    if parts != {'CO_GENERATOR', 'CO_COROUTINE', 'CO_ASYNC_GENERATOR'}:
        raise BdbError(f'bdb.py: GENERATOR_AND_COROUTINE_FLAGS = {sorted(parts)}')
    out = []
    for name in BDB_METHODS:
        fn = find(cls.body, ast.FunctionDef, name, 'bdb.Bdb')
        out.append(tr_method(fn, f'bdb.Bdb.{name}'))
    return out


def custom_defs(repo: Path) -> dict:
    tree = parse(repo / SRC_CUSTOM)
    cls = find(tree.body, ast.ClassDef, 'CustomizedPdb', SRC_CUSTOM)
    if [norm(b) for b in cls.bases] != ['Pdb'] or cls.keywords or cls.decorator_list:
        raise BdbError('CustomizedPdb: bases/decorators')
    imp = {}
    for st in tree.body:
        if isinstance(st, ast.ImportFrom):
            for a in st.names:
                imp[a.asname or a.name] = (st.module, a.name)
    if imp.get('Pdb') != ('pdb', 'Pdb'):
        raise BdbError('custom.py: `Pdb` is not `from pdb import Pdb`')
    if imp.get('NotOnTraceCall') != ('nextline.spawned.exc', 'NotOnTraceCall'):
        raise BdbError('custom.py: NotOnTraceCall import')
    methods: list[str] = []
    overrides: list[str] = []
    res: dict = {}
    for st in strip_doc(cls.body):
        if not isinstance(st, ast.FunctionDef):
            if isinstance(st, (ast.Pass,)) or (isinstance(st, ast.Expr) and isinstance(st.value, ast.Constant)):
                continue
            raise BdbError(f'CustomizedPdb:{st.lineno}: class-level statement `{norm(st).splitlines()[0]}`')
        name = st.name
        if name in overrides or name == '__init__' and 'init' in res:
            raise BdbError(f'CustomizedPdb.{name} defined twice')
        where = f'CustomizedPdb.{name}'
        if name == '__init__':
            res['init'] = tr_method(st, where, extra=init_extra, ignore_params=True)
            continue
        overrides.append(name)
        if name == 'cmdloop':
            res['cmdloop'] = tr_cmdloop(st)
        elif name == '_cmdloop':
            check_underscore_cmdloop(st)
        elif name in CUSTOM_TRANSLATED:
            methods.append(tr_method(st, where))
        elif name in BDB_TRACKED or name in PDB_TRACKED or name.startswith('do_') or name.startswith('user_'):
            raise BdbError(f'{where}: an override of `{name}` is not understood')
        else:
            # a new helper method: it must not be reachable from the translated ones (tr_exp refuses unknown calls)
            continue
    if 'init' not in res:
        raise BdbError('CustomizedPdb.__init__ missing')
    if 'cmdloop' not in res:
        raise BdbError('CustomizedPdb.cmdloop missing')
    if 'set_continue' not in overrides:
        raise BdbError('CustomizedPdb does not override set_continue (Bdb.set_continue calls sys.settrace(None))')
    res['methods'] = methods
    res['overrides'] = overrides
    return res


def init_extra(st, sc: Scope):
    """CustomizedPdb.__init__: super().__init__(...) with nosigint=True, private attributes: no effect on the stop logic"""
    w = f'{sc.where}:{st.lineno}'
    if isinstance(st, ast.Expr) and isinstance(st.value, ast.Call):
        c = st.value
        f = c.func
        if isinstance(f, ast.Attribute) and f.attr == '__init__' and isinstance(f.value, ast.Call) and is_name(f.value.func, 'super') and not f.value.args:
            kws = {k.arg: k.value for k in c.keywords}
            if c.args or 'skip' in kws or None in kws:
                raise BdbError(f'{w}: super().__init__ with positional arguments / skip= / **kwargs (Bdb.skip must stay None)')
            ns = kws.get('nosigint')
            if not (isinstance(ns, ast.Constant) and ns.value is True):
                raise BdbError(f'{w}: super().__init__ without nosigint=True')
            return ''
    if isinstance(st, ast.Assign) and len(st.targets) == 1:
        t = st.targets[0]
        if isinstance(t, ast.Attribute) and is_name(t.value, 'self') and t.attr.startswith('_') and t.attr not in ATTRS \
                and isinstance(st.value, ast.Name):
            return ''
    return None


def check_underscore_cmdloop(fn) -> None:
    """_cmdloop(self): self.cmdloop()"""
    body = strip_doc(fn.body)
    body = [st for st in body if not is_noise(st)]
    ok = len(body) == 1 and isinstance(body[0], ast.Expr) and isinstance(body[0].value, ast.Call) \
        and is_attr_chain(body[0].value.func, ['self', 'cmdloop']) and not body[0].value.args and not body[0].value.keywords
    if not ok:
        raise BdbError('CustomizedPdb._cmdloop is not `self.cmdloop()`')


def tr_cmdloop(fn) -> str:
    where = 'CustomizedPdb.cmdloop'
    sc = Scope(where, [a.arg for a in fn.args.args[1:]])

    def cbody(sts) -> str:
        return seq([cstmt(s) for s in strip_doc(sts)], 'CSkip', 'CSeq')

    def cstmt(st) -> str:
        w = f'{where}:{st.lineno}'
        if is_noise(st):
            return ''
        if isinstance(st, ast.Try):
            if st.orelse or st.finalbody or len(st.handlers) != 1:
                raise BdbError(f'{w}: try statement other than try/except NotOnTraceCall')
            h = st.handlers[0]
            if not is_name(h.type, 'NotOnTraceCall') or h.name is not None:
                raise BdbError(f'{w}: handler of `{norm(h.type) if h.type else "everything"}`')
            return f'(CTryExceptNotOnTraceCall {cbody(st.body)} {tr_body(h.body, sc)})'
        if isinstance(st, ast.With):
            ok = len(st.items) == 1 and st.items[0].optional_vars is None
            c = st.items[0].context_expr if ok else None
            ok = ok and isinstance(c, ast.Call) and is_attr_chain(c.func, ['self', '_cmdloop_hook']) and not c.args and not c.keywords
            if not ok:
                raise BdbError(f'{w}: `with` other than `with self._cmdloop_hook():`')
            return f'(CWithCmdloopHook {cbody(st.body)})'
        if isinstance(st, ast.Expr) and isinstance(st.value, ast.Call):
            c = st.value
            f = c.func
            if isinstance(f, ast.Attribute) and f.attr == 'cmdloop' and isinstance(f.value, ast.Call) and is_name(f.value.func, 'super') and not f.value.args:
                return 'CSuperCmdloop'
        raise BdbError(f'{w}: statement `{norm(st).splitlines()[0]}` not recognised')

    return cbody(fn.body)


def factory_defs(repo: Path) -> dict:
    tree = parse(repo / SRC_FACTORY)
    ch = find(tree.body, ast.FunctionDef, 'CmdloopHook', SRC_FACTORY)
    inner = [st for st in strip_doc(ch.body) if isinstance(st, ast.FunctionDef)]
    rest = [st for st in strip_doc(ch.body) if not isinstance(st, ast.FunctionDef)]
    if len(inner) != 1 or len(rest) != 1 or not (isinstance(rest[0], ast.Return) and is_name(rest[0].value, inner[0].name)):
        raise BdbError('factory.CmdloopHook: expected one inner function, returned')
    prog = []
    for st in strip_doc(inner[0].body):
        w = f'factory.CmdloopHook:{st.lineno}'
        if is_noise(st):
            continue
        if isinstance(st, ast.If) and not st.orelse and len(st.body) == 1 and isinstance(st.body[0], ast.Raise) \
                and is_name(st.body[0].exc, 'NotOnTraceCall') and isinstance(st.test, ast.UnaryOp) and isinstance(st.test.op, ast.Not) \
                and isinstance(st.test.operand, ast.Call) and is_attr_chain(st.test.operand.func, ['hook', 'hook', 'is_on_trace_call']) \
                and not st.test.operand.args and not st.test.operand.keywords:
            prog.append('HIfNotOnTraceCallRaise')
        elif isinstance(st, ast.Return) and isinstance(st.value, ast.Call) and is_attr_chain(st.value.func, ['hook', 'with_', 'on_cmdloop']) \
                and not st.value.args and not st.value.keywords:
            prog.append('HReturnOnCmdloop')
        else:
            raise BdbError(f'{w}: statement `{norm(st).splitlines()[0]}` not recognised')
    # Factory: cmdloop_hook = CmdloopHook(hook=hook); _factory: pdb = CustomizedPdb(cmdloop_hook=cmdloop_hook, ...); return pdb.trace_dispatch
    fa = find(tree.body, ast.FunctionDef, 'Factory', SRC_FACTORY)
    hook_assign = [st for st in fa.body if isinstance(st, ast.Assign) and len(st.targets) == 1 and is_name(st.targets[0], 'cmdloop_hook')]
    if len(hook_assign) != 1 or not (isinstance(hook_assign[0].value, ast.Call) and is_name(hook_assign[0].value.func, 'CmdloopHook')):
        raise BdbError('factory.Factory: cmdloop_hook is not CmdloopHook(...)')
    inner_f = [st for st in fa.body if isinstance(st, ast.FunctionDef)]
    if len(inner_f) != 1:
        raise BdbError('factory.Factory: expected one inner function')
    made = False
    returned = False
    for st in strip_doc(inner_f[0].body):
        if isinstance(st, ast.Assign) and len(st.targets) == 1 and is_name(st.targets[0], 'pdb'):
            c = st.value
            if not (isinstance(c, ast.Call) and is_name(c.func, 'CustomizedPdb')) or c.args:
                raise BdbError('factory._factory: pdb is not CustomizedPdb(...)')
            kws = {k.arg: k.value for k in c.keywords}
            if not is_name(kws.get('cmdloop_hook'), 'cmdloop_hook'):
                raise BdbError('factory._factory: CustomizedPdb(cmdloop_hook=...) is not the CmdloopHook')
            made = True
        elif isinstance(st, ast.Return):
            if not (made and is_attr_chain(st.value, ['pdb', 'trace_dispatch'])):
                raise BdbError(f'factory._factory: `{norm(st)}` is not `return pdb.trace_dispatch` of a fresh CustomizedPdb')
            returned = True
        elif isinstance(st, ast.Assign) and len(st.targets) == 1 and (is_name(st.targets[0], 'stdio') or is_attr_chain(st.targets[0], ['stdio', 'prompt_end'])):
            continue
        elif is_noise(st):
            continue
        else:
            raise BdbError(f'factory._factory:{st.lineno}: statement `{norm(st).splitlines()[0]}` not recognised')
    if not returned:
        raise BdbError('factory._factory: no `return pdb.trace_dispatch`')
    imp = [st for st in tree.body if isinstance(st, ast.ImportFrom) and st.level == 1 and st.module == 'custom'
           and any(a.name == 'CustomizedPdb' and a.asname is None for a in st.names)]
    if len(imp) != 1:
        raise BdbError('factory.py: `from .custom import CustomizedPdb`')
    return {'hook': coq_list(prog)}


# ---------------------------------------------------------------- Part 3: filters, registration, global trace function

class FScope:
    def __init__(self, where: str, trace_args: str):
        self.where = where
        self.trace_args = trace_args
        self.env: dict[str, str] = {}       # single-assignment locals -> ('frame' | an sv term | ('cond', term))


def hookimpl_info(fn, where: str):
    """None if not a hookimpl, else trylast"""
    for d in fn.decorator_list:
        if is_name(d, 'hookimpl'):
            if len(fn.decorator_list) != 1:
                raise BdbError(f'{where}: decorators besides hookimpl')
            return False
        if isinstance(d, ast.Call) and is_name(d.func, 'hookimpl'):
            if len(fn.decorator_list) != 1:
                raise BdbError(f'{where}: decorators besides hookimpl')
            kw = {k.arg: k.value for k in d.keywords}
            if d.args or set(kw) - {'trylast'}:
                raise BdbError(f'{where}: hookimpl options other than trylast')
            tl = kw.get('trylast')
            if tl is None:
                return False
            if not (isinstance(tl, ast.Constant) and isinstance(tl.value, bool)):
                raise BdbError(f'{where}: trylast is not a literal')
            return tl.value
    return None


def tr_sv(n, sc: FScope) -> str:
    w = f'{sc.where}:{getattr(n, "lineno", "?")}'
    if isinstance(n, ast.Constant) and isinstance(n.value, str):
        return f'(XStr {q(n.value)})'
    if isinstance(n, ast.Constant) and n.value is None:
        return 'XNone'
    if is_attr_chain(n, ['_script', '__name__']):
        return 'XScriptName'
    if isinstance(n, ast.Name) and n.id in sc.env and isinstance(sc.env[n.id], str) and sc.env[n.id] != 'frame':
        return sc.env[n.id]
    if isinstance(n, ast.Attribute) and n.attr == 'co_name' and isinstance(n.value, ast.Attribute) and n.value.attr == 'f_code' \
            and is_frame(n.value.value, sc):
        return 'XCoName'
    if isinstance(n, ast.Call) and isinstance(n.func, ast.Attribute) and n.func.attr == 'get' and isinstance(n.func.value, ast.Attribute) \
            and n.func.value.attr == 'f_globals' and is_frame(n.func.value.value, sc) and len(n.args) == 1 and not n.keywords \
            and isinstance(n.args[0], ast.Constant) and n.args[0].value == '__name__':
        return 'XModName'
    raise BdbError(f'{w}: value `{norm(n)}` not recognised')


def is_frame(n, sc: FScope) -> bool:
    if isinstance(n, ast.Name) and sc.env.get(n.id) == 'frame':
        return True
    return isinstance(n, ast.Subscript) and is_name(n.value, sc.trace_args) and isinstance(n.slice, ast.Constant) and n.slice.value == 0


def tr_fcond(n, sc: FScope) -> str:
    w = f'{sc.where}:{getattr(n, "lineno", "?")}'
    if isinstance(n, ast.UnaryOp) and isinstance(n.op, ast.Not):
        return f'(CNot {tr_fcond(n.operand, sc)})'
    if isinstance(n, ast.Name) and isinstance(sc.env.get(n.id), tuple):
        return sc.env[n.id][1]
    if isinstance(n, ast.Compare) and len(n.ops) == 1:
        op, l, r = n.ops[0], n.left, n.comparators[0]
        if isinstance(op, ast.Eq):
            if is_attr_chain(l, ['self', '_entering_thread']) and isinstance(r, ast.Call) and is_attr_chain(r.func, ['threading', 'current_thread']) \
                    and not r.args and not r.keywords:
                return 'CEnteringHere'
            return f'(CEq {tr_sv(l, sc)} {tr_sv(r, sc)})'
        if isinstance(op, ast.Is) and isinstance(r, ast.Constant) and r.value is None:
            return f'(CIsNone {tr_sv(l, sc)})'
        if isinstance(op, ast.In):
            if is_attr_chain(r, ['self', '_modules_to_trace']):
                return f'(CInMods {tr_sv(l, sc)})'
            if is_attr_chain(r, ['self', '_traced_tasks_and_threads']) and is_task_or_thread(l, sc):
                return 'CTraced'
        raise BdbError(f'{w}: comparison `{norm(n)}` not recognised')
    if is_attr_chain(n, ['self', '_first_module_added']):
        return 'CFirstAdded'
    if isinstance(n, ast.Call) and not n.keywords:
        f = n.func
        if is_attr_chain(f, ['self', '_match_any_']) and len(n.args) == 1:
            sc.uses_match_any = True
            return f'(CSkipMatch {tr_sv(n.args[0], sc)})'
        if is_name(f, 'match_any') and len(n.args) == 2 and is_attr_chain(n.args[1], ['self', '_modules_to_trace']):
            return f'(CMatchMods {tr_sv(n.args[0], sc)})'
        if isinstance(f, ast.Attribute) and is_name(f.value, 'self') and len(n.args) == 1 and is_name(n.args[0], sc.trace_args):
            return f'(CCallSelf {q(f.attr)})'
    raise BdbError(f'{w}: condition `{norm(n)}` not recognised')


def is_task_or_thread(n, sc: FScope) -> bool:
    if isinstance(n, ast.Name) and sc.env.get(n.id) == ('tot',):
        return True
    return isinstance(n, ast.Call) and is_name(n.func, 'current_task_or_thread') and not n.args and not n.keywords


def tr_fbody(sts, sc: FScope) -> str:
    return seq([tr_fstmt(s, sc) for s in strip_doc(sts)], 'FSkip', 'FSeq')


def tr_fstmt(st, sc: FScope) -> str:
    w = f'{sc.where}:{st.lineno}'
    if is_noise(st):
        return ''
    if isinstance(st, ast.If):
        return f'(FIf {tr_fcond(st.test, sc)} {tr_fbody(st.body, sc)} {tr_fbody(st.orelse, sc)})'
    if isinstance(st, ast.Return):
        v = st.value
        if v is None or (isinstance(v, ast.Constant) and v.value is None):
            return '(FReturn FRNone)'
        if isinstance(v, ast.Constant) and isinstance(v.value, bool):
            return f'(FReturn (FRBool {"true" if v.value else "false"}))'
        if isinstance(v, ast.BoolOp) and isinstance(v.op, ast.Or) and len(v.values) == 2 and isinstance(v.values[1], ast.Constant) \
                and v.values[1].value is None:
            return f'(FReturn (FROrNone {tr_fcond(v.values[0], sc)}))'
        return f'(FReturn (FRCond {tr_fcond(v, sc)}))'
    if isinstance(st, ast.Assign) and len(st.targets) == 1:
        t, v = st.targets[0], st.value
        if isinstance(t, ast.Name):
            if t.id in sc.env:
                raise BdbError(f'{w}: local `{t.id}` assigned twice')
            if is_frame(v, sc):
                sc.env[t.id] = 'frame'
                return ''
            if is_task_or_thread(v, sc):
                sc.env[t.id] = ('tot',)
                return ''
            if t.id == 'msg':
                return ''                       # text of a log message
            try:
                sc.env[t.id] = tr_sv(v, sc)
            except BdbError:
                sc.env[t.id] = ('cond', tr_fcond(v, sc))
            return ''
        if isinstance(t, ast.Tuple) and len(t.elts) == 3 and all(isinstance(x, ast.Name) for x in t.elts) and is_name(v, sc.trace_args):
            if t.elts[0].id in sc.env:
                raise BdbError(f'{w}: local `{t.elts[0].id}` assigned twice')
            sc.env[t.elts[0].id] = 'frame'
            return ''
        if is_attr_chain(t, ['self', '_first_module_added']) and isinstance(v, ast.Constant) and isinstance(v.value, bool):
            return f'(FSetFirstAdded {"true" if v.value else "false"})'
    if isinstance(st, ast.Expr) and isinstance(st.value, ast.Call) and not st.value.keywords:
        c = st.value
        f = c.func
        if is_attr_chain(f, ['self', '_traced_tasks_and_threads', 'add']) and len(c.args) == 1 and is_task_or_thread(c.args[0], sc):
            return 'FTracedAdd'
        if is_attr_chain(f, ['self', '_modules_to_trace', 'add']) and len(c.args) == 1:
            return f'(FModsAdd {tr_sv(c.args[0], sc)})'
        if isinstance(f, ast.Attribute) and is_name(f.value, 'self') and len(c.args) == 1 and is_name(c.args[0], sc.trace_args):
            return f'(FCallSelf {q(f.attr)})'
    raise BdbError(f'{w}: statement `{norm(st).splitlines()[0]}` not recognised')


def check_match_any(cls) -> None:
    """self._match_any_ = lru_cache(partial(match_any, patterns=modules_to_skip)) in init(self, modules_to_skip)"""
    init = [f for f in cls.body if isinstance(f, ast.FunctionDef) and f.name == 'init']
    if len(init) != 1 or [a.arg for a in init[0].args.args] != ['self', 'modules_to_skip']:
        raise BdbError(f'filter.py: {cls.name}.init(self, modules_to_skip)')
    want = ast.dump(ast.parse('self._match_any_ = lru_cache(partial(match_any, patterns=modules_to_skip))').body[0])
    if not any(ast.dump(st) == want for st in init[0].body):
        raise BdbError(f'filter.py: {cls.name}._match_any_ is not lru_cache(partial(match_any, patterns=modules_to_skip))')


def filter_defs(repo: Path) -> list[str]:
    tree = parse(repo / SRC_FILTER)
    if not any(isinstance(n, ast.ImportFrom) and n.level == 1 and n.module is None and any(a.name == '_script' and a.asname is None for a in n.names)
               for n in tree.body):
        raise BdbError('filter.py: `from . import _script`')
    out = []
    for cls in tree.body:
        if not isinstance(cls, ast.ClassDef):
            continue
        fns = {f.name: f for f in cls.body if isinstance(f, ast.FunctionDef)}
        flt = fns.get('filter')
        if flt is None or hookimpl_info(flt, f'{cls.name}.filter') is None:
            continue
        if cls.bases or cls.keywords or cls.decorator_list:
            raise BdbError(f'filter.py: {cls.name}: bases/decorators')
        trylast = hookimpl_info(flt, f'{cls.name}.filter')
        if [a.arg for a in flt.args.args] != ['self', 'trace_args']:
            raise BdbError(f'{cls.name}.filter: parameters')
        sc = FScope(f'{cls.name}.filter', 'trace_args')
        body = tr_fbody(flt.body, sc)
        if getattr(sc, 'uses_match_any', False):
            check_match_any(cls)
        helpers = []
        todo = helper_calls(body)
        seen = set()
        while todo:
            h = todo.pop(0)
            if h in seen:
                continue
            seen.add(h)
            hf = fns.get(h)
            if hf is None or hf.decorator_list or [a.arg for a in hf.args.args] != ['self', 'trace_args']:
                raise BdbError(f'{cls.name}.{h}: helper not found / decorated / parameters')
            hsc = FScope(f'{cls.name}.{h}', 'trace_args')
            hb = tr_fbody(hf.body, hsc)
            helpers.append(f'({q(h)}, {hb})')
            todo += helper_calls(hb)
        # who else writes the state the filter reads?  only __init__ (initial values) and on_cmdloop (modelled by c_mods0)
        for name, f in fns.items():
            if name in ('filter', '__init__', 'on_cmdloop', 'context', 'init') or name in seen:
                continue
            if any(isinstance(x, ast.Attribute) and x.attr in ('_modules_to_trace', '_first_module_added', '_traced_tasks_and_threads', '_entering_thread')
                   for x in ast.walk(f)):
                raise BdbError(f'{cls.name}.{name}: touches the state of the filter')
        if '__init__' in fns:
            check_filer_init(cls.name, fns['__init__'])
        out.append(f'mkFC {q(cls.name)} (Some ({"true" if trylast else "false"},\n    {body}))\n    {coq_list(helpers)}')
    return out


def helper_calls(term: str) -> list[str]:
    import re
    return re.findall(r'\((?:FCallSelf|CCallSelf) "([^"]+)"\)', term)


def check_filer_init(cname: str, fn) -> None:
    """initial values: _modules_to_trace empty set, _first_module_added False, _traced_tasks_and_threads empty set"""
    want = {'_modules_to_trace': 'set', '_first_module_added': False, '_traced_tasks_and_threads': 'set'}
    got = {}
    for st in strip_doc(fn.body):
        t = st.targets[0] if isinstance(st, ast.Assign) and len(st.targets) == 1 else (st.target if isinstance(st, ast.AnnAssign) else None)
        if isinstance(t, ast.Attribute) and is_name(t.value, 'self') and t.attr in want:
            v = st.value
            if isinstance(v, ast.Constant) and v.value is False:
                got[t.attr] = False
            elif isinstance(v, ast.Call) and not v.args and not v.keywords and (is_name(v.func, 'set') or (isinstance(v.func, ast.Subscript) and is_name(v.func.value, 'set'))):
                got[t.attr] = 'set'
            else:
                raise BdbError(f'{cname}.__init__: initial value of {t.attr}')
    for k, v in want.items():
        if k in got and got[k] != v:
            raise BdbError(f'{cname}.__init__: initial value of {k}')
    if any(k not in got for k in want) and got:
        raise BdbError(f'{cname}.__init__: not all of {sorted(want)} are initialised')


def register_prog(repo: Path) -> str:
    tree = parse(repo / SRC_REGISTER)
    fn = find(tree.body, ast.FunctionDef, 'register', SRC_REGISTER)
    if [a.arg for a in fn.args.args] != ['hook', 'run_arg'] or fn.decorator_list:
        raise BdbError('register: parameters/decorators')

    def body(sts) -> str:
        out = []
        for st in strip_doc(sts):
            w = f'register:{st.lineno}'
            if isinstance(st, ast.If):
                if not is_attr_chain(st.test, ['run_arg', 'trace_modules']):
                    raise BdbError(f'{w}: condition `{norm(st.test)}` is not run_arg.trace_modules')
                out.append(f'(RIfTraceModules {body(st.body)} {body(st.orelse)})')
            elif isinstance(st, ast.Expr) and isinstance(st.value, ast.Call) and is_attr_chain(st.value.func, ['hook', 'register']) \
                    and len(st.value.args) == 1 and not st.value.keywords and isinstance(st.value.args[0], ast.Name):
                out.append(f'(RRegister {q(st.value.args[0].id)})')
            elif is_noise(st):
                continue
            else:
                raise BdbError(f'{w}: statement `{norm(st).splitlines()[0]}` not recognised')
        return seq(out, 'RSkip', 'RSeq')

    # the names registered are the classes of filter.py (no aliasing)
    imported = {}
    for st in tree.body:
        if isinstance(st, ast.ImportFrom):
            for a in st.names:
                imported[a.asname or a.name] = (st.module, a.name)
    for name, (mod, orig) in imported.items():
        if mod == 'filter' and name != orig:
            raise BdbError(f'plugins/__init__.py: filter class {orig} imported as {name}')
        if mod != 'filter' and orig.startswith(('Filter', 'Filer')):
            raise BdbError(f'plugins/__init__.py: {orig} imported from {mod}')
    return body(fn.body)


def other_filter_impls(repo: Path) -> None:
    """no `filter` hookimpl outside filter.py; the spec is firstresult"""
    base = repo / 'nextline' / 'spawned' / 'plugin'
    for p in sorted((base / 'plugins').rglob('*.py')):
        if p.name == 'filter.py':
            continue
        for cls in ast.walk(parse(p)):
            if isinstance(cls, ast.ClassDef):
                for f in cls.body:
                    if isinstance(f, ast.FunctionDef) and f.name == 'filter' and hookimpl_info(f, f'{p.name}:{cls.name}.filter') is not None:
                        raise BdbError(f'{p}: a `filter` hook implementation outside filter.py')
    spec = parse(repo / SRC_SPEC)
    fs = [n for n in spec.body if isinstance(n, ast.FunctionDef) and n.name == 'filter']
    want = ast.dump(ast.parse('hookspec(firstresult=True)', mode='eval').body)
    if len(fs) != 1 or not any(ast.dump(d) == want for d in fs[0].decorator_list):
        raise BdbError('spec.py: filter is not declared hookspec(firstresult=True)')


def global_prog(repo: Path) -> str:
    tree = parse(repo / SRC_GLOBAL)
    cls = find(tree.body, ast.ClassDef, 'GlobalTraceFunc', SRC_GLOBAL)
    fn = find(cls.body, ast.FunctionDef, 'global_trace_func', 'GlobalTraceFunc')
    if [a.arg for a in fn.args.args] != ['self', 'frame', 'event', 'arg'] or hookimpl_info(fn, 'global_trace_func') is None:
        raise BdbError('global_trace_func: parameters/decorators')

    def is_tuple_args(k) -> bool:
        return isinstance(k, ast.Tuple) and [norm(x) for x in k.elts] == ['frame', 'event', 'arg']

    def gexp(n, w) -> str:
        if isinstance(n, ast.Constant) and n.value is None:
            return 'GNone'
        if isinstance(n, ast.Call) and not n.args:
            kws = {k.arg: k.value for k in n.keywords}
            if is_attr_chain(n.func, ['self', '_hook', 'hook', 'filter']) and set(kws) == {'trace_args'} and is_tuple_args(kws['trace_args']):
                return 'GHookFilter'
            if is_attr_chain(n.func, ['self', '_hook', 'hook', 'local_trace_func']) and set(kws) == {'frame', 'event', 'arg'} \
                    and all(is_name(kws[k], k) for k in kws):
                return 'GLocalTraceFunc'
        raise BdbError(f'{w}: expression `{norm(n)}` not recognised')

    def body(sts) -> str:
        out = []
        for st in strip_doc(sts):
            w = f'global_trace_func:{st.lineno}'
            if is_noise(st):
                continue
            if isinstance(st, ast.If) and not st.orelse:
                out.append(f'GIf {gexp(st.test, w)} {body(st.body)}')
            elif isinstance(st, ast.Return):
                out.append(f'GReturn {gexp(st.value, w) if st.value is not None else "GNone"}')
            elif isinstance(st, ast.Expr) and isinstance(st.value, ast.Call) and is_attr_chain(st.value.func, ['self', '_hook', 'hook', 'filtered']) \
                    and not st.value.args and [k.arg for k in st.value.keywords] == ['trace_args'] and is_tuple_args(st.value.keywords[0].value):
                out.append('GFiltered')
            else:
                raise BdbError(f'{w}: statement `{norm(st).splitlines()[0]}` not recognised')
        return coq_list(out)

    return body(fn.body)


def local_trace_prog(repo: Path) -> str:
    tree = parse(repo / SRC_UTILS)
    wc = find(tree.body, ast.FunctionDef, 'WithContext', SRC_UTILS)
    cl = find(wc.body, ast.FunctionDef, '_create_local_trace', 'WithContext')
    gt = find(wc.body, ast.FunctionDef, '_global_trace', 'WithContext')
    lt = find(cl.body, ast.FunctionDef, '_local_trace', '_create_local_trace')
    # _global_trace: return _create_local_trace()(frame, event, arg)  -- a FRESH closure per call event
    gb = [st for st in strip_doc(gt.body) if not is_noise(st)]
    want = ast.dump(ast.parse('return _create_local_trace()(frame, event, arg)').body[0])
    if len(gb) != 1 or ast.dump(gb[0]) != want:
        raise BdbError('WithContext._global_trace is not `return _create_local_trace()(frame, event, arg)`')
    rest = [st for st in strip_doc(wc.body) if st not in (cl, gt) and not is_noise(st)]
    if len(rest) != 1 or not (isinstance(rest[0], ast.Return) and is_name(rest[0].value, '_global_trace')):
        raise BdbError('WithContext does not return _global_trace')
    # _create_local_trace: next_trace = trace; def _local_trace; return _local_trace
    cb = [st for st in strip_doc(cl.body) if st is not lt and not is_noise(st)]
    ok = len(cb) == 2 and isinstance(cb[0], (ast.Assign, ast.AnnAssign)) and isinstance(cb[1], ast.Return) and is_name(cb[1].value, '_local_trace')
    if ok:
        t = cb[0].target if isinstance(cb[0], ast.AnnAssign) else cb[0].targets[0]
        ok = is_name(t, 'next_trace') and is_name(cb[0].value, 'trace')
    if not ok:
        raise BdbError('WithContext._create_local_trace: `next_trace = trace` ... `return _local_trace`')

    def wexp(n, w) -> str:
        if n is None or (isinstance(n, ast.Constant) and n.value is None):
            return 'WNone'
        if is_name(n, '_local_trace'):
            return 'WLocalTrace'
        if is_name(n, 'next_trace'):
            return 'WNextTrace'
        raise BdbError(f'{w}: `{norm(n)}` not recognised')

    def body(sts) -> str:
        out = []
        for st in strip_doc(sts):
            w = f'_local_trace:{st.lineno}'
            if is_noise(st) or isinstance(st, ast.Nonlocal):
                continue
            if isinstance(st, ast.Assert) and not any(isinstance(x, (ast.Call, ast.NamedExpr)) for x in ast.walk(st)):
                continue
            if isinstance(st, ast.With):
                c = st.items[0].context_expr if len(st.items) == 1 and st.items[0].optional_vars is None else None
                if not (isinstance(c, ast.Call) and is_name(c.func, 'context') and [norm(a) for a in c.args] == ['frame', 'event', 'arg'] and not c.keywords):
                    raise BdbError(f'{w}: `with` other than `with context(frame, event, arg):`')
                out += body_list(st.body)
            elif isinstance(st, ast.If) and not st.orelse and isinstance(st.test, ast.NamedExpr) and is_name(st.test.target, 'next_trace') \
                    and isinstance(st.test.value, ast.Call) and is_name(st.test.value.func, 'next_trace') \
                    and [norm(a) for a in st.test.value.args] == ['frame', 'event', 'arg'] and not st.test.value.keywords:
                out.append(f'WIfAssignNextTrace {coq_list(body_list(st.body))}')
            elif isinstance(st, ast.Return):
                out.append(f'WReturn {wexp(st.value, w)}')
            else:
                raise BdbError(f'{w}: statement `{norm(st).splitlines()[0]}` not recognised')
        return out

    def body_list(sts):
        return body(sts)

    return coq_list(body(lt.body))


def sys_trace_guard(repo: Path) -> bool:
    """sys_trace(trace_func, thread): threading.settrace(trace_func) only under `if thread:`; sys.settrace(trace_func) unconditionally"""
    tree = parse(repo / SRC_CALL)
    fn = find(tree.body, ast.FunctionDef, 'sys_trace', SRC_CALL)
    if [a.arg for a in fn.args.args] != ['trace_func', 'thread']:
        raise BdbError('sys_trace: parameters')
    guarded = None
    sys_set = False
    seen_yield = False
    for st in strip_doc(fn.body):
        if isinstance(st, ast.Try):
            seen_yield = True
            continue
        if seen_yield:
            raise BdbError(f'sys_trace:{st.lineno}: statement after the try/finally')
        calls = [x for x in ast.walk(st) if isinstance(x, ast.Call) and is_attr_chain(x.func, ['threading', 'settrace'])]
        if calls:
            ok = isinstance(st, ast.If) and is_name(st.test, 'thread') and not st.orelse and len(st.body) == 1 and len(calls) == 1 \
                and isinstance(st.body[0], ast.Expr) and st.body[0].value is calls[0] and len(calls[0].args) == 1 and is_name(calls[0].args[0], 'trace_func')
            if not ok or guarded is not None:
                raise BdbError(f'sys_trace:{st.lineno}: threading.settrace is not called exactly once under `if thread:`')
            guarded = True
            continue
        if isinstance(st, ast.Expr) and isinstance(st.value, ast.Call) and is_attr_chain(st.value.func, ['sys', 'settrace']):
            if not (len(st.value.args) == 1 and is_name(st.value.args[0], 'trace_func')) or sys_set:
                raise BdbError(f'sys_trace:{st.lineno}: `{norm(st)}`')
            sys_set = True
            continue
        if isinstance(st, ast.Assign) and len(st.targets) == 1 and isinstance(st.targets[0], ast.Name) and st.targets[0].id.startswith('org_'):
            continue
        raise BdbError(f'sys_trace:{st.lineno}: statement `{norm(st).splitlines()[0]}` not recognised')
    if not sys_set or not guarded:
        raise BdbError('sys_trace: sys.settrace(trace_func) / guarded threading.settrace(trace_func) missing')
    return True


# ---------------------------------------------------------------- all of it

def translate(repo: Path) -> str:
    repo = Path(repo)
    bm = bdb_methods()
    cd = custom_defs(repo)
    fd = factory_defs(repo)
    other_filter_impls(repo)
    fcs = filter_defs(repo)
    reg = register_prog(repo)
    glob = global_prog(repo)
    loc = local_trace_prog(repo)
    guard = sys_trace_guard(repo)

    def mlist(ms):
        return '[' + ';\n   '.join(ms) + ']'

    L = [
        '(** GENERATED by translate/bdb_funs.py (ast, CPython %d.%d) -- do not edit.' % sys.version_info[:2],
        "    From the installed CPython bdb.py (class Bdb) and, in /repo,",
        f'    {SRC_CUSTOM}, {SRC_FACTORY},',
        f'    {SRC_FILTER}, {SRC_REGISTER},',
        f'    {SRC_GLOBAL}, {SRC_UTILS}, {SRC_CALL}.',
        '    Terms of Bdb/Syntax.v; interpreted and tied to Bdb/Model.v by Bdb/Tie.v. *)',
        'From Coq Require Import List String ZArith.',
        'From NL Require Import Bdb.Syntax.',
        'Import ListNotations.',
        'Local Open Scope string_scope.',
        '',
        '(** bdb.Bdb: trace_dispatch, dispatch_*, stop_here, _set_stopinfo, set_until/step/next/return *)',
        f'Definition bdb_methods : list method :=\n  {mlist(bm)}.',
        '',
        '(** CustomizedPdb: the Bdb methods it overrides (they shadow the ones above) *)',
        f'Definition custom_methods : list method :=\n  {mlist(cd["methods"])}.',
        '',
        '(** CustomizedPdb.__init__, as far as the stop logic is concerned *)',
        f'Definition custom_init : method :=\n  {cd["init"]}.',
        '',
        '(** every method CustomizedPdb defines besides __init__ *)',
        f'Definition custom_overrides : list string := {coq_list([q(x) for x in cd["overrides"]])}.',
        '',
        '(** CustomizedPdb.cmdloop *)',
        f'Definition cmdloop_prog : cstmt :=\n  {cd["cmdloop"]}.',
        '',
        '(** factory.py CmdloopHook: the context manager factory passed to CustomizedPdb as cmdloop_hook *)',
        f'Definition cmdloop_hook_prog : list hstmt := {fd["hook"]}.',
        '',
        '(** filter.py: the classes implementing the firstresult hook `filter` *)',
        f'Definition filter_classes : list fclass :=\n  {mlist(fcs)}.',
        '',
        '(** plugins/__init__.py register(hook, run_arg) *)',
        f'Definition register_prog : rstmt :=\n  {reg}.',
        '',
        '(** GlobalTraceFunc.global_trace_func(self, frame, event, arg) *)',
        f'Definition global_trace_prog : list gstmt := {glob}.',
        '',
        '(** WithContext._local_trace(frame, event, arg), inside `with context(frame, event, arg):` *)',
        f'Definition local_trace_prog : list wstmt := {loc}.',
        '',
        '(** sys_trace: sys.settrace(trace_func) always, threading.settrace(trace_func) only under `if thread:` *)',
        f'Definition sys_trace_thread_guarded : bool := {"true" if guard else "false"}.',
        '',
    ]
    return '\n'.join(L)


if __name__ == '__main__':
    print(translate(Path(sys.argv[1] if len(sys.argv) > 1 else '/repo')))
