"""Fail-closed translator: nextline/fsm/callback.py + nextline/plugin/plugins/session/session.py
-> Gen/CallbackSkeleton.v

Control-flow skeletons (structured statements) of
  Callback.start_run, Callback._run, Callback._finish          (nextline/fsm/callback.py)
  RunSession.run, relay_events                                 (session.py; both asynccontextmanagers)
used by coq/theories/Life/FailStart.v (what happens when ANY await of the run session raises).

Every leaf statement must be listed in the tables below (compared after `ast.unparse`, i.e.
modulo comments and layout) and every compound statement must have a recognised shape;
anything else raises SkeletonError and `./check C12` reports a broken tie obligation.
"""
from __future__ import annotations

import ast
import sys
from pathlib import Path

OUTPUT = 'CallbackSkeleton.v'
SRC_CB = 'nextline/fsm/callback.py'
SRC_SESSION = 'nextline/plugin/plugins/session/session.py'


class SkeletonError(Exception):
    pass


# leaf -> Coq statement ('' = no effect of interest: dropped)
CB_LEAVES = {
    'self._run_finished = asyncio.Event()': 'Act NewRunFinished',
    'started = asyncio.Event()': 'Act NewStarted',
    'self._task_run = asyncio.create_task(self._run(started=started))': 'Act CreateTaskRun',
    'await started.wait()': 'AwaitAct AwaitStarted',
    'started.set()': 'Act SetStarted',
    'await self._finish()': 'CallFinish',
    'self._context.run_arg = None': 'Act SetRunArgNone',
    'await self._machine.finish()': 'AwaitAct Finish',
    'self._run_finished.set()': 'Act SetRunFinished',
}
CB_WITH = {'self._hook.awith.run(context=self._context)': 'HookRun'}

SESSION_LEAVES = {
    'assert context.run_arg': '',
    'context.exited_process = None': '',
    "mp_context = mp.get_context('spawn')": '',
    'queue_in = cast(QueueIn, mp_context.Queue())': '',
    'queue_out = cast(QueueOut, mp_context.Queue())': 'Act InitSession',
    'context.send_command = SendCommand(queue_in)': '',
    'context.open_prompts.clear()': '',
    'context.running_process = await run_in_process(func=partial(spawned.main, context.run_arg), mp_context=mp_context, '
    'initializer=partial(spawned.set_queues, queue_in, queue_out), collect_logging=True)': 'AwaitAct Spawn',
    'await _on_start_run(context, context.running_process)': 'AwaitAct StartRunHook',
    'yield': 'Yield',
    'context.exited_process = await context.running_process': 'AwaitAct AwaitProcess',
    'context.running_process = None': 'Act SetExited',
    'await _on_end_run(context, context.exited_process)': 'AwaitAct EndRunHook',
}
# compound statements of RunSession.run that are bookkeeping only (no await, cannot start/stop anything)
SESSION_BOOKKEEPING = {
    'if context.exited_process.returned is None:\n    context.exited_process.returned = RunResult()',
    'if context.exited_process.raised:\n    logger = getLogger(__name__)\n    logger.exception(context.exited_process.raised)',
}
SESSION_WITH = {'relay_events(context, queue_out)': 'RelayEvents'}

RELAY_LEAVES = {
    'logger = getLogger(__name__)': '',
    'in_finally = False': '',
    'timer = Timer(timeout=1)': '',
    'task = asyncio.create_task(_monitor())': 'Act MonitorStart',
    'yield': 'Yield',
    'in_finally = True': 'Act MarkInFinally',
    'timer.restart()': '',
    'await asyncio.to_thread(queue.put, None)': 'AwaitAct Sentinel',
    'await task': 'AwaitAct AwaitMonitor',
}
RELAY_DRAIN = ("while not queue.empty():\n    await asyncio.sleep(0)\n    if timer.is_timeout():\n"
               "        logger.warning(f'Timeout. the queue is not empty: {queue!r}')\n        break")
RELAY_MONITOR = ("async def _monitor() -> None:\n    while (event := (await asyncio.to_thread(queue.get))) is not None:\n"
                 "        logger.debug(f'event: {event!r}')\n        await context.hook.ahook.on_event_in_process(context=context, event=event)\n"
                 "        if in_finally:\n            timer.restart()")


def norm(node) -> str:
    return ast.unparse(node).strip()


def strip_doc(body):
    if body and isinstance(body[0], ast.Expr) and isinstance(body[0].value, ast.Constant) and isinstance(body[0].value.value, str):
        return body[1:]
    return body


def seq(items: list[str]) -> str:
    items = [i for i in items if i]
    if not items:
        return 'Skip'
    if len(items) == 1:
        return items[0]
    return f'(Seq {items[0]} {seq(items[1:])})'


def par(s: str) -> str:
    return s if ' ' not in s or s.startswith('(') else f'({s})'


def tr_body(body, leaves: dict, withs: dict, extra: dict, where: str) -> str:
    out = []
    for st in strip_doc(body):
        ln = getattr(st, 'lineno', '?')
        s = norm(st)
        if isinstance(st, ast.Try):
            if st.handlers or st.orelse or not st.finalbody:
                raise SkeletonError(f'{where}:{ln}: try statement other than try/finally')
            out.append(f'(TryFinally {par(tr_body(st.body, leaves, withs, extra, where))} '
                       f'{par(tr_body(st.finalbody, leaves, withs, extra, where))})')
        elif isinstance(st, ast.AsyncWith):
            if len(st.items) != 1 or st.items[0].optional_vars is not None or norm(st.items[0].context_expr) not in withs:
                raise SkeletonError(f'{where}:{ln}: `async with` not recognised: {norm(st).splitlines()[0]}')
            out.append(f'(WithCtx {withs[norm(st.items[0].context_expr)]} {par(tr_body(st.body, leaves, withs, extra, where))})')
        elif s in extra:
            out.append(extra[s])
        elif s in leaves:
            out.append(par(leaves[s]) if leaves[s] else '')
        elif isinstance(st, (ast.With, ast.If, ast.For, ast.While, ast.AsyncFor, ast.Return, ast.Raise, ast.FunctionDef,
                             ast.AsyncFunctionDef)):
            raise SkeletonError(f'{where}:{ln}: compound/control statement not recognised: {s.splitlines()[0]}')
        else:
            raise SkeletonError(f'{where}:{ln}: statement `{s}` not recognised')
    return seq(out)


def find(body, kind, name):
    xs = [n for n in body if isinstance(n, kind) and n.name == name]
    if len(xs) != 1:
        raise SkeletonError(f'expected exactly one {kind.__name__} {name}')
    return xs[0]


def decorators(fn) -> list[str]:
    return [norm(d) for d in fn.decorator_list]


def skeleton(repo: Path) -> dict:
    res = {}
    pc = repo / SRC_CB
    ps = repo / SRC_SESSION
    for p in (pc, ps):
        if not p.exists():
            raise SkeletonError(f'{p} not found')
    cb = find(ast.parse(pc.read_text()).body, ast.ClassDef, 'Callback')
    for nm, key in (('start_run', 'start_run'), ('_run', 'run'), ('_finish', 'finish')):
        fn = find(cb.body, ast.AsyncFunctionDef, nm)
        res[key] = tr_body(fn.body, CB_LEAVES, CB_WITH, {}, f'Callback.{nm}')
    # nothing else in Callback may touch run_arg / the events / the finish trigger
    for fn in cb.body:
        if isinstance(fn, (ast.FunctionDef, ast.AsyncFunctionDef)) and fn.name not in ('start_run', '_run', '_finish', 'initialize_run'):
            src = norm(fn)
            for needle in ('run_arg', '_run_finished.set', '_machine.finish', '_task_run ='):
                if needle in src:
                    raise SkeletonError(f'Callback.{fn.name}: touches `{needle}` outside the modelled methods')
    ts = ast.parse(ps.read_text())
    rs = find(ts.body, ast.ClassDef, 'RunSession')
    run = find(rs.body, ast.AsyncFunctionDef, 'run')
    if decorators(run) != ['hookimpl', 'contextlib.asynccontextmanager']:
        raise SkeletonError(f'RunSession.run decorators {decorators(run)}')
    res['session'] = tr_body(run.body, SESSION_LEAVES, SESSION_WITH, {k: '' for k in SESSION_BOOKKEEPING}, 'RunSession.run')
    re_ = find(ts.body, ast.AsyncFunctionDef, 'relay_events')
    if decorators(re_) != ['contextlib.asynccontextmanager']:
        raise SkeletonError(f'relay_events decorators {decorators(re_)}')
    res['relay'] = tr_body(re_.body, RELAY_LEAVES, {}, {RELAY_DRAIN: '(AwaitAct MonitorDrain)', RELAY_MONITOR: ''}, 'relay_events')
    for k in ('session', 'relay'):
        if res[k].count('Yield') != 1:
            raise SkeletonError(f'{k}: expected exactly one yield')
    return res


def translate(repo: Path) -> str:
    sk = skeleton(Path(repo))
    L = [
        '(** GENERATED by translate/callback_skeleton.py from',
        f'    {SRC_CB} and {SRC_SESSION} (ast, CPython {sys.version_info[0]}.{sys.version_info[1]}) -- do not edit.',
        '    Control-flow skeletons of Callback.start_run/_run/_finish, RunSession.run, relay_events. *)',
        '',
        'Inductive act :=',
        '| NewRunFinished | NewStarted | CreateTaskRun | AwaitStarted       (* Callback.start_run *)',
        '| SetStarted        (* started.set(): unblocks the run() call *)',
        '| SetRunArgNone     (* self._context.run_arg = None *)',
        '| Finish            (* await self._machine.finish(): the transition to `finished`, on_finished hooks *)',
        '| SetRunFinished    (* self._run_finished.set() *)',
        '| InitSession       (* queues, send_command *)',
        '| Spawn             (* context.running_process = await run_in_process(...) *)',
        '| StartRunHook      (* await _on_start_run(...) *)',
        '| AwaitProcess      (* context.exited_process = await context.running_process *)',
        '| SetExited         (* context.running_process = None (and bookkeeping of the result) *)',
        '| EndRunHook        (* await _on_end_run(...) *)',
        '| MonitorStart      (* task = asyncio.create_task(_monitor()) *)',
        '| MarkInFinally | MonitorDrain | Sentinel | AwaitMonitor',
        '| UserEnter | UserExit.   (* not generated: entry/exit of a user plugin\'s own `run` context (Life/FailStart.v) *)',
        '',
        'Inductive ctx := HookRun | RelayEvents.',
        '',
        'Inductive stmt :=',
        '| Skip',
        '| Seq (s1 s2 : stmt)',
        '| Act (a : act)                  (* cannot raise *)',
        '| AwaitAct (a : act)             (* an await that may raise *)',
        '| Yield                          (* the `yield` of an asynccontextmanager *)',
        '| TryFinally (body fin : stmt)',
        '| WithCtx (c : ctx) (body : stmt)   (* async with ... *)',
        '| CallFinish.                    (* await self._finish() *)',
        '',
        f'Definition start_run_skeleton : stmt :=\n  {sk["start_run"]}.',
        f'Definition run_skeleton : stmt :=\n  {sk["run"]}.',
        f'Definition finish_skeleton : stmt :=\n  {sk["finish"]}.',
        f'Definition session_skeleton : stmt :=\n  {sk["session"]}.',
        f'Definition relay_skeleton : stmt :=\n  {sk["relay"]}.',
        '',
    ]
    return '\n'.join(L)


if __name__ == '__main__':
    print(translate(Path(sys.argv[1] if len(sys.argv) > 1 else '/repo')))
