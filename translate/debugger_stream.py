"""Fail-closed translator: where the debugger's text goes and where the script's text goes (C13)
   -> Gen/DebuggerStream.v

Translates with `ast` (expressions and statements are parsed by shape, no pinned source strings)

  nextline/spawned/plugin/plugins/pdb_/stream.py
      StdInOut.__init__/write/flush/readline -> stdinout_init / stdinout_write / stdinout_flush / stdinout_readline
                                                (statement trees: which attribute each statement reads / appends to /
                                                 clears, the call of the prompt function, the returned value, and -- if
                                                 it were there -- a write to sys.stdout)
  nextline/spawned/plugin/plugins/pdb_/factory.py
      Factory, Factory._factory             -> factory_outer / factory_inner (StdInOut(...) and CustomizedPdb(...) with
                                                their arguments as terms, `x.prompt_end = pdb.prompt`, the returned
                                                trace function)
      PdbInstanceFactory                    -> checked: Factory(hook) once in init, self._factory() per
                                                create_local_trace_func
  nextline/spawned/plugin/plugins/pdb_/custom.py
      CustomizedPdb.__init__                -> pdb_super_init (what it hands to Pdb.__init__ as stdin / stdout)
  nextline/utils/peek.py
      peek_textio                           -> peek_textio_prog (save / install / yield / restore, in source order)
      peek_textio.<inner write>             -> peek_wrapper (callback call, original write, returned value)
      peek_stdout                           -> peek_stdout_target, peek_stdout_passes_callback
  nextline/spawned/plugin/plugins/peek.py
      peek_stdout_by_key                    -> peek_wiring (which closures wrap the callback)
  nextline/spawned/plugin/plugins/repeat.py
      Repeater.on_write_stdout              -> on_write_stdout_event
  nextline/spawned/**, nextline/utils/**    -> other_stdout_uses (every other `print(...)`, `sys.stdout`,
                                                `sys.__stdout__` in code that runs in the child; must stay [])

into terms of coq/theories/Stdout/DebugSyntax.v.  coq/theories/Stdout/DebugTie.v interprets them.

Fail closed: inside the translated functions every statement must be recognised or be IGNORABLE
(docstring, `pass`, `logger = getLogger(..)`, `logger.xxx(<no Call / NamedExpr / Await / Yield / Lambda / comprehension>)`,
annotation without value).  Nothing else is dropped: asserts are translated (SAssert), every other statement either has
a constructor or raises.  Class bodies: only the expected bases, only the expected methods (StdInOut: the four
translated; CustomizedPdb: __init__/_cmdloop/cmdloop/set_continue, whose calls are emitted and checked in Coq), no
decorators, no class-level statements.  Modules: no top-level statement other than imports, defs, classes, docstrings and
assignments to fresh names that mention no translated name (no monkeypatching, no rebinding).  An
expression in a tracked position that contains no call at all but is not understood becomes `EOpaque`
(an unknown value: a theorem that depends on it fails); anything with a call that is not understood
raises DebugStreamError and `./check C13` reports a broken tie obligation.
"""
from __future__ import annotations

import ast
import sys
from pathlib import Path

OUTPUT = 'DebuggerStream.v'

SRC_STREAM = 'nextline/spawned/plugin/plugins/pdb_/stream.py'
SRC_FACTORY = 'nextline/spawned/plugin/plugins/pdb_/factory.py'
SRC_CUSTOM = 'nextline/spawned/plugin/plugins/pdb_/custom.py'
SRC_PEEK_UTIL = 'nextline/utils/peek.py'
SRC_UTILS_INIT = 'nextline/utils/__init__.py'
SRC_PEEK_PLUGIN = 'nextline/spawned/plugin/plugins/peek.py'
SRC_REPEAT = 'nextline/spawned/plugin/plugins/repeat.py'
CHILD_DIRS = ('nextline/spawned', 'nextline/utils')

STDINOUT_METHODS = ('__init__', 'write', 'flush', 'readline')
CUSTOM_METHODS = ('__init__', '_cmdloop', 'cmdloop', 'set_continue')


class DebugStreamError(Exception):
    pass


# ---------------------------------------------------------------- generic helpers

def norm(node) -> str:
    try:
        return ast.unparse(node).strip().splitlines()[0][:140]
    except Exception:
        return repr(node)


def where(fn: str, node) -> str:
    return f'{fn}:{getattr(node, "lineno", "?")}'


def fail(fn: str, node, why: str):
    raise DebugStreamError(f'{where(fn, node)}: {why}: `{norm(node)}`')


def strip_doc(body):
    if body and isinstance(body[0], ast.Expr) and isinstance(body[0].value, ast.Constant) and isinstance(body[0].value.value, str):
        return body[1:]
    return body


def is_name(n, s: str | None = None) -> bool:
    return isinstance(n, ast.Name) and (s is None or n.id == s)


def is_attr_chain(n, chain: list[str]) -> bool:
    for part in reversed(chain[1:]):
        if not (isinstance(n, ast.Attribute) and n.attr == part):
            return False
        n = n.value
    return is_name(n, chain[0])


def is_const(n, v) -> bool:
    return isinstance(n, ast.Constant) and n.value is v


IMPURE = (ast.Call, ast.Await, ast.Yield, ast.YieldFrom, ast.NamedExpr, ast.Lambda, ast.ListComp, ast.SetComp,
          ast.DictComp, ast.GeneratorExp)


def pure(node) -> bool:
    """no call, no assignment expression, nothing that runs code of its own"""
    return not any(isinstance(n, IMPURE) for n in ast.walk(node))


def is_logging(st) -> bool:
    """`logger.xxx(<no calls>)` or `logger = getLogger(<no calls>)`"""
    if isinstance(st, ast.Expr) and isinstance(st.value, ast.Call):
        c = st.value
        if isinstance(c.func, ast.Attribute) and is_name(c.func.value, 'logger'):
            return all(pure(a) for a in c.args) and all(pure(k.value) for k in c.keywords)
        return False
    if isinstance(st, ast.Assign) and len(st.targets) == 1 and is_name(st.targets[0], 'logger'):
        c = st.value
        return isinstance(c, ast.Call) and is_name(c.func, 'getLogger') and all(pure(a) for a in c.args) and not c.keywords
    return False


def find(body, kind, name, what):
    xs = [n for n in body if isinstance(n, kind) and n.name == name]
    if len(xs) != 1:
        raise DebugStreamError(f'{what}: expected exactly one {kind.__name__} `{name}`, found {len(xs)}')
    return xs[0]


def plain_params(fn, what: str, allow_posonly=False) -> list[str]:
    a = fn.args
    if a.vararg or a.kwarg or a.kwonlyargs or (a.posonlyargs and not allow_posonly):
        raise DebugStreamError(f'{what}: *args / **kwargs / keyword-only / positional-only parameters')
    return [x.arg for x in a.posonlyargs + a.args]


def parse(repo: Path, rel: str):
    p = repo / rel
    if not p.exists():
        raise DebugStreamError(f'{p} not found')
    try:
        return ast.parse(p.read_text())
    except SyntaxError as e:
        raise DebugStreamError(f'{p}: {e}')


def imports_of(tree) -> dict:
    imp = {}
    for st in tree.body:
        if isinstance(st, ast.ImportFrom):
            for a in st.names:
                imp[a.asname or a.name] = ('.' * st.level + (st.module or ''), a.name)
        elif isinstance(st, ast.Import):
            for a in st.names:
                imp[a.asname or a.name] = ('', a.name)
    return imp


def idents(node) -> set:
    out = set()
    for n in ast.walk(node):
        if isinstance(n, ast.Name):
            out.add(n.id)
        elif isinstance(n, ast.Attribute):
            out.add(n.attr)
    return out


def check_module(tree, rel: str, translated: set):
    """no top-level statement rebinds or monkeypatches a translated name"""
    seen = set()
    for st in tree.body:
        if isinstance(st, (ast.Import, ast.ImportFrom)):
            for a in st.names:
                nm = (a.asname or a.name).split('.')[0]
                if nm in translated and not (isinstance(st, ast.ImportFrom) and nm in IMPORTED_TRANSLATED.get(rel, ())):
                    fail(rel, st, 'import that rebinds a translated name')
            continue
        if isinstance(st, (ast.FunctionDef, ast.AsyncFunctionDef, ast.ClassDef)):
            if st.name in seen and st.name in translated:
                fail(rel, st, 'a translated name is defined twice')
            seen.add(st.name)
            continue
        if isinstance(st, ast.Expr) and isinstance(st.value, ast.Constant):
            continue
        if isinstance(st, (ast.Assign, ast.AnnAssign)):
            targets = st.targets if isinstance(st, ast.Assign) else [st.target]
            if all(isinstance(t, ast.Name) and t.id not in translated for t in targets) and not (idents(st) & translated) \
                    and not any(isinstance(n, ast.Call) and is_name(n.func) and n.func.id in ('setattr', 'globals', 'vars', 'exec', 'eval')
                                for n in ast.walk(st)):
                continue
        fail(rel, st, 'module-level statement that may rebind / monkeypatch translated code')


# translated names a module legitimately imports (and uses) from another translated module
IMPORTED_TRANSLATED: dict = {}


# ---------------------------------------------------------------- Coq text

def cstr(s: str) -> str:
    if not s.isascii() or any(ord(c) < 32 for c in s):
        raise DebugStreamError(f'identifier {s!r} cannot be written as a Coq string')
    return '"' + s.replace('"', '""') + '"'


def ctext(s: str) -> str:
    return '[' + '; '.join('NL' if c == '\n' else f'Other {ord(c)}' for c in s) + ']'


def clist(items: list[str]) -> str:
    return '[' + '; '.join(items) + ']'


def seq(items: list[str]) -> str:
    items = [i for i in items if i]
    if not items:
        return 'SSkip'
    if len(items) == 1:
        return items[0]
    return f'(SSeq {items[0]} {seq(items[1:])})'


# ---------------------------------------------------------------- the small imperative language

def is_sys_stream(n, which: str) -> bool:
    return is_attr_chain(n, ['sys', which])


class Body:
    """translation of one function body into `stmt`"""

    def __init__(self, fn: str, selfname: str | None, params: list[str], closures: dict[str, str]):
        self.fn = fn
        self.selfname = selfname
        self.scope = set(params)              # parameters and locals assigned so far
        self.closures = closures              # name in the source -> canonical name

    def is_self_attr(self, n) -> bool:
        return self.selfname is not None and isinstance(n, ast.Attribute) and is_name(n.value, self.selfname)

    # ---- expressions
    def one_arg(self, c: ast.Call, kwnames: tuple[str, ...] = ()):
        if len(c.args) == 1 and not c.keywords and not isinstance(c.args[0], ast.Starred):
            return c.args[0]
        if not c.args and len(c.keywords) == 1 and c.keywords[0].arg in kwnames:
            return c.keywords[0].value
        fail(self.fn, c, 'call with other than exactly one argument')

    def expr(self, e) -> str:
        if isinstance(e, ast.Name):
            if e.id in self.closures:
                fail(self.fn, e, 'a callable of the enclosing function used as a value')
            if e.id in self.scope:
                return f'(EVar {cstr(e.id)})'
            return 'EOpaque'
        if self.is_self_attr(e):
            return f'(EAttr {cstr(e.attr)})'
        if isinstance(e, ast.Constant):
            if isinstance(e.value, str):
                return f'(EStr {ctext(e.value)})'
            if e.value is None:
                return 'ENone'
            return 'EOpaque'
        if isinstance(e, ast.BinOp) and isinstance(e.op, ast.Add):
            return f'(EAdd {self.expr(e.left)} {self.expr(e.right)})'
        if isinstance(e, ast.Call):
            f = e.func
            if is_name(f, 'len'):
                return f'(ELen {self.expr(self.one_arg(e))})'
            if self.is_self_attr(f):
                return f'(ECallAttr {cstr(f.attr)} {self.expr(self.one_arg(e, ("text",)))})'
            if isinstance(f, ast.Name) and f.id in self.closures:
                return f'(ECallVar {cstr(self.closures[f.id])} {self.expr(self.one_arg(e))})'
            if isinstance(f, ast.Attribute) and f.attr == 'write' and is_sys_stream(f.value, 'stdout'):
                return f'(ESysWrite {self.expr(self.one_arg(e))})'
            if is_name(f, 'print'):
                kws = {k.arg: k.value for k in e.keywords}
                if len(e.args) == 1 and set(kws) == {'end'} and isinstance(kws['end'], ast.Constant) and kws['end'].value == '':
                    return f'(ESysWrite {self.expr(e.args[0])})'
                fail(self.fn, e, 'print(...) in a tracked position (only print(x, end=\'\') is translated)')
            fail(self.fn, e, 'call not in the translatable fragment')
        if pure(e):
            return 'EOpaque'
        fail(self.fn, e, 'expression not in the translatable fragment')

    def cond(self, e) -> str:
        if isinstance(e, ast.UnaryOp) and isinstance(e.op, ast.Not):
            return f'(CNot {self.cond(e.operand)})'
        if isinstance(e, ast.Call) and isinstance(e.func, ast.Attribute) and e.func.attr == 'endswith' \
                and not self.is_self_attr(e.func):
            return f'(CEndswith {self.expr(e.func.value)} {self.expr(self.one_arg(e))})'
        if isinstance(e, (ast.BoolOp, ast.Compare, ast.IfExp)):
            fail(self.fn, e, 'condition not in the translatable fragment')
        return f'(CTruthy {self.expr(e)})'

    # ---- statements
    def block(self, stmts) -> str:
        return seq([self.stmt(s) for s in strip_doc(stmts)])

    def stmt(self, s) -> str:
        if isinstance(s, ast.Pass) or is_logging(s):
            return ''
        if isinstance(s, ast.Expr) and isinstance(s.value, ast.Constant):
            return ''
        if isinstance(s, ast.AnnAssign):
            if s.value is None:
                return ''
            s = ast.copy_location(ast.Assign(targets=[s.target], value=s.value), s)
        if isinstance(s, ast.Assign):
            if len(s.targets) != 1:
                fail(self.fn, s, 'chained assignment')
            t = s.targets[0]
            if self.is_self_attr(t):
                return f'(SSetAttr {cstr(t.attr)} {self.expr(s.value)})'
            if isinstance(t, ast.Name):
                if t.id in self.closures or t.id == self.selfname:
                    fail(self.fn, s, 'assignment to a callable of the enclosing function / to self')
                v = self.expr(s.value)
                self.scope.add(t.id)
                return f'(SSetVar {cstr(t.id)} {v})'
            fail(self.fn, s, 'assignment target not supported')
        if isinstance(s, ast.AugAssign):
            if not isinstance(s.op, ast.Add):
                fail(self.fn, s, 'augmented assignment other than +=')
            if self.is_self_attr(s.target):
                return f'(SAugAttr {cstr(s.target.attr)} {self.expr(s.value)})'
            if isinstance(s.target, ast.Name) and s.target.id in self.scope:
                return f'(SSetVar {cstr(s.target.id)} (EAdd (EVar {cstr(s.target.id)}) {self.expr(s.value)}))'
            fail(self.fn, s, 'augmented assignment target not supported')
        if isinstance(s, ast.Expr):
            if isinstance(s.value, ast.Call):
                return f'(SExpr {self.expr(s.value)})'
            fail(self.fn, s, 'expression statement that is neither a call nor a constant')
        if isinstance(s, ast.Return):
            return f'(SReturn {"ENone" if s.value is None else self.expr(s.value)})'
        if isinstance(s, ast.If):
            c = self.cond(s.test)
            before = set(self.scope)
            a = self.block(s.body)
            sa = self.scope
            self.scope = set(before)
            b = self.block(s.orelse)
            self.scope = sa & self.scope         # a local is in scope afterwards only if both branches bind it
            return f'(SIf {c} {a} {b})'
        if isinstance(s, ast.Assert):
            if s.msg is not None and not pure(s.msg):
                fail(self.fn, s, 'assert with a message that calls something')
            return f'(SAssert {self.cond(s.test)})'
        if isinstance(s, ast.Try):
            # try: <body>  except AssertionError: <logging / pure locals>; raise      ==  <body>
            ok = len(s.handlers) == 1 and not s.orelse and not s.finalbody
            h = s.handlers[0] if ok else None
            ok = ok and is_name(h.type, 'AssertionError') and h.body and isinstance(h.body[-1], ast.Raise) \
                and h.body[-1].exc is None and h.body[-1].cause is None
            if ok:
                for x in h.body[:-1]:
                    if is_logging(x) or isinstance(x, ast.Pass):
                        continue
                    if isinstance(x, ast.Assign) and len(x.targets) == 1 and isinstance(x.targets[0], ast.Name) \
                            and x.targets[0].id not in self.scope and x.targets[0].id not in self.closures and pure(x.value):
                        continue
                    ok = False
            if not ok:
                fail(self.fn, s, 'try statement other than `try: .. except AssertionError: <log>; raise`')
            return self.block(s.body)
        fail(self.fn, s, 'statement not in the translatable fragment')


def tr_method(fdef, fn: str, has_self: bool, closures: dict[str, str], allow_posonly=False) -> str:
    if not isinstance(fdef, ast.FunctionDef) or fdef.decorator_list:
        fail(fn, fdef, 'not a plain undecorated def')
    names = plain_params(fdef, fn, allow_posonly)
    selfname = None
    if has_self:
        if not names:
            fail(fn, fdef, 'method without self')
        selfname, names = names[0], names[1:]
    for n in names:
        if n in closures:
            fail(fn, fdef, 'a parameter shadows a callable of the enclosing function')
    body = Body(fn, selfname, names, closures)
    defaults = []
    dn = names[len(names) - len(fdef.args.defaults):] if fdef.args.defaults else []
    for n, d in zip(dn, fdef.args.defaults):
        defaults.append(f'({cstr(n)}, {Body(fn, None, [], {}).expr(d)})')
    return f'(mkM {clist([cstr(n) for n in names])} {clist(defaults)}\n     {body.block(fdef.body)})'


# ---------------------------------------------------------------- stream.py

def stdinout_defs(tree) -> dict:
    cls = find(tree.body, ast.ClassDef, 'StdInOut', SRC_STREAM)
    if cls.decorator_list or cls.keywords:
        raise DebugStreamError('StdInOut: decorators / metaclass')
    if [norm(b) for b in cls.bases] != ['TextIOWrapper'] or imports_of(tree).get('TextIOWrapper') != ('io', 'TextIOWrapper'):
        raise DebugStreamError('StdInOut: bases other than io.TextIOWrapper')
    res = {}
    for st in strip_doc(cls.body):
        if isinstance(st, ast.FunctionDef) and st.name in STDINOUT_METHODS:
            if st.name in res:
                raise DebugStreamError(f'StdInOut.{st.name} defined twice')
            res[st.name] = tr_method(st, f'StdInOut.{st.name}', True, {})
        elif isinstance(st, ast.Pass) or (isinstance(st, ast.AnnAssign) and st.value is None):
            continue
        else:
            # any other member could be something Pdb calls on its stdout (writelines, ...): not modelled
            fail('StdInOut', st, f'class member other than {"/".join(STDINOUT_METHODS)}')
    for m in STDINOUT_METHODS:
        if m not in res:
            raise DebugStreamError(f'StdInOut.{m} missing')
    return res


# ---------------------------------------------------------------- utils/peek.py

def peek_defs(tree, init_tree) -> dict:
    res = {}
    f = find(tree.body, ast.FunctionDef, 'peek_textio', SRC_PEEK_UTIL)
    if [norm(d) for d in f.decorator_list] != ['contextmanager']:
        raise DebugStreamError('peek_textio: decorators')
    ps = plain_params(f, 'peek_textio')
    if len(ps) != 2:
        raise DebugStreamError(f'peek_textio: parameters {ps}')
    textio, callback = ps
    body = strip_doc(f.body)
    inners = [n for n in body if isinstance(n, ast.FunctionDef)]
    if len(inners) != 1:
        raise DebugStreamError('peek_textio: expected exactly one inner function')
    wname = inners[0].name
    orgs = [s.targets[0].id for s in ast.walk(f) if isinstance(s, ast.Assign) and len(s.targets) == 1
            and isinstance(s.targets[0], ast.Name) and is_attr_chain(s.value, [textio, 'write'])]
    if len(orgs) != 1:
        raise DebugStreamError(f'peek_textio: `x = {textio}.write` expected exactly once, found {len(orgs)}')
    org = orgs[0]
    if len({textio, callback, wname, org}) != 4:
        raise DebugStreamError('peek_textio: name clash')
    # no rebinding of the two callables
    for n in ast.walk(f):
        if isinstance(n, (ast.Nonlocal, ast.Global)):
            fail('peek_textio', n, 'nonlocal / global')
        if isinstance(n, ast.Name) and isinstance(n.ctx, (ast.Store, ast.Del)) and n.id in (callback, textio, wname):
            fail('peek_textio', n, 'rebinding of a parameter / of the wrapper')
    n_org_store = sum(1 for n in ast.walk(f) if isinstance(n, ast.Name) and isinstance(n.ctx, ast.Store) and n.id == org)
    if n_org_store != 1:
        raise DebugStreamError(f'peek_textio: `{org}` assigned {n_org_store} times')

    def pblock(stmts) -> str:
        out = []
        for st in stmts:
            w = 'peek_textio'
            if isinstance(st, ast.FunctionDef) or isinstance(st, ast.Pass) or is_logging(st):
                continue
            if isinstance(st, ast.Expr) and isinstance(st.value, ast.Constant):
                continue
            if isinstance(st, ast.Assign) and len(st.targets) == 1:
                t, v = st.targets[0], st.value
                if is_name(t, org) and is_attr_chain(v, [textio, 'write']):
                    out.append('PSaveOrg')
                    continue
                if is_attr_chain(t, [textio, 'write']) and is_name(v, wname):
                    out.append('PInstall')
                    continue
                if is_attr_chain(t, [textio, 'write']) and is_name(v, org):
                    out.append('PRestore')
                    continue
            if isinstance(st, ast.Expr) and isinstance(st.value, ast.Yield):
                if st.value.value is not None and not is_name(st.value.value, wname):
                    fail(w, st, 'yield of something other than the wrapper')
                out.append('PYield')
                continue
            if isinstance(st, ast.Try) and not st.handlers and not st.orelse and st.finalbody:
                out.append(f'(PTryFinally {pblock(st.body)} {pblock(st.finalbody)})')
                continue
            fail(w, st, 'statement not recognised')
        return clist(out)

    res['prog'] = pblock(body)
    res['wrapper'] = tr_method(inners[0], f'peek_textio.{wname}', False, {callback: 'callback', org: 'org_write'}, True)

    g = find(tree.body, ast.FunctionDef, 'peek_stdout', SRC_PEEK_UTIL)
    gp = plain_params(g, 'peek_stdout')
    gb = strip_doc(g.body)
    if g.decorator_list or len(gp) != 1 or len(gb) != 1 or not isinstance(gb[0], ast.Return):
        raise DebugStreamError('peek_stdout: expected `def peek_stdout(callback): return peek_textio(<stream>, callback)`')
    c = gb[0].value
    if not (isinstance(c, ast.Call) and is_name(c.func, 'peek_textio')):
        fail('peek_stdout', gb[0], 'does not return peek_textio(...)')
    args = {}
    for i, a in enumerate(c.args):
        args[ps[i] if i < 2 else f'#{i}'] = a
    for k in c.keywords:
        args[k.arg] = k.value
    if set(args) != {textio, callback}:
        fail('peek_stdout', c, 'arguments of peek_textio')
    res['target'] = tr_stream_term(args[textio], 'peek_stdout')
    res['passes_callback'] = 'true' if is_name(args[callback], gp[0]) else 'false'
    res['target_node'] = args[textio]
    # nextline.utils re-exports these two
    imp = imports_of(init_tree)
    for nm in ('peek_stdout', 'peek_textio'):
        if imp.get(nm) != ('.peek', nm):
            raise DebugStreamError(f'{SRC_UTILS_INIT}: `{nm}` is {imp.get(nm)}, not `from .peek import {nm}`')
    return res


def tr_stream_term(n, fn: str) -> str:
    """a stream expression that is not a local name -> `stream`"""
    if is_sys_stream(n, 'stdout'):
        return 'SysStdout'
    if is_sys_stream(n, 'stdin'):
        return 'SysStdin'
    if isinstance(n, ast.Attribute) and is_name(n.value, 'sys'):
        return f'(OtherStream {cstr("sys." + n.attr)})'
    fail(fn, n, 'stream expression not recognised')


# ---------------------------------------------------------------- plugins/peek.py: peek_stdout_by_key

def wiring_def(tree) -> str:
    imp = imports_of(tree)
    if imp.get('peek_stdout') not in (('nextline.utils', 'peek_stdout'), ('nextline.utils.peek', 'peek_stdout')):
        raise DebugStreamError(f'{SRC_PEEK_PLUGIN}: `peek_stdout` is {imp.get("peek_stdout")}')
    for nm in ('ReadLinesByKey', 'AssignKey'):
        find(tree.body, ast.FunctionDef, nm, SRC_PEEK_PLUGIN)
    f = find(tree.body, ast.FunctionDef, 'peek_stdout_by_key', SRC_PEEK_PLUGIN)
    fn = 'peek_stdout_by_key'
    ps = plain_params(f, fn)
    if f.decorator_list or len(ps) != 2 or f.args.defaults:
        raise DebugStreamError(f'{fn}: parameters {ps}')
    key_factory, callback = ps
    env: dict[str, str] = {}

    def call_args(c, names: list[str]) -> dict:
        out = {}
        for i, a in enumerate(c.args):
            if i >= len(names) or isinstance(a, ast.Starred):
                fail(fn, c, 'arguments')
            out[names[i]] = a
        for k in c.keywords:
            if k.arg not in names or k.arg in out:
                fail(fn, c, 'arguments')
            out[k.arg] = k.value
        if set(out) != set(names):
            fail(fn, c, 'arguments')
        return out

    def tr(e) -> str:
        if isinstance(e, ast.Name):
            if e.id == callback:
                return 'KUser'
            if e.id in env:
                return env[e.id]
            fail(fn, e, 'name is not bound to a closure')
        if isinstance(e, ast.Call) and is_name(e.func, 'ReadLinesByKey'):
            a = call_args(e, ['callback'])
            if tr(a['callback']) != 'KUser':
                fail(fn, e, 'ReadLinesByKey around something other than the callback parameter')
            return 'KLinesUser'
        if isinstance(e, ast.Call) and is_name(e.func, 'AssignKey'):
            a = call_args(e, ['key_factory', 'callback'])
            if not is_name(a['key_factory'], key_factory):
                fail(fn, e, 'AssignKey with a key factory other than the parameter')
            k = tr(a['callback'])
            if k not in ('KUser', 'KLinesUser'):
                fail(fn, e, 'AssignKey around something that takes no key')
            return f'(UAssignKey {k})'
        fail(fn, e, 'closure expression not recognised')

    result = None
    for st in strip_doc(f.body):
        if result is not None:
            fail(fn, st, 'statement after the return')
        if isinstance(st, ast.Assign) and len(st.targets) == 1 and isinstance(st.targets[0], ast.Name):
            nm = st.targets[0].id
            if nm in (key_factory, callback) or nm in env:
                fail(fn, st, 'rebinding')
            env[nm] = tr(st.value)
            continue
        if isinstance(st, ast.Return) and isinstance(st.value, ast.Call) and is_name(st.value.func, 'peek_stdout'):
            a = call_args(st.value, ['callback'])
            result = tr(a['callback'])
            if not result.startswith('(UAssignKey'):
                fail(fn, st, 'peek_stdout around a closure that expects a key')
            continue
        if is_logging(st) or isinstance(st, ast.Pass):
            continue
        fail(fn, st, 'statement not recognised')
    if result is None:
        raise DebugStreamError(f'{fn}: does not return peek_stdout(...)')
    return result


# ---------------------------------------------------------------- repeat.py: Repeater.on_write_stdout

OWS_TRACKED = {'trace_no', 'line', 'event', '_queue_out', 'put', 'OnWriteStdout', 'print', 'sys', 'stdout', 'write'}


def on_write_stdout_def(tree) -> str:
    cls = find(tree.body, ast.ClassDef, 'Repeater', SRC_REPEAT)
    f = find(cls.body, ast.FunctionDef, 'on_write_stdout', 'Repeater')
    fn = 'Repeater.on_write_stdout'
    ps = plain_params(f, fn)
    if [norm(d) for d in f.decorator_list] != ['hookimpl'] or len(ps) != 3 or sorted(ps[1:]) != ['line', 'trace_no']:
        raise DebugStreamError(f'{fn}: decorators / parameters {ps}')
    selfname = ps[0]

    def is_current(e) -> bool:
        return isinstance(e, ast.Call) and not e.args and not e.keywords \
            and is_attr_chain(e.func, [selfname, '_hook', 'hook', 'current_trace_no'])

    cur = 'KParam'
    event = None
    puts = 0
    for st in strip_doc(f.body):
        if is_logging(st) or isinstance(st, ast.Pass):
            continue
        if isinstance(st, ast.AnnAssign) and st.value is not None:
            st = ast.copy_location(ast.Assign(targets=[st.target], value=st.value), st)
        if isinstance(st, ast.Assign) and len(st.targets) == 1 and isinstance(st.targets[0], ast.Name):
            t, v = st.targets[0].id, st.value
            if t == 'trace_no':
                if not is_current(v):
                    fail(fn, st, '`trace_no` assigned something other than current_trace_no()')
                cur = 'KCurrent'
                continue
            if t == 'line':
                fail(fn, st, '`line` is reassigned')
            if isinstance(v, ast.Call) and is_name(v.func, 'OnWriteStdout'):
                if t != 'event' or event is not None or v.args:
                    fail(fn, st, 'construction of the event')
                kws = {k.arg: k.value for k in v.keywords}
                if 'trace_no' not in kws or 'text' not in kws:
                    fail(fn, st, 'OnWriteStdout(...) without trace_no= / text=')
                k = kws['trace_no']
                if is_name(k, 'trace_no'):
                    kk = cur
                elif is_current(k):
                    kk = 'KCurrent'
                else:
                    fail(fn, st, 'OnWriteStdout(trace_no=...) not recognised')
                for other, val in kws.items():
                    if other not in ('trace_no', 'text') and (not pure(val) or ({n.id for n in ast.walk(val) if isinstance(n, ast.Name)} & {'line', 'trace_no'})):
                        fail(fn, st, f'OnWriteStdout({other}=...) calls something or reads trace_no / line')
                event = (kk, 'true' if is_name(kws['text'], 'line') else 'false')
                continue
            # a time stamp: <name> = datetime.datetime.utcnow() / .now(..)   (recognised, not ignored)
            if isinstance(v, ast.Call) and (is_attr_chain(v.func, ['datetime', 'datetime', 'utcnow']) or is_attr_chain(v.func, ['datetime', 'datetime', 'now'])) \
                    and all(pure(a) for a in v.args) and all(pure(k.value) for k in v.keywords) \
                    and not (idents(v) & (OWS_TRACKED | {selfname})) and t not in OWS_TRACKED:
                continue
            if pure(v) and not (idents(st) & (OWS_TRACKED | {selfname})):
                continue
            fail(fn, st, 'assignment not recognised')
        if isinstance(st, ast.Expr) and isinstance(st.value, ast.Call) and is_attr_chain(st.value.func, [selfname, '_queue_out', 'put']):
            c = st.value
            if event is None or c.keywords or len(c.args) != 1 or not is_name(c.args[0], 'event'):
                fail(fn, st, 'put of something other than the event')
            puts += 1
            continue
        fail(fn, st, 'statement not recognised')
    if event is None:
        raise DebugStreamError(f'{fn}: no OnWriteStdout(...) is built')
    for m in cls.body:
        if m is not f and 'OnWriteStdout' in idents(m):
            fail('Repeater', m, 'another member builds OnWriteStdout events')
    return f'(mkEv {event[0]} {event[1]} {puts})'


# ---------------------------------------------------------------- custom.py / factory.py

def custom_defs(tree) -> dict:
    imp = imports_of(tree)
    if imp.get('Pdb') != ('pdb', 'Pdb'):
        raise DebugStreamError(f'{SRC_CUSTOM}: `Pdb` is {imp.get("Pdb")}, not `from pdb import Pdb`')
    cls = find(tree.body, ast.ClassDef, 'CustomizedPdb', SRC_CUSTOM)
    if [norm(b) for b in cls.bases] != ['Pdb'] or cls.keywords or cls.decorator_list:
        raise DebugStreamError('CustomizedPdb: bases / decorators')
    methods = {}
    for st in strip_doc(cls.body):
        if isinstance(st, ast.FunctionDef) and st.name in CUSTOM_METHODS and not st.decorator_list and st.name not in methods:
            methods[st.name] = st
        elif isinstance(st, ast.AnnAssign) and st.value is None:
            continue
        else:
            # an override of a Pdb / Cmd / Bdb method (do_*, message, default, ...) can print anywhere: not modelled
            fail('CustomizedPdb', st, f'class member other than {"/".join(CUSTOM_METHODS)}')
    init = find(cls.body, ast.FunctionDef, '__init__', 'CustomizedPdb')
    ps = plain_params(init, 'CustomizedPdb.__init__')
    if init.decorator_list or not ps:
        raise DebugStreamError('CustomizedPdb.__init__: decorators / parameters')
    selfname, params = ps[0], ps[1:]
    # nothing in the class re-points the streams after construction
    for n in ast.walk(cls):
        if isinstance(n, ast.Attribute) and isinstance(n.ctx, (ast.Store, ast.Del)) and n.attr in ('stdout', 'stdin', 'use_rawinput'):
            fail('CustomizedPdb', n, 'assignment to the stream attributes of Pdb')
        if isinstance(n, ast.Call) and is_name(n.func, 'setattr'):
            fail('CustomizedPdb', n, 'setattr')
    # exactly one super().__init__(...) at the top level of __init__
    supers = []
    for st in strip_doc(init.body):
        for n in ast.walk(st):
            if isinstance(n, ast.Call) and isinstance(n.func, ast.Attribute) and n.func.attr == '__init__':
                if not (isinstance(st, ast.Expr) and st.value is n):
                    fail('CustomizedPdb.__init__', st, '__init__ call that is not a statement of its own')
                v = n.func.value
                if not (isinstance(v, ast.Call) and is_name(v.func, 'super') and not v.args and not v.keywords):
                    fail('CustomizedPdb.__init__', st, '__init__ call other than super().__init__(...)')
                supers.append(n)
    if len(supers) != 1:
        raise DebugStreamError(f'CustomizedPdb.__init__: {len(supers)} calls of super().__init__')
    c = supers[0]
    pdb_params = ['completekey', 'stdin', 'stdout', 'skip', 'nosigint', 'readrc']      # pdb.Pdb.__init__, CPython 3.12
    given = {}
    for i, a in enumerate(c.args):
        if isinstance(a, ast.Starred) or i >= len(pdb_params):
            fail('CustomizedPdb.__init__', c, 'arguments of Pdb.__init__')
        given[pdb_params[i]] = a
    for k in c.keywords:
        if k.arg is None or k.arg in given:
            fail('CustomizedPdb.__init__', c, 'arguments of Pdb.__init__')
        given[k.arg] = k.value

    def sx(name: str) -> str:
        if name not in given or is_const(given[name], None):
            return 'XAbsent'
        return tr_sexp(given[name], 'CustomizedPdb.__init__', set(params))
    # every call the methods make, as a descriptor (the whitelist is in Coq: DebugTie.v harmless_callee)
    calls = []
    for nm in CUSTOM_METHODS:
        if nm not in methods:
            continue
        m = methods[nm]
        mself = plain_params(m, 'CustomizedPdb.' + nm)[0]
        for d in m.args.defaults + m.args.kw_defaults:
            if d is not None and not pure(d):
                fail('CustomizedPdb.' + nm, d, 'default value that calls something')
        ds = []
        for n in ast.walk(m):
            if isinstance(n, (ast.Lambda, ast.FunctionDef, ast.AsyncFunctionDef, ast.ClassDef)) and n is not m:
                fail('CustomizedPdb.' + nm, n, 'nested definition')
            if isinstance(n, (ast.Global, ast.Nonlocal, ast.Import, ast.ImportFrom)):
                fail('CustomizedPdb.' + nm, n, 'global / import inside the method')
            if isinstance(n, ast.Name) and n.id in ('sys', 'print', 'pprint', 'pydoc', 'os', 'builtins', '__builtins__', 'input'):
                fail('CustomizedPdb.' + nm, n, 'mentions a name through which the process streams are reached')
            if not isinstance(n, ast.Call):
                continue
            f = n.func
            if isinstance(f, ast.Name):
                ds.append(f.id)
            elif isinstance(f, ast.Attribute) and is_name(f.value, mself):
                ds.append('self.' + f.attr)
            elif isinstance(f, ast.Attribute) and isinstance(f.value, ast.Attribute) and is_name(f.value.value, mself):
                ds.append(f'self.{f.value.attr}.{f.attr}')
            elif isinstance(f, ast.Attribute) and isinstance(f.value, ast.Call) and is_name(f.value.func, 'super') \
                    and not f.value.args and not f.value.keywords:
                ds.append('super.' + f.attr)
            elif isinstance(f, ast.Attribute) and is_name(f.value, 'logger'):
                ds.append('logger')
            else:
                fail('CustomizedPdb.' + nm, n, 'call not recognised')
        ds = [d for d in ds if d != 'super']          # the inner `super()` of super().x(...)
        calls.append(f'({cstr(nm)}, {clist([cstr(d) for d in ds])})')
    return {'params': params, 'super': f'({sx("stdin")}, {sx("stdout")})', 'calls': clist(calls)}


def tr_sexp(n, fn: str, names: set[str]) -> str:
    if isinstance(n, ast.Name):
        if n.id not in names:
            fail(fn, n, 'stream argument is a name that is not a local / parameter')
        return f'(XName {cstr(n.id)})'
    if is_const(n, None):
        return 'XAbsent'
    if is_sys_stream(n, 'stdout'):
        return 'XSysStdout'
    if is_sys_stream(n, 'stdin'):
        return 'XSysStdin'
    if isinstance(n, ast.Attribute) and is_name(n.value, 'sys'):
        return f'(XOther {cstr("sys." + n.attr)})'
    fail(fn, n, 'stream argument not recognised')


def factory_defs(tree, pdb_params: list[str]) -> dict:
    imp = imports_of(tree)
    if imp.get('StdInOut') != ('.stream', 'StdInOut') or imp.get('CustomizedPdb') != ('.custom', 'CustomizedPdb'):
        raise DebugStreamError(f'{SRC_FACTORY}: StdInOut / CustomizedPdb are not imported from .stream / .custom')
    # PdbInstanceFactory: one Factory per run, one _factory() call per create_local_trace_func
    cls = find(tree.body, ast.ClassDef, 'PdbInstanceFactory', SRC_FACTORY)
    init = find(cls.body, ast.FunctionDef, 'init', 'PdbInstanceFactory')
    create = find(cls.body, ast.FunctionDef, 'create_local_trace_func', 'PdbInstanceFactory')
    ib = [s for s in strip_doc(init.body) if not is_logging(s)]
    ok = len(ib) == 1 and isinstance(ib[0], ast.Assign) and len(ib[0].targets) == 1 and is_attr_chain(ib[0].targets[0], ['self', '_factory']) \
        and isinstance(ib[0].value, ast.Call) and is_name(ib[0].value.func, 'Factory')
    if not ok:
        raise DebugStreamError('PdbInstanceFactory.init: expected `self._factory = Factory(hook=hook)`')
    cb = [s for s in strip_doc(create.body) if not is_logging(s)]
    ok = len(cb) == 1 and isinstance(cb[0], ast.Return) and isinstance(cb[0].value, ast.Call) and not cb[0].value.args \
        and not cb[0].value.keywords and is_attr_chain(cb[0].value.func, ['self', '_factory'])
    if not ok:
        raise DebugStreamError('PdbInstanceFactory.create_local_trace_func: expected `return self._factory()`')
    for m in cls.body:
        if m not in (init, create) and isinstance(m, (ast.FunctionDef, ast.AsyncFunctionDef)):
            if any(isinstance(n, ast.Attribute) and n.attr == '_factory' for n in ast.walk(m)):
                fail('PdbInstanceFactory', m, 'another method touches _factory')

    fac = find(tree.body, ast.FunctionDef, 'Factory', SRC_FACTORY)
    if fac.decorator_list:
        raise DebugStreamError('Factory: decorators')
    kinds: dict[str, str] = {}         # variable -> 'promptfunc' | 'cmdloop' | 'stdio' | 'pdb'
    outer: list[str] = []
    inner: list[str] = []
    inner_def = None
    returned = None

    def farg(n, fn: str) -> str:
        if isinstance(n, ast.Name) and kinds.get(n.id) == 'promptfunc':
            return 'FAPromptFunc'
        if is_const(n, None):
            return 'FANone'
        if isinstance(n, ast.Constant) and isinstance(n.value, str):
            return f'(FAStr {ctext(n.value)})'
        if isinstance(n, ast.Attribute) and n.attr == 'prompt' and isinstance(n.value, ast.Name) and kinds.get(n.value.id) == 'pdb':
            return f'(FAPdbPrompt {cstr(n.value.id)})'
        fail(fn, n, 'argument / value not recognised')

    def build(st, fn: str, out: list[str], is_inner: bool) -> bool:
        if isinstance(st, ast.Assign) and len(st.targets) == 1:
            t, v = st.targets[0], st.value
            if isinstance(t, ast.Name) and isinstance(v, ast.Call) and isinstance(v.func, ast.Name):
                if t.id in kinds:
                    fail(fn, st, 'rebinding')
                f = v.func.id
                if f in ('PromptFunc', 'CmdloopHook') and not is_inner:
                    kinds[t.id] = 'promptfunc' if f == 'PromptFunc' else 'cmdloop'
                    return True
                if f == 'StdInOut':
                    if any(isinstance(a, ast.Starred) for a in v.args) or any(k.arg is None for k in v.keywords):
                        fail(fn, st, '* / ** arguments')
                    pos = [farg(a, fn) for a in v.args]
                    kw = [f'({cstr(k.arg)}, {farg(k.value, fn)})' for k in v.keywords]
                    kinds[t.id] = 'stdio'
                    out.append(f'(FNewStdio {cstr(t.id)} {clist(pos)} {clist(kw)})')
                    return True
                if f == 'CustomizedPdb' and is_inner:
                    given = {}
                    for i, a in enumerate(v.args):
                        if isinstance(a, ast.Starred) or i >= len(pdb_params):
                            fail(fn, st, 'arguments of CustomizedPdb')
                        given[pdb_params[i]] = a
                    for k in v.keywords:
                        if k.arg is None or k.arg in given or k.arg not in pdb_params:
                            fail(fn, st, 'arguments of CustomizedPdb')
                        given[k.arg] = k.value
                    args = []
                    for p, a in given.items():
                        if isinstance(a, ast.Name) and kinds.get(a.id) == 'cmdloop':
                            continue
                        args.append(f'({cstr(p)}, {tr_sexp(a, fn, {k for k, v in kinds.items() if v == "stdio"})})')
                    kinds[t.id] = 'pdb'
                    out.append(f'(FNewPdb {cstr(t.id)} {clist(args)})')
                    return True
            if isinstance(t, ast.Attribute) and isinstance(t.value, ast.Name) and kinds.get(t.value.id) == 'stdio':
                out.append(f'(FSetAttr {cstr(t.value.id)} {cstr(t.attr)} {farg(v, fn)})')
                return True
        return False

    for st in strip_doc(fac.body):
        if is_logging(st) or isinstance(st, ast.Pass):
            continue
        if isinstance(st, ast.FunctionDef):
            if inner_def is not None or st.decorator_list or plain_params(st, 'Factory.' + st.name):
                fail('Factory', st, 'inner function')
            inner_def = st
            kinds[st.name] = 'inner'
            continue
        if isinstance(st, ast.Return):
            if inner_def is None or not is_name(st.value, inner_def.name):
                fail('Factory', st, 'does not return the inner function')
            returned = True
            continue
        if build(st, 'Factory', outer, False):
            continue
        fail('Factory', st, 'statement not recognised')
    if inner_def is None or not returned:
        raise DebugStreamError('Factory: no inner function returned')
    # the inner function sees every variable of Factory (closures resolve late), whatever the order
    fn = 'Factory.' + inner_def.name
    got_return = False
    for st in strip_doc(inner_def.body):
        if got_return:
            fail(fn, st, 'statement after the return')
        if is_logging(st) or isinstance(st, ast.Pass):
            continue
        if isinstance(st, (ast.Nonlocal, ast.Global)):
            fail(fn, st, 'nonlocal / global')
        if isinstance(st, ast.Return):
            v = st.value
            if not (isinstance(v, ast.Attribute) and v.attr == 'trace_dispatch' and isinstance(v.value, ast.Name) and kinds.get(v.value.id) == 'pdb'):
                fail(fn, st, 'does not return <pdb>.trace_dispatch')
            inner.append(f'(FReturnDispatch {cstr(v.value.id)})')
            got_return = True
            continue
        if build(st, fn, inner, True):
            continue
        fail(fn, st, 'statement not recognised')
    if not got_return:
        raise DebugStreamError(f'{fn}: no return')
    return {'outer': clist(outer), 'inner': clist(inner)}


# ---------------------------------------------------------------- other uses of the real stdout in the child

def other_stdout_uses(repo: Path, allowed) -> list[str]:
    out = []
    for d in CHILD_DIRS:
        for p in sorted((repo / d).rglob('*.py')):
            rel = p.relative_to(repo).as_posix()
            try:
                t = ast.parse(p.read_text())
            except SyntaxError as e:
                raise DebugStreamError(f'{p}: {e}')
            same_file = rel == SRC_PEEK_UTIL
            for n in ast.walk(t):
                hit = None
                if isinstance(n, ast.Call) and is_name(n.func, 'print'):
                    hit = 'print'
                elif isinstance(n, ast.Attribute) and n.attr in ('stdout', '__stdout__') and is_name(n.value, 'sys'):
                    if same_file and (n.lineno, n.col_offset) == allowed:
                        continue
                    hit = 'sys.' + n.attr
                elif isinstance(n, ast.ImportFrom) and n.module == 'sys' and any(a.name in ('stdout', '__stdout__') for a in n.names):
                    hit = 'from sys import stdout'
                elif isinstance(n, ast.Constant) and n.value in ('stdout', '__stdout__') and not isinstance(n.value, bool):
                    hit = 'the string ' + repr(n.value)         # getattr(sys, 'stdout')
                elif isinstance(n, ast.Attribute) and n.attr in ('stdout', '__stdout__', 'displayhook'):
                    hit = 'attribute .' + n.attr
                elif isinstance(n, ast.Import) and any(a.name == 'sys' and a.asname not in (None, 'sys') for a in n.names):
                    hit = 'import sys as ...'
                elif isinstance(n, (ast.Import, ast.ImportFrom)) and any(
                        (a.name.split('.')[0] in ('pprint', 'pydoc', 'code')) or (isinstance(n, ast.ImportFrom) and (n.module or '').split('.')[0] in ('pprint', 'pydoc', 'code'))
                        for a in n.names):
                    hit = 'import of pprint / pydoc / code'
                elif isinstance(n, ast.Call) and (is_name(n.func, 'input') or is_name(n.func, 'breakpoint') or is_attr_chain(n.func, ['os', 'write'])):
                    hit = 'input() / breakpoint() / os.write()'
                if hit:
                    out.append(f'{rel}:{n.lineno}: {hit}')
    return out


# ---------------------------------------------------------------- all of it

def translate(repo: Path) -> str:
    repo = Path(repo)
    check_module(parse(repo, SRC_STREAM), SRC_STREAM, {'StdInOut', 'TextIOWrapper'} - {'TextIOWrapper'})
    IMPORTED_TRANSLATED[SRC_FACTORY] = ('StdInOut', 'CustomizedPdb')
    check_module(parse(repo, SRC_FACTORY), SRC_FACTORY, {'Factory', 'PdbInstanceFactory', 'StdInOut', 'CustomizedPdb', 'PromptFunc', 'CmdloopHook'})
    check_module(parse(repo, SRC_CUSTOM), SRC_CUSTOM, {'CustomizedPdb', 'Pdb'} - {'Pdb'})
    check_module(parse(repo, SRC_PEEK_UTIL), SRC_PEEK_UTIL, {'peek_textio', 'peek_stdout', 'sys'} - {'sys'})
    IMPORTED_TRANSLATED[SRC_PEEK_PLUGIN] = ('peek_stdout',)
    check_module(parse(repo, SRC_PEEK_PLUGIN), SRC_PEEK_PLUGIN, {'peek_stdout_by_key', 'ReadLinesByKey', 'AssignKey', 'peek_stdout', 'PeekStdout'})
    check_module(parse(repo, SRC_REPEAT), SRC_REPEAT, {'Repeater'})
    so = stdinout_defs(parse(repo, SRC_STREAM))
    pk = peek_defs(parse(repo, SRC_PEEK_UTIL), parse(repo, SRC_UTILS_INIT))
    wiring = wiring_def(parse(repo, SRC_PEEK_PLUGIN))
    ows = on_write_stdout_def(parse(repo, SRC_REPEAT))
    cu = custom_defs(parse(repo, SRC_CUSTOM))
    fa = factory_defs(parse(repo, SRC_FACTORY), cu['params'])
    tn = pk['target_node']
    others = other_stdout_uses(repo, (tn.lineno, tn.col_offset))
    L = [
        '(** GENERATED by translate/debugger_stream.py (ast, CPython %d.%d) -- do not edit.' % sys.version_info[:2],
        f'    From {SRC_STREAM}, {SRC_FACTORY},',
        f'    {SRC_CUSTOM}, {SRC_PEEK_UTIL},',
        f'    {SRC_PEEK_PLUGIN}, {SRC_REPEAT}.',
        '    Terms of Stdout/DebugSyntax.v; interpreted by Stdout/DebugTie.v. *)',
        'From Coq Require Import List String ZArith.',
        'From NL Require Import Stdout.Prim Stdout.DebugSyntax.',
        'Import ListNotations.',
        'Open Scope Z_scope.',
        'Local Open Scope string_scope.',
        '',
        '(** StdInOut (pdb_/stream.py): the object Pdb is given as stdin and stdout *)',
        f'Definition stdinout_init : method :=\n  {so["__init__"]}.',
        f'Definition stdinout_write : method :=\n  {so["write"]}.',
        f'Definition stdinout_flush : method :=\n  {so["flush"]}.',
        f'Definition stdinout_readline : method :=\n  {so["readline"]}.',
        '',
        '(** Factory(hook) (pdb_/factory.py): statements outside / inside `def _factory()` that build objects *)',
        f'Definition factory_outer : list fstmt :=\n  {fa["outer"]}.',
        f'Definition factory_inner : list fstmt :=\n  {fa["inner"]}.',
        '',
        '(** CustomizedPdb.__init__ (pdb_/custom.py): its stream parameters and what it hands to Pdb.__init__ as (stdin, stdout) *)',
        f'Definition pdb_init_params : list string := {clist([cstr(p) for p in cu["params"]])}.',
        f'Definition pdb_super_init : sexp * sexp := {cu["super"]}.',
        '(** every call made by the methods CustomizedPdb defines (no other member is accepted) *)',
        f'Definition pdb_override_calls : list (string * list string) :=\n  {cu["calls"]}.',
        '',
        '(** peek_textio (utils/peek.py): the context manager, and the function it installs as textio.write *)',
        f'Definition peek_textio_prog : list pstmt :=\n  {pk["prog"]}.',
        f'Definition peek_wrapper : method :=\n  {pk["wrapper"]}.',
        '',
        '(** peek_stdout: return peek_textio(<target>, callback) *)',
        f'Definition peek_stdout_target : stream := {pk["target"]}.',
        f'Definition peek_stdout_passes_callback : bool := {pk["passes_callback"]}.',
        '',
        '(** peek_stdout_by_key (plugins/peek.py): peek_stdout(<this closure>) *)',
        f'Definition peek_wiring : ucb := {wiring}.',
        '',
        '(** Repeater.on_write_stdout (plugins/repeat.py) *)',
        f'Definition on_write_stdout_event : evspec := {ows}.',
        '',
        f'(** every other print(...) / sys.stdout / sys.__stdout__ in {", ".join(CHILD_DIRS)} *)',
        f'Definition other_stdout_uses : list string :=\n  {clist([cstr(o) for o in others])}.',
        '',
    ]
    return '\n'.join(L)


if __name__ == '__main__':
    print(translate(Path(sys.argv[1] if len(sys.argv) > 1 else '/repo')))
