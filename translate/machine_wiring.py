"""Fail-closed translator: nextline/fsm/machine.py + nextline/fsm/callback.py (+ the names of
nextline/fsm/config.py)  ->  Gen/MachineWiring.v

A genuine translation (no table of source strings): every method of `StateMachine` and every
method of `Callback` becomes a statement term of coq/theories/Life/MachineSyntax.v; the two
`__init__` bodies become lists of `init_stmt`.  coq/theories/Life/MachineTie.v resolves the
callbacks of one trigger the way the `transitions` library does (CONFIG table from
Gen/FsmConfig.v + the method names emitted here), expands every callback through these terms
and proves that the segments of Life/Model.v perform exactly that script.

Tracked: everything in the two class bodies.  Ignored: comments, docstrings, plain annotations,
`__repr__` (must be a call-free `return` of an f-string), imports (the ones that bind a tracked
name are checked), other module-level definitions that contain no call and bind no tracked name.
Anything else raises WiringError (= a broken tie obligation)."""
from __future__ import annotations

import ast
from pathlib import Path

OUTPUT = 'MachineWiring.v'
SRC_MACHINE = 'nextline/fsm/machine.py'
SRC_CALLBACK = 'nextline/fsm/callback.py'
SRC_CONFIG = 'nextline/fsm/config.py'
SRC_IMP = 'nextline/imp.py'


class WiringError(Exception):
    pass


def fail(node, msg):
    line = getattr(node, 'lineno', '?')
    try:
        text = ast.unparse(node)
    except Exception:
        text = repr(node)
    raise WiringError(f'{msg} (line {line}): {text[:160]}')


# ---------------------------------------------------------------- Coq text helpers
def q(s: str) -> str:
    if '"' in s or '\\' in s or '\n' in s:
        raise WiringError(f'unsupported character in name {s!r}')
    return f'"{s}"%string'


def coq_list(items) -> str:
    return '[' + '; '.join(items) + ']'


def coq_bool(b: bool) -> str:
    return 'true' if b else 'false'


def seq(stmts) -> str:
    stmts = [s for s in stmts if s is not None]
    if not stmts:
        return 'SSkip'
    out = stmts[-1]
    for s in reversed(stmts[:-1]):
        out = f'(SSeq {s} {out})'
    return out


# ---------------------------------------------------------------- small AST predicates
def is_self_attr(node, attr=None):
    return (isinstance(node, ast.Attribute) and isinstance(node.value, ast.Name) and node.value.id == 'self'
            and (attr is None or node.attr == attr))


def is_docstring(node):
    return isinstance(node, ast.Expr) and isinstance(node.value, ast.Constant) and isinstance(node.value.value, str)


def has_effect(node) -> bool:
    return any(isinstance(n, (ast.Call, ast.Await, ast.NamedExpr, ast.Yield, ast.YieldFrom)) for n in ast.walk(node))


# ---------------------------------------------------------------- module level
TRACKED_NAMES = {'StateMachine', 'Callback', 'CONFIG', 'AsyncMachine', 'EventData', 'ResetOptions', 'asyncio',
                 'getLogger', 'Context'}
EXPECTED_IMPORTS = {
    'machine': {'AsyncMachine': ('transitions.extensions.asyncio', 'AsyncMachine'),
                'EventData': ('transitions', 'EventData'),
                'ResetOptions': ('nextline.types', 'ResetOptions'),
                'Callback': ('.callback', 'Callback'),
                'CONFIG': ('.config', 'CONFIG')},
    'callback': {'asyncio': ('', 'asyncio'),
                 'getLogger': ('logging', 'getLogger'),
                 'ResetOptions': ('nextline.types', 'ResetOptions'),
                 'Context': ('nextline.plugin', 'Context')},
}


def bound_names(node):
    """names a module-level statement binds"""
    if isinstance(node, (ast.FunctionDef, ast.AsyncFunctionDef, ast.ClassDef)):
        return [node.name]
    if isinstance(node, ast.Assign):
        out = []
        for t in node.targets:
            if not isinstance(t, ast.Name):
                fail(node, 'module-level assignment to something that is not a plain name (monkeypatching?)')
            out.append(t.id)
        return out
    if isinstance(node, ast.AnnAssign):
        if not isinstance(node.target, ast.Name):
            fail(node, 'module-level annotated assignment to something that is not a plain name')
        return [node.target.id]
    fail(node, 'module-level statement not understood')


def check_module(tree: ast.Module, which: str, class_name: str) -> ast.ClassDef:
    imports = {}
    cls = None

    def do_import(node):
        if isinstance(node, ast.Import):
            for a in node.names:
                imports[a.asname or a.name] = ('', a.name)
        else:
            mod = '.' * node.level + (node.module or '')
            for a in node.names:
                if a.name == '*':
                    fail(node, 'star import')
                imports[a.asname or a.name] = (mod, a.name)

    for node in tree.body:
        if is_docstring(node):
            continue
        if isinstance(node, (ast.Import, ast.ImportFrom)):
            do_import(node)
            continue
        if isinstance(node, ast.If) and isinstance(node.test, ast.Name) and node.test.id == 'TYPE_CHECKING' and not node.orelse:
            for sub in node.body:
                if not isinstance(sub, (ast.Import, ast.ImportFrom)):
                    fail(sub, 'only imports are accepted under `if TYPE_CHECKING`')
                for a in sub.names:
                    if (a.asname or a.name) in EXPECTED_IMPORTS[which] or (a.asname or a.name) == class_name:
                        fail(sub, 'a tracked name is bound under `if TYPE_CHECKING`')
            continue
        if isinstance(node, ast.ClassDef) and node.name == class_name:
            if cls is not None:
                fail(node, f'class {class_name} defined twice')
            cls = node
            continue
        names = bound_names(node)
        for n in names:
            if n in TRACKED_NAMES or n == class_name:
                fail(node, f'module-level rebinding of the tracked name {n!r}')
        if cls is not None:
            # after the class: nothing that could touch it
            for n in ast.walk(node):
                if isinstance(n, ast.Name) and n.id in (class_name,):
                    fail(node, f'module-level statement mentions {class_name} after its definition')
        if isinstance(node, ast.ClassDef):
            if node.decorator_list:
                fail(node, 'decorated helper class')
            inner = [n for d in node.body for n in ast.walk(d)]
        else:
            inner = list(ast.walk(node))
        if any(isinstance(n, (ast.Call, ast.Await, ast.NamedExpr, ast.Yield, ast.YieldFrom)) for n in inner):
            fail(node, 'module-level statement with a call')
    if cls is None:
        raise WiringError(f'class {class_name} not found')
    for name, exp in EXPECTED_IMPORTS[which].items():
        if name in imports and imports[name] != exp:
            raise WiringError(f'{which}.py: {name} is imported from {imports[name]}, expected {exp}')
    used = {n.id for n in ast.walk(cls) if isinstance(n, ast.Name)}
    for name, exp in EXPECTED_IMPORTS[which].items():
        if name in used and imports.get(name) != exp:
            raise WiringError(f'{which}.py: the name {name} used in {class_name} is not imported from {exp}')
    return cls


def check_class(cls: ast.ClassDef):
    if cls.bases or cls.keywords:
        fail(cls, f'class {cls.name} has bases / keywords')
    if cls.decorator_list:
        fail(cls, f'class {cls.name} is decorated')
    methods = []
    annotated = []
    for node in cls.body:
        if is_docstring(node):
            continue
        if isinstance(node, ast.AnnAssign) and node.value is None and isinstance(node.target, ast.Name):
            if has_effect(node.annotation):
                fail(node, 'annotation with a call')
            annotated.append(node.target.id)
            continue
        if isinstance(node, (ast.FunctionDef, ast.AsyncFunctionDef)):
            if node.decorator_list:
                fail(node, 'decorated method')
            methods.append(node)
            continue
        fail(node, f'class-level statement in {cls.name} that is not a plain annotation, a docstring or a method')
    seen = set()
    for m in methods:
        if m.name in seen:
            fail(m, 'method defined twice')
        seen.add(m.name)
    return methods, annotated


def params_of(fn) -> list[str]:
    a = fn.args
    if a.defaults or any(d is not None for d in a.kw_defaults):
        fail(fn, 'default argument values are not modelled')
    if a.posonlyargs:
        fail(fn, 'positional-only parameters')
    if not a.args or a.args[0].arg != 'self':
        fail(fn, 'first parameter must be self')
    out = [x.arg for x in a.args[1:]]
    if a.vararg:
        out.append('*' + a.vararg.arg)
    out += [x.arg for x in a.kwonlyargs]
    if a.kwarg:
        out.append('**' + a.kwarg.arg)
    return out


# ---------------------------------------------------------------- statements
class MethodTranslator:
    def __init__(self, which: str, fn):
        self.which = which          # 'machine' | 'callback'
        self.fn = fn
        self.params = params_of(fn)
        plain = [p for p in self.params if not p.startswith('*')]
        self.event = plain[0] if (which == 'machine' and plain) else None
        self.locals = set(plain)

    # -- arguments
    def arg(self, node) -> str:
        if is_self_attr(node, 'state') and self.which == 'machine':
            return 'ASelfState'
        if is_self_attr(node, '_context') and self.which == 'callback':
            return 'ASelfContext'
        if isinstance(node, ast.Name) and node.id in self.locals and node.id != self.event:
            return f'(ALocal {q(node.id)})'
        fail(node, 'argument shape not understood')

    def call_args(self, call: ast.Call, allow_pos: bool):
        pos = []
        for a in call.args:
            if isinstance(a, ast.Starred) or not allow_pos:
                fail(call, 'positional / starred argument not accepted here')
            pos.append(self.arg(a))
        kw = []
        for k in call.keywords:
            if k.arg is None:
                fail(call, '**kwargs in a tracked call')
            kw.append(f'({q(k.arg)}, {self.arg(k.value)})')
        return coq_list(pos), coq_list(kw)

    # -- conditions over the EventData
    def expr(self, node) -> str:
        ev = self.event
        if isinstance(node, ast.UnaryOp) and isinstance(node.op, ast.Not):
            return f'(ENot {self.expr(node.operand)})'
        if isinstance(node, ast.BoolOp):
            op = 'EAnd' if isinstance(node.op, ast.And) else 'EOr'
            vals = [self.expr(v) for v in node.values]
            out = vals[-1]
            for v in reversed(vals[:-1]):
                out = f'({op} {v} {out})'
            return out
        if ev is not None and isinstance(node, ast.Attribute) and isinstance(node.value, ast.Name) and node.value.id == ev:
            if node.attr == 'transition':
                return 'EEvTransition'
            if node.attr == 'kwargs':
                return 'EEvKwargs'
        if (ev is not None and isinstance(node, ast.Attribute) and node.attr == 'dest'
                and isinstance(node.value, ast.Attribute) and node.value.attr == 'transition'
                and isinstance(node.value.value, ast.Name) and node.value.value.id == ev):
            return 'EEvDest'
        if (ev is not None and isinstance(node, ast.Call) and isinstance(node.func, ast.Name) and node.func.id == 'list'
                and len(node.args) == 1 and not node.keywords and isinstance(node.args[0], ast.Attribute)
                and node.args[0].attr == 'args' and isinstance(node.args[0].value, ast.Name)
                and node.args[0].value.id == ev):
            return 'EEvArgs'
        if (isinstance(node, ast.Call) and isinstance(node.func, ast.Name) and node.func.id == 'isinstance'
                and len(node.args) == 2 and not node.keywords and isinstance(node.args[0], ast.Name)
                and node.args[0].id in self.locals and isinstance(node.args[1], ast.Name)):
            return f'(EIsInstance {q(node.args[0].id)} {q(node.args[1].id)})'
        fail(node, 'condition not understood')

    # -- events
    def target(self, node) -> str | None:
        if is_self_attr(node) and self.which == 'callback':
            return f'(TSelf {q(node.attr)})'
        if isinstance(node, ast.Name) and node.id in self.locals:
            return f'(TLocal {q(node.id)})'
        return None

    def hook_call(self, call, kind):
        """self._hook.<kind>.<name>(kw) -> (name, kw)"""
        f = call.func
        if (isinstance(call, ast.Call) and isinstance(f, ast.Attribute) and isinstance(f.value, ast.Attribute)
                and f.value.attr == kind and is_self_attr(f.value.value, '_hook')):
            _, kw = self.call_args(call, allow_pos=False)
            return f.attr, kw
        return None

    def body(self, stmts) -> str:
        return seq([self.stmt(s) for s in stmts])

    def stmt(self, node) -> str | None:
        w = self.which
        if is_docstring(node):
            return None
        if isinstance(node, ast.Pass):
            return None
        if isinstance(node, ast.Expr) and isinstance(node.value, ast.Constant) and node.value.value is Ellipsis:
            return None
        if isinstance(node, ast.Return):
            if node.value is None or (isinstance(node.value, ast.Constant) and node.value.value is None):
                return 'SReturn'
            if isinstance(node.value, ast.Name) and node.value.id == 'self':
                return 'SReturnSelf'
            fail(node, 'return value not understood')
        if isinstance(node, ast.Assert):
            if node.msg is not None:
                fail(node, 'assert with a message expression')
            if w != 'machine':
                fail(node, 'assert in Callback')
            return f'(SAssert {self.expr(node.test)})'
        if isinstance(node, ast.If):
            if w != 'machine':
                fail(node, 'if in Callback')
            return f'(SIf {self.expr(node.test)} {self.body(node.body)} {self.body(node.orelse)})'
        if isinstance(node, ast.Try):
            if w != 'callback':
                fail(node, 'try in StateMachine')
            if node.orelse:
                fail(node, 'try/else')
            if node.handlers and not node.finalbody:
                if len(node.handlers) != 1:
                    fail(node, 'more than one except clause')
                h = node.handlers[0]
                if h.name is not None or not isinstance(h.type, ast.Name):
                    fail(node, 'except clause shape')
                return f'(STryExcept {self.body(node.body)} {q(h.type.id)} {self.body(h.body)})'
            if node.finalbody and not node.handlers:
                return f'(STryFinally {self.body(node.body)} {self.body(node.finalbody)})'
            fail(node, 'try with both except and finally')
        if isinstance(node, ast.AsyncWith):
            if w != 'callback' or len(node.items) != 1 or node.items[0].optional_vars is not None:
                fail(node, 'async with shape')
            hc = self.hook_call(node.items[0].context_expr, 'awith')
            if hc is None:
                fail(node, 'async with over something that is not self._hook.awith.<name>(...)')
            return f'(SAWith {q(hc[0])} {hc[1]} {self.body(node.body)})'
        if isinstance(node, ast.Assign):
            return self.assign(node)
        if isinstance(node, ast.Expr):
            return self.expr_stmt(node)
        fail(node, 'statement not understood')

    def assign(self, node: ast.Assign) -> str:
        w = self.which
        if len(node.targets) != 1:
            fail(node, 'multiple assignment targets')
        t, v = node.targets[0], node.value
        # reset_options = event.kwargs.pop('reset_options')
        if (w == 'machine' and isinstance(t, ast.Name) and isinstance(v, ast.Call) and isinstance(v.func, ast.Attribute)
                and v.func.attr == 'pop' and isinstance(v.func.value, ast.Attribute) and v.func.value.attr == 'kwargs'
                and isinstance(v.func.value.value, ast.Name) and v.func.value.value.id == self.event
                and len(v.args) == 1 and not v.keywords and isinstance(v.args[0], ast.Constant)
                and isinstance(v.args[0].value, str)):
            if t.id == self.event:
                fail(node, 'the EventData parameter is rebound')
            self.locals.add(t.id)
            return f'(SPopKwarg {q(t.id)} {q(v.args[0].value)})'
        if w == 'callback':
            # self._context.run_arg = ...
            if (isinstance(t, ast.Attribute) and t.attr == 'run_arg' and is_self_attr(t.value, '_context')):
                if isinstance(v, ast.Constant) and v.value is None:
                    return 'SRunArgNone'
                hc = self.hook_call(v, 'hook') if isinstance(v, ast.Call) else None
                if hc is not None:
                    return f'(SRunArgFromHook {q(hc[0])} {hc[1]})'
                fail(node, 'value assigned to context.run_arg not understood')
            # X = asyncio.Event()
            if (isinstance(v, ast.Call) and isinstance(v.func, ast.Attribute) and v.func.attr == 'Event'
                    and isinstance(v.func.value, ast.Name) and v.func.value.id == 'asyncio'
                    and not v.args and not v.keywords):
                if isinstance(t, ast.Name):
                    self.locals.add(t.id)
                tg = self.target(t)
                if tg is None:
                    fail(node, 'target of an Event')
                return f'(SNewEvent {tg})'
            # self.X = asyncio.create_task(self.M(kw))
            if (is_self_attr(t) and isinstance(v, ast.Call) and isinstance(v.func, ast.Attribute)
                    and v.func.attr == 'create_task' and isinstance(v.func.value, ast.Name) and v.func.value.id == 'asyncio'
                    and len(v.args) == 1 and not v.keywords and isinstance(v.args[0], ast.Call)
                    and is_self_attr(v.args[0].func)):
                _, kw = self.call_args(v.args[0], allow_pos=False)
                return f'(SCreateTask {q(t.attr)} {q(v.args[0].func.attr)} {kw})'
        fail(node, 'assignment not understood')

    def expr_stmt(self, node: ast.Expr) -> str:
        w = self.which
        v = node.value
        if isinstance(v, ast.Await):
            x = v.value
            if isinstance(x, ast.Call):
                f = x.func
                # await self._callback.m(...)
                if (w == 'machine' and isinstance(f, ast.Attribute) and is_self_attr(f.value, '_callback')):
                    pos, kw = self.call_args(x, allow_pos=True)
                    return f'(SAwaitCallback {q(f.attr)} {pos} {kw})'
                # await self.m()
                if is_self_attr(f) and not x.args and not x.keywords:
                    return f'(SAwaitSelf {q(f.attr)})'
                # await self._machine.m()
                if (w == 'callback' and isinstance(f, ast.Attribute) and is_self_attr(f.value, '_machine')
                        and not x.args and not x.keywords):
                    return f'(SAwaitMachine {q(f.attr)})'
                if w == 'callback':
                    hc = self.hook_call(x, 'ahook')
                    if hc is not None:
                        return f'(SAHook {q(hc[0])} {hc[1]})'
                    # await T.wait()
                    if isinstance(f, ast.Attribute) and f.attr == 'wait' and not x.args and not x.keywords:
                        tg = self.target(f.value)
                        if tg is not None:
                            return f'(SAwaitEventWait {tg})'
            elif w == 'callback' and is_self_attr(x):
                return f'(SAwaitTask {q(x.attr)})'
            fail(node, 'await not understood')
        if isinstance(v, ast.Call) and w == 'callback':
            f = v.func
            if isinstance(f, ast.Attribute) and f.attr == 'set' and not v.args and not v.keywords:
                tg = self.target(f.value)
                if tg is not None:
                    return f'(SEventSet {tg})'
            if (isinstance(f, ast.Attribute) and f.attr == 'exception' and is_self_attr(f.value, '_logger')
                    and len(v.args) == 1 and not v.keywords and isinstance(v.args[0], ast.Constant)):
                return 'SLogException'
        fail(node, 'expression statement not understood')


# ---------------------------------------------------------------- __init__ bodies
def init_machine(fn) -> list[str]:
    params = params_of(fn)
    out = []
    machines = set()
    for node in fn.body:
        if is_docstring(node):
            continue
        if isinstance(node, ast.Assign) and len(node.targets) == 1:
            t, v = node.targets[0], node.value
            if is_self_attr(t) and isinstance(v, ast.Name) and v.id in params:
                out.append(f'IAssign {q(t.attr)} (VParam {q(v.id)})')
                continue
            if (isinstance(t, ast.Attribute) and is_self_attr(t.value) and isinstance(v, ast.Name) and v.id == 'self'):
                out.append(f'IBackRef {q(t.value.attr)} {q(t.attr)}')
                continue
            if isinstance(t, ast.Name) and isinstance(v, ast.Call) and isinstance(v.func, ast.Name):
                if v.args:
                    fail(node, 'positional arguments to the machine constructor')
                model_self = False
                splat = False
                for k in v.keywords:
                    if k.arg == 'model' and isinstance(k.value, ast.Name) and k.value.id == 'self':
                        model_self = True
                    elif k.arg is None and isinstance(k.value, ast.Name) and k.value.id == 'CONFIG':
                        splat = True
                    else:
                        fail(node, 'machine constructor argument not understood (it may override CONFIG)')
                machines.add(t.id)
                out.append(f'IMachine {q(t.id)} {q(v.func.id)} {coq_bool(model_self)} {coq_bool(splat)}')
                continue
            if (isinstance(t, ast.Attribute) and t.attr == 'after_state_change' and isinstance(t.value, ast.Name)
                    and t.value.id in machines):
                name = None
                if isinstance(v, ast.Constant) and isinstance(v.value, str):
                    name = v.value
                elif (isinstance(v, ast.Attribute) and v.attr == '__name__' and is_self_attr(v.value)):
                    name = v.value.attr
                if name is None:
                    fail(node, 'value of after_state_change not understood')
                out.append(f'IAfterStateChange {q(t.value.id)} {q(name)}')
                continue
        if isinstance(node, ast.Assert) and node.msg is None:
            t = node.test
            if is_self_attr(t):
                out.append(f'IAssertAttr {q(t.attr)}')
                continue
            if (isinstance(t, ast.Call) and isinstance(t.func, ast.Name) and t.func.id == 'callable'
                    and len(t.args) == 1 and not t.keywords and is_self_attr(t.args[0])):
                out.append(f'IAssertCallable {q(t.args[0].attr)}')
                continue
        fail(node, 'statement of StateMachine.__init__ not understood')
    return out


def init_callback(fn) -> list[str]:
    params = params_of(fn)
    out = []
    for node in fn.body:
        if is_docstring(node):
            continue
        if isinstance(node, ast.AnnAssign) and node.value is None and is_self_attr(node.target) and not has_effect(node.annotation):
            continue    # `self._machine: 'StateMachine'`: no effect
        if isinstance(node, ast.Assign) and len(node.targets) == 1 and is_self_attr(node.targets[0]):
            t, v = node.targets[0], node.value
            if isinstance(v, ast.Name) and v.id in params:
                out.append(f'IAssign {q(t.attr)} (VParam {q(v.id)})')
                continue
            if isinstance(v, ast.Attribute) and isinstance(v.value, ast.Name) and v.value.id in params:
                out.append(f'IAssign {q(t.attr)} (VParamAttr {q(v.value.id)} {q(v.attr)})')
                continue
            if (isinstance(v, ast.Call) and isinstance(v.func, ast.Name) and v.func.id == 'getLogger'
                    and len(v.args) == 1 and not v.keywords and isinstance(v.args[0], ast.Name) and v.args[0].id == '__name__'):
                out.append(f'IAssign {q(t.attr)} VLogger')
                continue
        fail(node, 'statement of Callback.__init__ not understood')
    return out


def check_repr(fn):
    if isinstance(fn, ast.AsyncFunctionDef) or params_of(fn):
        fail(fn, '__repr__ shape')
    body = [n for n in fn.body if not is_docstring(n)]
    if len(body) != 1 or not isinstance(body[0], ast.Return) or not isinstance(body[0].value, ast.JoinedStr) or has_effect(body[0]):
        fail(fn, '__repr__ must be a call-free return of an f-string')


SPECIAL_REFUSED = {'__enter__', '__exit__', '__bool__', '__len__', '__eq__', '__hash__', '__post_init__', '__getattr__',
                   '__getattribute__', '__setattr__', '__init_subclass__', '__new__', '__call__', '__del__', '__await__'}


def translate_class(cls, which, init_fn):
    methods, annotated = check_class(cls)
    out_methods = []
    init = None
    for fn in methods:
        if fn.name == '__init__':
            if isinstance(fn, ast.AsyncFunctionDef):
                fail(fn, 'async __init__')
            init = init_fn(fn)
            continue
        if fn.name == '__repr__':
            check_repr(fn)
            continue
        if fn.name in SPECIAL_REFUSED:
            fail(fn, 'special method that is not translated')
        if fn.name.startswith('__') and fn.name.endswith('__') and fn.name not in ('__aenter__', '__aexit__'):
            fail(fn, 'special method that is not translated')
        tr = MethodTranslator(which, fn)
        body = tr.body(fn.body)
        out_methods.append((fn.name, isinstance(fn, ast.AsyncFunctionDef), tr.params, body))
    if init is None:
        raise WiringError(f'{cls.name}.__init__ not found')
    return out_methods, annotated, init


# ---------------------------------------------------------------- CONFIG names
def config_names(repo: Path):
    tree = ast.parse((repo / SRC_CONFIG).read_text())
    cfg = None
    for node in tree.body:
        if isinstance(node, ast.Assign) and len(node.targets) == 1 and getattr(node.targets[0], 'id', None) == 'CONFIG':
            if cfg is not None:
                raise WiringError('CONFIG assigned twice')
            cfg = ast.literal_eval(node.value)
    if not isinstance(cfg, dict):
        raise WiringError('CONFIG literal not found')
    states = list(cfg['states'])
    if not all(isinstance(s, str) for s in states):
        raise WiringError('a state of CONFIG is not a plain string (it could carry its own on_enter / on_exit)')
    triggers, cbs = [], []
    for t in cfg['transitions']:
        if isinstance(t, dict):
            triggers.append(t['trigger'])
            for key in ('before', 'after', 'conditions', 'unless', 'prepare'):
                v = t.get(key)
                if v is None:
                    continue
                for name in ([v] if isinstance(v, str) else list(v)):
                    if not isinstance(name, str):
                        raise WiringError(f'callback of CONFIG that is not a name: {name!r}')
                    cbs.append((key, name))
        else:
            triggers.append(t[0])
            if len(t) > 3:
                raise WiringError(f'positional conditions/callbacks in the CONFIG transition {t!r}')
    for key in ('before_state_change', 'after_state_change', 'prepare_event', 'finalize_event', 'on_exception', 'on_final',
                'model_override', 'model_attribute', 'auto_transitions', 'ordered_transitions'):
        if key in cfg:
            raise WiringError(f'CONFIG key {key!r} changes the callback resolution and is not modelled')
    return states, sorted(set(triggers)), cbs



# ---------------------------------------------------------------- Imp: the argument shape of the trigger calls
def imp_trigger_calls(repo: Path):
    """every `self._machine.<m>(...)` call of class Imp: (Imp method, m, number of positional arguments,
    keyword names).  Starred arguments fail closed."""
    tree = ast.parse((repo / SRC_IMP).read_text())
    out = []
    found = False
    for node in tree.body:
        if isinstance(node, ast.ClassDef) and node.name == 'Imp':
            found = True
            for fn in node.body:
                if not isinstance(fn, (ast.FunctionDef, ast.AsyncFunctionDef)):
                    continue
                for n in ast.walk(fn):
                    if (isinstance(n, ast.Call) and isinstance(n.func, ast.Attribute)
                            and is_self_attr(n.func.value, '_machine')):
                        if any(isinstance(a, ast.Starred) for a in n.args) or any(k.arg is None for k in n.keywords):
                            fail(n, 'starred arguments in a trigger call of Imp')
                        out.append((fn.name, n.func.attr, len(n.args), [k.arg for k in n.keywords]))
    if not found:
        raise WiringError('class Imp not found')
    return out

# ---------------------------------------------------------------- entry point
def translate(repo: Path) -> str:
    repo = Path(repo)
    mtree = ast.parse((repo / SRC_MACHINE).read_text())
    ctree = ast.parse((repo / SRC_CALLBACK).read_text())
    mcls = check_module(mtree, 'machine', 'StateMachine')
    ccls = check_module(ctree, 'callback', 'Callback')
    m_methods, m_annot, m_init = translate_class(mcls, 'machine', init_machine)
    c_methods, c_annot, c_init = translate_class(ccls, 'callback', init_callback)
    if c_annot:
        raise WiringError(f'class-level annotations in Callback: {c_annot}')
    states, triggers, cbs = config_names(repo)
    imp_calls = imp_trigger_calls(repo)

    m_names = {m[0] for m in m_methods}
    c_names = {m[0] for m in c_methods}
    # names that AsyncMachine.add_model binds on the model only if they are NOT there yet (core.py _checked_assignment)
    reserved = set(triggers) | {'state', 'trigger'} | {f'is_{s}' for s in states} | {f'to_{s}' for s in states} \
        | {f'may_{t}' for t in triggers}
    for n in sorted(m_names & reserved):
        raise WiringError(f'StateMachine defines {n!r}: AsyncMachine would skip binding its own {n!r} (model override policy)')
    # on_enter_* / on_exit_* must name a state of CONFIG
    for n in sorted(m_names):
        for pre in ('on_enter_', 'on_exit_'):
            if n.startswith(pre) and n[len(pre):] not in states:
                raise WiringError(f'StateMachine.{n}: {n[len(pre):]!r} is not a state of CONFIG (the callback would never run)')
    # callbacks named in CONFIG must be methods
    for key, name in cbs:
        if key != 'before':
            raise WiringError(f'CONFIG uses {key}={name!r}: only `before` is modelled')
        if name not in m_names:
            raise WiringError(f'CONFIG names the callback {name!r}, which is not a method of StateMachine')
    # a machine method may only call Callback methods that exist
    for node in ast.walk(mcls):
        if (isinstance(node, ast.Attribute) and is_self_attr(node.value, '_callback') and node.attr not in c_names
                and node.attr != '_machine'):
            fail(node, 'StateMachine uses a Callback attribute that is not a method of Callback')

    def emit_methods(ms):
        rows = []
        for name, is_async, params, body in ms:
            rows.append(f'  mkMethod {q(name)} {coq_bool(is_async)} {coq_list(q(p) for p in params)}\n    {body}')
        return '[\n' + ';\n'.join(rows) + ' ]'

    out = [
        f'(** GENERATED by translate/machine_wiring.py from {SRC_MACHINE}, {SRC_CALLBACK}, the trigger calls of {SRC_IMP} and the names of',
        f'    {SRC_CONFIG} (ast, CPython 3.12) -- do not edit. *)',
        'From Coq Require Import List String.',
        'From NL Require Import Life.MachineSyntax.',
        'Import ListNotations.',
        '',
        '(** class StateMachine: no bases, no decorators, no class-level statements besides annotations *)',
        'Definition machine_annotations : list string := ' + coq_list(q(a) for a in m_annot) + '.',
        'Definition machine_init : list init_stmt :=\n  ' + coq_list(m_init) + '.',
        'Definition machine_methods : list method :=\n' + emit_methods(m_methods) + '.',
        '',
        '(** class Callback *)',
        'Definition callback_init : list init_stmt :=\n  ' + coq_list(c_init) + '.',
        'Definition callback_methods : list method :=\n' + emit_methods(c_methods) + '.',
        '',
        '(** names of nextline/fsm/config.py (the table itself is Gen/FsmConfig.v) *)',
        'Definition config_states : list string := ' + coq_list(q(s) for s in states) + '.',
        'Definition config_triggers : list string := ' + coq_list(q(t) for t in triggers) + '.',
        'Definition config_before_names : list string := ' + coq_list(q(n) for _, n in cbs) + '.',
        '',
        f'(** {SRC_IMP}: every call `self._machine.<m>(...)` of class Imp: (Imp method, m, positional arguments, keyword names) *)',
        'Definition imp_trigger_calls : list (string * string * nat * list string) := '
        + coq_list(f'({q(a)}, {q(b)}, {n}, {coq_list(q(k) for k in kws)})' for a, b, n, kws in imp_calls) + '.',
        '',
    ]
    return '\n'.join(out)


if __name__ == '__main__':
    import sys
    print(translate(Path(sys.argv[1] if len(sys.argv) > 1 else '/repo')))
