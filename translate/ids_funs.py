"""Fail-closed translator for the numbering of threads, tasks and traces (C06) -> Gen/IdsFuns.v

A GENUINE TRANSLATION (Python `ast`, no pinned source strings) of

  nextline/utils/thread_task_id.py                ThreadTaskIdComposer: EVERY method
  nextline/spawned/plugin/plugins/concurrency.py  TaskAndThreadKeeper: every method but `init`, `context`
                                                  TaskOrThreadToTraceMapper: every method but `init`
  nextline/spawned/plugin/plugins/repeat.py       Repeater.on_start_trace, Repeater.on_end_trace
  nextline/spawned/plugin/plugins/local_.py       LocalTraceFunc.init, local_trace_func (not clean_exception: checked to touch
                                                  nothing tracked); the body of the closure Factory(hook)._factory
  nextline/spawned/plugin/plugins/pdb_/factory.py PdbInstanceFactory: every method; the body of the closure Factory(hook)._factory
                                                  (PINNED around them: the shape of the two Factory functions, see read_closure_factory)
  nextline/spawned/utils.py                       WithContext: three pinned facts (check_with_context)
  nextline/spawned/plugin/plugins/**              every id hook has exactly one @hookimpl, in its expected class, registered once
  nextline/utils/aio.py                           current_task_or_thread
  nextline/count.py                               the counter constructors (+ the shape of CastedCounter)
  nextline/types.py                               ThreadTaskId (two fields, no __bool__/__len__), the NewType numbers
  nextline/utils/__init__.py                      where current_task_or_thread / ThreadTaskIdComposer come from

statement by statement and expression by expression into the abstract syntax of
coq/theories/Ids/Syntax.v.  coq/theories/Ids/Interp.v interprets that syntax and
coq/theories/Ids/Tie.v proves that the regenerated bodies compute the operations of the
hand-written coq/theories/Ids/Model.v.

Tracked (visible in the generated term): every read and write of an attribute of `self`; for
the containers (attributes created by WeakKeyDictionary() / WeakSet() / defaultdict(lambda: ..) /
dict() / set() in __init__) the operation (`get`, `[]`, `[]=`, `del []`, `in`, `not in`, `pop`,
`setdefault`, `add`, `discard`, `clear`) and the KEY expression (the thread object, the task object,
the thread number, `task.get_loop()`, ...); what a defaultdict creates on a miss; which counter
object is created (`XNoCounter(n)`) and called; `current_thread()`, `current_task()` (with the
`try/except RuntimeError` around it), `current_task_or_thread()`; `x or y`, `not`, `is`, `==`,
walrus, tuples, `ThreadTaskId(..)`, `.thread_no/.task_no`; calls of methods of `self`; the hook
calls `self._hook.hook.<name>(..)` with their keyword arguments and their position; the event
constructors OnStartTrace/OnEndTrace (fields trace_no, thread_no, task_no) and `_queue_out.put`;
`if`/`else`, `return`, `raise`, `assert` (as `if not ..: raise AssertionError`), `try: <one statement>
except <Name>: ..`, which methods carry `@hookimpl`.

Ignored (untracked): docstrings, comments, type annotations, logging (`self._logger...`,
`logger...`, `self._logger = getLogger(..)`; the arguments must contain no call / walrus / await),
`self._hook = hook`, the fields run_no / started_at / ended_at of an event (no call inside),
assignments to a local, used in no tracked position, of a value without any call that involves
neither `self` nor a tracked local.  Reading the clock (`x = datetime.datetime.utcnow()`) stays
visible as an opaque statement.  An `assert` is never dropped (it is a raising branch or the
translation fails).  Module-level statements that rebind or mention a translated name, class
bases, class-level statements other than annotations/docstrings, decorators other than @hookimpl,
parameter defaults, __bool__/__len__/__eq__/__hash__/__enter__/__exit__/__getitem__/.. in a
translated class: all refused.
`TaskAndThreadKeeper.init/context` and `TaskOrThreadToTraceMapper.init` as long as they touch
no container, no counter and no tracked attribute (checked), `self._callback.register(..)`
(emitted as the opaque statement it is for this model).

Anything else in a tracked position raises TranslateError (= a broken tie obligation).
"""
from __future__ import annotations

import ast
import sys
from pathlib import Path

OUTPUT = 'IdsFuns.v'
SRC_COMPOSER = 'nextline/utils/thread_task_id.py'
SRC_CONC = 'nextline/spawned/plugin/plugins/concurrency.py'
SRC_REPEAT = 'nextline/spawned/plugin/plugins/repeat.py'
SRC_AIO = 'nextline/utils/aio.py'
SRC_COUNT = 'nextline/count.py'
SRC_TYPES = 'nextline/types.py'
SRC_UTILS = 'nextline/utils/__init__.py'

CLASSES = {
    'LocalTraceFunc': 'Local',
    'PdbInstanceFactory': 'PdbFactory',
    'ThreadTaskIdComposer': 'Composer',
    'TaskAndThreadKeeper': 'Keeper',
    'TaskOrThreadToTraceMapper': 'Mapper',
    'Repeater': 'Repeater',
}
# attributes whose value this model does not follow; assignments to them are dropped, reads are refused
UNTRACKED_ATTRS = {'_logger', '_hook', '_callback', '_run_no', '_queue_out'}
# methods that are not translated; they must not touch anything tracked (checked by `check_skipped`)
SKIPPED = {'Keeper': {'init', 'context'}, 'Mapper': {'init'}, 'Composer': set(), 'Local': {'clean_exception'}, 'PdbFactory': set()}
SKIPPED_MAY_STORE = UNTRACKED_ATTRS | {'_main_thread'}
REPEATER_METHODS = ['on_start_trace', 'on_end_trace']
EVENT_FIELDS_DROPPED = {'run_no', 'started_at', 'ended_at'}
EVENTS = {'OnStartTrace', 'OnEndTrace'}
FIELDS = {'thread_no', 'task_no', 'trace_dispatch'}
SRC_LOCAL = 'nextline/spawned/plugin/plugins/local_.py'
SRC_PDBFACTORY = 'nextline/spawned/plugin/plugins/pdb_/factory.py'
SRC_SPAWNED_UTILS = 'nextline/spawned/utils.py'
SRC_PLUGINS_INIT = 'nextline/spawned/plugin/plugins/__init__.py'
PLUGINS_DIR = 'nextline/spawned/plugin/plugins'
# the hooks through which a thread / task gets its numbers and its own debugger: each has exactly one implementation
ID_HOOKS = {
    'filtered': 'TaskAndThreadKeeper', 'current_thread_no': 'TaskAndThreadKeeper', 'current_task_no': 'TaskAndThreadKeeper',
    'current_trace_no': 'TaskOrThreadToTraceMapper', 'on_start_task_or_thread': 'TaskOrThreadToTraceMapper',
    'on_end_task_or_thread': 'TaskOrThreadToTraceMapper', 'local_trace_func': 'LocalTraceFunc',
    'create_local_trace_func': 'PdbInstanceFactory',
}
# objects of classes this model does not look into: (module, name) -> (kind, tracked keyword/positional fields, dropped ones)
INSTANCES = {
    ('nextline.spawned.plugin.plugins.pdb_.stream', 'StdInOut'): ('StdInOut', [], ['prompt_func']),
    ('nextline.spawned.plugin.plugins.pdb_.custom', 'CustomizedPdb'): ('CustomizedPdb', ['stdin', 'stdout'], ['cmdloop_hook']),
    ('nextline.spawned.utils', 'WithContext'): ('WithContext', ['trace'], ['context']),
}
INSTANCE_POSITIONAL = {'WithContext': ['trace', 'context']}
PURE_CLOCK_CALLS = {'datetime.datetime.utcnow()', 'datetime.datetime.now()'}
CONTAINER_CTORS = {
    ('weakref', 'WeakKeyDictionary'): 'KDict', ('builtins', 'dict'): 'KDict',
    ('weakref', 'WeakSet'): 'KSet', ('builtins', 'set'): 'KSet',
    ('collections', 'defaultdict'): 'KDefault',
}
UTILS_MODULES = {'nextline.utils', 'nextline.utils.aio', 'nextline.utils.thread_task_id'}


class TranslateError(Exception):
    pass


def norm(node) -> str:
    return ast.unparse(node).strip()


def q(s: str) -> str:
    if '"' in s:
        raise TranslateError(f'string with a quote: {s!r}')
    return f'"{s}"'


def zlit(n: int) -> str:
    return f'({n})%Z' if n < 0 else f'{n}%Z'


def strip_doc(body):
    if body and isinstance(body[0], ast.Expr) and isinstance(body[0].value, ast.Constant) and isinstance(body[0].value.value, str):
        return body[1:]
    return body


def parse(repo: Path, rel: str):
    p = repo / rel
    if not p.exists():
        raise TranslateError(f'{p} not found')
    try:
        return ast.parse(p.read_text())
    except SyntaxError as e:
        raise TranslateError(f'{rel}: {e}')


def imports_of(tree, rel: str) -> dict:
    """local name -> (module, original name)  /  module alias -> (module, None); top level only"""
    pkg = rel[:-3].replace('/', '.').split('.')
    if pkg[-1] == '__init__':
        pkg = pkg[:-1]
    else:
        pkg = pkg[:-1]
    imp = {}
    for st in tree.body:
        if isinstance(st, ast.ImportFrom):
            if st.level:
                base = pkg[:len(pkg) - (st.level - 1)]
                mod = '.'.join(base + ([st.module] if st.module else []))
            else:
                mod = st.module or ''
            for a in st.names:
                imp[a.asname or a.name] = (mod, a.name)
        elif isinstance(st, ast.Import):
            for a in st.names:
                if a.asname:
                    imp[a.asname] = (a.name, None)
                else:
                    imp[a.name.split('.')[0]] = (a.name.split('.')[0], None)
    return imp


def find_class(tree, name, rel):
    xs = [n for n in tree.body if isinstance(n, ast.ClassDef) and n.name == name]
    if len(xs) != 1:
        raise TranslateError(f'{rel}: expected exactly one class {name}, found {len(xs)}')
    c = xs[0]
    if c.bases or c.keywords or c.decorator_list:
        raise TranslateError(f'{rel}: class {name} has bases/decorators')
    return c


def methods_of(cls):
    out = {}
    for n in cls.body:
        if isinstance(n, (ast.FunctionDef, ast.AsyncFunctionDef)):
            if n.name in out:
                raise TranslateError(f'{cls.name}.{n.name} defined twice')
            out[n.name] = n
        elif isinstance(n, ast.Expr) and isinstance(n.value, ast.Constant) and isinstance(n.value.value, str):
            continue
        elif isinstance(n, ast.AnnAssign) and n.value is None:
            continue
        else:
            raise TranslateError(f'{cls.name}:{n.lineno}: class-level statement `{norm(n).splitlines()[0]}` not understood')
    return out


def is_self_attr(node, names=None) -> bool:
    return (isinstance(node, ast.Attribute) and isinstance(node.value, ast.Name) and node.value.id == 'self'
            and (names is None or node.attr in names))


CLOSURE_HOOK = [False]       # inside Factory(hook)._factory the plugin manager is the closure variable `hook`


def hook_call(node):
    """self._hook.hook.<name>(...) -> name"""
    if not isinstance(node, ast.Call):
        return None
    f = node.func
    if (isinstance(f, ast.Attribute) and isinstance(f.value, ast.Attribute) and f.value.attr == 'hook'
            and is_self_attr(f.value.value, {'_hook'})):
        return f.attr
    if (CLOSURE_HOOK[0] and isinstance(f, ast.Attribute) and isinstance(f.value, ast.Attribute) and f.value.attr == 'hook'
            and isinstance(f.value.value, ast.Name) and f.value.value.id == 'hook'):
        return f.attr
    return None


def is_logging_stmt(st) -> bool:
    if isinstance(st, ast.Expr) and isinstance(st.value, ast.Call):
        f = st.value.func
        root = f
        while isinstance(root, ast.Attribute):
            root = root.value
        first = f
        while isinstance(first, ast.Attribute) and isinstance(first.value, ast.Attribute):
            first = first.value
        if isinstance(root, ast.Name) and root.id in ('logger', 'logging'):
            return not has_effects(st.value.args, st.value.keywords)
        if isinstance(first, ast.Attribute) and is_self_attr(first, {'_logger'}):
            return not has_effects(st.value.args, st.value.keywords)
    return False


def has_effects(args, keywords) -> bool:
    """arguments of a logging call: f-strings over names and attributes are fine; a call or a walrus is not"""
    for a in list(args) + [k.value for k in keywords]:
        for n in ast.walk(a):
            if isinstance(n, (ast.Call, ast.NamedExpr, ast.Await, ast.Yield, ast.YieldFrom)):
                # `self.__class__.__name__` etc. are attributes; str()/repr() calls would run user code: refuse
                return True
    return False


# ------------------------------------------------------------------ one class

class ClassTr:
    def __init__(self, coq: str, pyname: str, rel: str, imports: dict, containers: dict, method_names: set, counters: set):
        self.coq = coq
        self.pyname = pyname
        self.rel = rel
        self.imports = imports
        self.containers = containers      # attr -> kind text
        self.method_names = method_names
        self.counters = counters
        self.fn = '?'
        self.locals: set[str] = set()
        self.opaque: set[str] = set()
        self.funrefs: dict[str, str] = {}        # local name -> translated closure it holds
        self.factories: dict[str, str] = {}      # module-level function name -> name of the closure it returns

    def err(self, node, msg):
        raise TranslateError(f'{self.rel}: {self.pyname}.{self.fn}:{getattr(node, "lineno", "?")}: {msg}: `{norm(node).splitlines()[0]}`')

    # ---- names

    def resolve(self, f):
        """the (module, name) a callee expression denotes, or None"""
        if isinstance(f, ast.Subscript):
            f = f.value
        if isinstance(f, ast.Name):
            if f.id in self.locals:
                return None
            if f.id in self.imports:
                m, n = self.imports[f.id]
                return (m, n) if n is not None else None
            if f.id in ('dict', 'set', 'list'):
                return ('builtins', f.id)
            return None
        if isinstance(f, ast.Attribute) and isinstance(f.value, ast.Name) and f.value.id not in self.locals:
            m = self.imports.get(f.value.id)
            if m and m[1] is None:
                return (m[0], f.attr)
        return None

    def cref(self, node):
        """self.<container> -> '(Cls, "name")' or None"""
        if is_self_attr(node) and node.attr in self.containers:
            return f'({self.coq}, {q(node.attr)})'
        return None

    # ---- expressions

    def exprs(self, es) -> str:
        return '[' + '; '.join(self.expr(e) for e in es) + ']'

    def expr(self, e) -> str:
        if isinstance(e, ast.Constant):
            if e.value is None:
                return 'ENone'
            if e.value is True:
                return '(EBool true)'
            if e.value is False:
                return '(EBool false)'
            if type(e.value) is int:
                return f'(EInt {zlit(e.value)})'
            self.err(e, 'constant not understood')
        if isinstance(e, ast.UnaryOp) and isinstance(e.op, ast.USub) and isinstance(e.operand, ast.Constant) and type(e.operand.value) is int:
            return f'(EInt {zlit(-e.operand.value)})'
        if isinstance(e, ast.UnaryOp) and isinstance(e.op, ast.Not):
            return f'(ENot {self.expr(e.operand)})'
        if isinstance(e, ast.Name):
            if e.id in self.opaque:
                self.err(e, 'a local whose value is not followed is used in a tracked position')
            if e.id in self.locals:
                return f'(EVar {q(e.id)})'
            self.err(e, 'name is not a local variable')
        if isinstance(e, ast.Attribute):
            if is_self_attr(e):
                if e.attr in self.containers:
                    self.err(e, 'a container attribute is used as a value (only its methods / [] / in are understood)')
                if e.attr in UNTRACKED_ATTRS:
                    self.err(e, 'an attribute this model does not follow is read in a tracked position')
                if e.attr in self.method_names:
                    self.err(e, 'a bound method is used as a value')
                return f'(EAttr {self.coq} {q(e.attr)})'
            if e.attr in FIELDS:
                return f'(EField {self.expr(e.value)} {q(e.attr)})'
            self.err(e, 'attribute access not understood')
        if isinstance(e, ast.NamedExpr):
            if not isinstance(e.target, ast.Name) or e.target.id not in self.locals:
                self.err(e, 'walrus target is not a local')
            return f'(EWalrus {q(e.target.id)} {self.expr(e.value)})'
        if isinstance(e, ast.Tuple) and len(e.elts) == 2:
            return f'(ETuple {self.expr(e.elts[0])} {self.expr(e.elts[1])})'
        if isinstance(e, ast.BoolOp):
            ctor = 'EAnd' if isinstance(e.op, ast.And) else 'EOr'
            vals = [self.expr(v) for v in e.values]
            r = vals[-1]
            for v in reversed(vals[:-1]):
                r = f'({ctor} {v} {r})'
            return r
        if isinstance(e, ast.Compare) and len(e.ops) == 1:
            op, rhs = e.ops[0], e.comparators[0]
            if isinstance(op, (ast.In, ast.NotIn)):
                d = self.cref(rhs)
                if d is None:
                    self.err(e, '`in` with something that is not a container attribute of self')
                return f'({"EIn" if isinstance(op, ast.In) else "ENotIn"} {self.expr(e.left)} {d})'
            a, b = self.expr(e.left), self.expr(rhs)
            if isinstance(op, ast.Is):
                return f'(EIs {a} {b})'
            if isinstance(op, ast.IsNot):
                return f'(EIsNot {a} {b})'
            if isinstance(op, ast.Eq):
                return f'(EEq {a} {b})'
            if isinstance(op, ast.NotEq):
                return f'(ENot (EEq {a} {b}))'
            self.err(e, 'comparison operator not understood')
        if isinstance(e, ast.Subscript):
            d = self.cref(e.value)
            if d is None:
                self.err(e, 'subscript of something that is not a container attribute of self')
            return f'(EItem {d} {self.expr(e.slice)})'
        if isinstance(e, ast.Call):
            return self.call(e)
        self.err(e, 'expression not understood')

    def call(self, e) -> str:
        f = e.func
        for k in e.keywords:
            if k.arg is None:
                self.err(e, '**kwargs')
        h = hook_call(e)
        if h is not None:
            if e.args or e.keywords:
                self.err(e, 'a hook call with arguments inside an expression')
            return f'(EHook {q(h)})'
        # container methods
        if isinstance(f, ast.Attribute) and self.cref(f.value) is not None:
            d = self.cref(f.value)
            if e.keywords:
                self.err(e, 'keyword arguments of a container method')
            n = len(e.args)
            if f.attr == 'get' and n == 1:
                return f'(EGet {d} {self.expr(e.args[0])})'
            if f.attr == 'get' and n == 2:
                return f'(EGetD {d} {self.expr(e.args[0])} {self.expr(e.args[1])})'
            if f.attr == 'pop' and n == 1:
                return f'(EPop {d} {self.expr(e.args[0])})'
            if f.attr == 'pop' and n == 2:
                return f'(EPopD {d} {self.expr(e.args[0])} {self.expr(e.args[1])})'
            if f.attr == 'setdefault' and n == 2:
                return f'(ESetDefault {d} {self.expr(e.args[0])} {self.expr(e.args[1])})'
            self.err(e, 'container method not understood in an expression')
        # methods of self
        if is_self_attr(f) and f.attr in self.method_names:
            if e.keywords:
                self.err(e, 'keyword arguments of a method of self')
            return f'(EMethod {self.coq} {q(f.attr)} {self.exprs(e.args)})'
        if isinstance(f, ast.Attribute) and f.attr == 'get_loop' and not e.args and not e.keywords:
            return f'(EGetLoop {self.expr(f.value)})'
        r = self.resolve(f)
        if r is not None:
            if r == ('threading', 'current_thread') and not e.args and not e.keywords:
                return 'ECurrentThread'
            if r == ('asyncio', 'current_task') and not e.args and not e.keywords:
                return 'ECurrentTask'
            if r[0] in UTILS_MODULES and r[1] == 'current_task_or_thread' and not e.args and not e.keywords:
                return f'(EFunc {q("current_task_or_thread")})'
            if r[0] in UTILS_MODULES and r[1] == 'ThreadTaskIdComposer' and not e.args and not e.keywords:
                return '(ENewObj Composer)'
            if r[0] == 'nextline.count' and r[1] in self.counters:
                if e.keywords:
                    if len(e.keywords) != 1 or e.keywords[0].arg != 'start' or e.args:
                        self.err(e, 'counter constructor arguments')
                    return f'(ENewCounter {q(r[1])} [{self.expr(e.keywords[0].value)}])'
                return f'(ENewCounter {q(r[1])} {self.exprs(e.args)})'
            if r == ('nextline.types', 'ThreadTaskId'):
                kws = {k.arg: k.value for k in e.keywords}
                if len(e.args) == 2 and not kws:
                    a, b = e.args
                elif not e.args and set(kws) == {'thread_no', 'task_no'}:
                    a, b = kws['thread_no'], kws['task_no']
                elif len(e.args) == 1 and set(kws) == {'task_no'}:
                    a, b = e.args[0], kws['task_no']
                else:
                    self.err(e, 'ThreadTaskId(...) arguments')
                return f'(EMkId {self.expr(a)} {self.expr(b)})'
            if r[0] == 'nextline.events' and r[1] in EVENTS:
                if e.args:
                    self.err(e, 'positional arguments of an event constructor')
                fs = []
                for k in e.keywords:
                    if k.arg in EVENT_FIELDS_DROPPED:
                        if any(isinstance(n, (ast.Call, ast.NamedExpr)) for n in ast.walk(k.value)):
                            self.err(e, f'the value of the untracked field {k.arg} contains a call')
                        continue
                    fs.append(f'({q(k.arg)}, {self.expr(k.value)})')
                return f'(EEvent {q(r[1])} [{"; ".join(fs)}])'
            if r in INSTANCES:
                kind, tracked, dropped = INSTANCES[r]
                pos = INSTANCE_POSITIONAL.get(kind, [])
                if len(e.args) > len(pos):
                    self.err(e, f'positional arguments of {kind}(..)')
                given = dict(zip(pos, e.args))
                for k in e.keywords:
                    if k.arg in given:
                        self.err(e, f'argument {k.arg} given twice')
                    given[k.arg] = k.value
                if set(given) != set(tracked) | set(dropped):
                    self.err(e, f'{kind}(..) is not called with exactly {tracked + dropped}')
                for d in dropped:
                    if not isinstance(given[d], ast.Name):
                        self.err(e, f'the argument {d} of {kind}(..) is not a plain name')
                fs = '; '.join(f'({q(t)}, {self.expr(given[t])})' for t in tracked)
                return f'(ENewInst {q(kind)} [{fs}])'
            self.err(e, f'call of {r[0]}.{r[1]} not understood')
        if r is None and isinstance(f, ast.Name) and f.id in self.factories and f.id not in self.locals:
            kws = {k.arg: k.value for k in e.keywords}
            one = e.args[0] if len(e.args) == 1 and not kws else kws.get('hook') if not e.args and set(kws) == {'hook'} else None
            if not (isinstance(one, ast.Name) and one.id == 'hook' and 'hook' in self.locals):
                self.err(e, 'the closure factory is not called as Factory(hook)')
            return f'(EFunRef {q(self.factories[f.id])})'
        # f(a, ..): a trace function held in a local
        if isinstance(f, ast.Name) and f.id in self.locals and f.id not in self.opaque and e.args and not e.keywords:
            return f'(ECallArgs {self.expr(f)} {self.exprs(e.args)})'
        # f(): a counter object / the composer / a closure
        if not e.args and not e.keywords:
            return f'(ECall {self.expr(f)})'
        self.err(e, 'call not understood')

    # ---- statements

    def untracked_value(self, v) -> bool:
        """an expression that involves neither self nor a tracked local nor a hook/walrus"""
        for n in ast.walk(v):
            if isinstance(n, ast.Name) and (n.id == 'self' or (n.id in self.locals and n.id not in self.opaque)):
                return False
            if isinstance(n, (ast.NamedExpr, ast.Await, ast.Yield, ast.YieldFrom, ast.Lambda)):
                return False
        return True

    def container_ctor(self, v):
        """WeakKeyDictionary[..]() / WeakSet() / defaultdict[..](lambda: e) -> kind text"""
        if not isinstance(v, ast.Call):
            return None
        r = self.resolve(v.func)
        kind = CONTAINER_CTORS.get(r) if r else None
        if kind is None:
            return None
        if v.keywords:
            self.err(v, 'keyword arguments of a container constructor')
        if kind == 'KDefault':
            if len(v.args) == 1 and isinstance(v.args[0], ast.Name) and v.args[0].id in self.funrefs:
                return f'(KDefault (ECall (EFunRef {q(self.funrefs[v.args[0].id])})))'
            if len(v.args) != 1 or not isinstance(v.args[0], ast.Lambda):
                self.err(v, 'defaultdict(..) without a lambda factory')
            lam = v.args[0]
            a = lam.args
            if a.args or a.posonlyargs or a.kwonlyargs or a.vararg or a.kwarg:
                self.err(v, 'defaultdict factory with parameters')
            saved = self.locals
            self.locals = set()          # the factory closes over nothing
            try:
                body = self.expr(lam.body)
            finally:
                self.locals = saved
            return f'(KDefault {body})'
        if v.args:
            self.err(v, 'a container constructed from initial contents')
        return kind

    def assign(self, st, target, value) -> str | None:
        if isinstance(target, ast.Name):
            if target.id not in self.locals:
                self.err(st, 'assignment to a name that is not a local')
            try:
                v = self.expr(value)
            except TranslateError:
                if norm(value) in PURE_CLOCK_CALLS and self.imports.get('datetime') == ('datetime', None):
                    # reading the clock: the value is not followed, the call stays visible
                    self.opaque.add(target.id)
                    return f'(SOpaque {q(norm(value))})'
                if self.untracked_value(value) and not any(isinstance(n, ast.Call) for n in ast.walk(value)):
                    self.opaque.add(target.id)
                    return None
                raise
            self.opaque.discard(target.id)
            self.funrefs.pop(target.id, None)
            if v.startswith('(EFunRef '):
                self.funrefs[target.id] = v[len('(EFunRef "'):-2]
            return f'(SAssign {q(target.id)} {v})'
        if isinstance(target, ast.Tuple) and len(target.elts) == 2 and all(isinstance(x, ast.Name) for x in target.elts):
            a, b = target.elts
            for x in (a, b):
                if x.id not in self.locals:
                    self.err(st, 'assignment to a name that is not a local')
            return f'(SAssign2 {q(a.id)} {q(b.id)} {self.expr(value)})'
        if is_self_attr(target):
            name = target.attr
            if name == '_logger':
                r = self.resolve(value.func) if isinstance(value, ast.Call) else None
                if r != ('logging', 'getLogger'):
                    self.err(st, 'self._logger is not assigned logging.getLogger(..)')
                return None
            if name == '_hook' and isinstance(value, ast.Name) and value.id == 'hook' and 'hook' in self.locals:
                return None
            if name in UNTRACKED_ATTRS:
                self.err(st, 'an attribute this model does not follow is assigned in a translated method')
            k = self.container_ctor(value)
            if k is not None:
                if self.fn not in ('__init__', 'init'):
                    self.err(st, 'a container is replaced outside __init__ / init')
                return f'(SNewContainer ({self.coq}, {q(name)}) {k})'
            if name in self.containers:
                self.err(st, 'a container attribute is assigned something that is not a container constructor')
            return f'(SSetAttr {self.coq} {q(name)} {self.expr(value)})'
        if isinstance(target, ast.Subscript):
            d = self.cref(target.value)
            if d is None:
                self.err(st, 'item assignment to something that is not a container attribute of self')
            return f'(SSetItem {d} {self.expr(target.slice)} {self.expr(value)})'
        if (isinstance(target, ast.Attribute) and isinstance(target.value, ast.Name) and target.value.id in self.locals
                and target.value.id not in self.opaque and isinstance(value, ast.Attribute) and isinstance(value.value, ast.Name)
                and value.value.id in self.locals and target.attr == 'prompt_end' and value.attr == 'prompt'):
            # stdio.prompt_end = pdb.prompt: wiring inside the new (StdInOut, CustomizedPdb) pair; not followed, kept visible
            return f'(SOpaque {q(norm(st))})'
        self.err(st, 'assignment target not understood')

    def stmt(self, st, ind: int) -> str | None:
        pad = ' ' * ind
        if isinstance(st, ast.Expr):
            v = st.value
            if isinstance(v, ast.Constant) and isinstance(v.value, str):
                return None
            if is_logging_stmt(st):
                return None
            if isinstance(v, ast.Call):
                f = v.func
                h = hook_call(v)
                if h is not None:
                    if v.args:
                        self.err(st, 'positional arguments of a hook call')
                    kws = []
                    for k in v.keywords:
                        if k.arg is None:
                            self.err(st, '**kwargs')
                        kws.append(f'({q(k.arg)}, {self.expr(k.value)})')
                    return f'(SHook {q(h)} [{"; ".join(kws)}])'
                if is_self_attr(f) and f.attr in self.method_names:
                    if v.keywords:
                        self.err(st, 'keyword arguments of a method of self')
                    return f'(SCallMethod {self.coq} {q(f.attr)} {self.exprs(v.args)})'
                if isinstance(f, ast.Attribute) and self.cref(f.value) is not None and not v.keywords:
                    d = self.cref(f.value)
                    if f.attr == 'add' and len(v.args) == 1:
                        return f'(SAdd {d} {self.expr(v.args[0])})'
                    if f.attr in ('discard', 'remove') and len(v.args) == 1 and self.containers[f.value.attr] == 'KSet' and f.attr == 'discard':
                        return f'(SDiscard {d} {self.expr(v.args[0])})'
                    if f.attr == 'clear' and not v.args:
                        return f'(SClear {d})'
                if (isinstance(f, ast.Attribute) and f.attr == 'register' and is_self_attr(f.value, {'_callback'})
                        and len(v.args) == 1 and not v.keywords and isinstance(v.args[0], ast.Name) and v.args[0].id in self.locals):
                    return f'(SOpaque {q("_callback.register")})'
                if (isinstance(f, ast.Attribute) and f.attr == 'put' and is_self_attr(f.value, {'_queue_out'})
                        and len(v.args) == 1 and not v.keywords):
                    return f'(SPut {self.expr(v.args[0])})'
            return f'(SExpr {self.expr(v)})'
        if isinstance(st, ast.Pass):
            return 'SSkip'
        if isinstance(st, ast.Assign):
            if len(st.targets) != 1:
                self.err(st, 'chained assignment')
            return self.assign(st, st.targets[0], st.value)
        if isinstance(st, ast.AnnAssign):
            if st.value is None:
                return None
            return self.assign(st, st.target, st.value)
        if isinstance(st, ast.Delete):
            if len(st.targets) == 1 and isinstance(st.targets[0], ast.Subscript) and self.cref(st.targets[0].value) is not None:
                return f'(SDelItem {self.cref(st.targets[0].value)} {self.expr(st.targets[0].slice)})'
            self.err(st, 'del not understood')
        if isinstance(st, ast.If):
            return (f'(SIf {self.expr(st.test)}\n{pad}  {self.block(st.body, ind + 2)}\n'
                    f'{pad}  {self.block(st.orelse, ind + 2)})')
        if isinstance(st, ast.Return):
            return f'(SReturn {self.expr(st.value) if st.value is not None else "ENone"})'
        if isinstance(st, ast.Raise):
            if st.exc is None:
                self.err(st, 'bare raise')
            c = st.exc.func if isinstance(st.exc, ast.Call) else st.exc
            if not isinstance(c, ast.Name):
                self.err(st, 'raise of something that is not a plain exception class')
            return f'(SRaise {q(c.id)})'
        if isinstance(st, ast.Assert):
            c = self.expr(st.test)          # an assert can raise: it is a raising branch, never dropped
            return f'(SIf {c} SSkip (SRaise {q("AssertionError")}))'
        if isinstance(st, ast.Try):
            if st.orelse or st.finalbody or len(st.handlers) != 1:
                self.err(st, 'try other than try/except with one handler')
            h = st.handlers[0]
            if h.name is not None or not isinstance(h.type, ast.Name):
                self.err(st, 'except clause other than `except <Name>:`')
            if len([x for x in st.body if not is_logging_stmt(x)]) != 1 or isinstance(st.body[0], (ast.If, ast.Try)):
                # Ids/Interp.v runs the handler with the locals as they were at the `try`
                self.err(st, 'try body other than one simple statement')
            return (f'(STry\n{pad}  {self.block(st.body, ind + 2)}\n{pad}  {q(h.type.id)}\n'
                    f'{pad}  {self.block(h.body, ind + 2)})')
        self.err(st, 'statement not understood')

    def block(self, body, ind: int) -> str:
        items = [x for x in (self.stmt(s, ind) for s in body) if x is not None]
        if not items:
            return 'SSkip'
        pad = ' ' * ind
        r = items[-1]
        for it in reversed(items[:-1]):
            r = f'(SSeq {it}\n{pad}{r})'
        return r

    def method(self, fn) -> tuple[list[str], str, bool]:
        """-> (parameters, body, is_hookimpl)"""
        self.fn = fn.name
        if isinstance(fn, ast.AsyncFunctionDef):
            self.err(fn, 'async method')
        decos = [norm(d) for d in fn.decorator_list]
        if [d for d in decos if d != 'hookimpl']:
            self.err(fn, f'decorators {decos}')
        if 'hookimpl' in decos and self.imports.get('hookimpl') != ('nextline.spawned.plugin.spec', 'hookimpl'):
            self.err(fn, 'hookimpl is not nextline.spawned.plugin.spec.hookimpl')
        a = fn.args
        if a.posonlyargs or a.vararg or a.kwarg or a.kwonlyargs or a.defaults:
            self.err(fn, 'parameters with defaults / *args / **kwargs / keyword-only')
        names = [x.arg for x in a.args]
        if not names or names[0] != 'self':
            self.err(fn, 'first parameter is not self')
        params = names[1:]
        self.locals = set(params)
        self.opaque = set()
        for n in ast.walk(fn):
            if isinstance(n, ast.Name) and isinstance(n.ctx, ast.Store):
                self.locals.add(n.id)
            if isinstance(n, (ast.FunctionDef, ast.AsyncFunctionDef, ast.ClassDef)) and n is not fn:
                self.err(n, 'nested definition')
            if isinstance(n, (ast.Global, ast.Nonlocal, ast.Yield, ast.YieldFrom, ast.Await)):
                self.err(n, 'global/nonlocal/yield/await')
        if 'self' in self.locals:
            self.err(fn, 'self is rebound')
        body = self.block(strip_doc(fn.body), 2)
        return params, body, 'hookimpl' in decos


def containers_of(init_fn, tr: ClassTr) -> dict:
    """the attributes that __init__ / init creates as containers (first pass, before the bodies are translated)"""
    out = {}
    if init_fn is None:
        return out
    tr.fn = init_fn.name
    tr.locals = {x.arg for x in init_fn.args.args}
    for st in ast.walk(init_fn):
        tgt = val = None
        if isinstance(st, ast.Assign) and len(st.targets) == 1:
            tgt, val = st.targets[0], st.value
        elif isinstance(st, ast.AnnAssign) and st.value is not None:
            tgt, val = st.target, st.value
        if tgt is not None and is_self_attr(tgt) and isinstance(val, ast.Call):
            r = tr.resolve(val.func)
            if r in CONTAINER_CTORS:
                if tgt.attr in out:
                    raise TranslateError(f'{tr.pyname}.__init__: container {tgt.attr} created twice')
                out[tgt.attr] = CONTAINER_CTORS[r]
    return out


def check_skipped(cls_coq: str, pyname: str, fn, containers: dict, tracked_attrs: set):
    """a method that is not translated must not touch anything the model follows"""
    for n in ast.walk(fn):
        if is_self_attr(n):
            if isinstance(n.ctx, (ast.Store, ast.Del)) and n.attr not in SKIPPED_MAY_STORE:
                raise TranslateError(f'{pyname}.{fn.name}:{n.lineno}: writes self.{n.attr} (method not translated)')
            if n.attr in containers or n.attr in tracked_attrs:
                raise TranslateError(f'{pyname}.{fn.name}:{n.lineno}: touches self.{n.attr} (method not translated)')
        if hook_call(n) is not None:
            raise TranslateError(f'{pyname}.{fn.name}:{n.lineno}: calls a hook (method not translated)')


def translate_class(tree, rel: str, pyname: str, counters: set, only: list[str] | None = None, factories: dict | None = None) -> dict:
    coq = CLASSES[pyname]
    cls = find_class(tree, pyname, rel)
    ms = methods_of(cls)
    for dunder in ('__getattr__', '__setattr__', '__getattribute__', '__bool__', '__len__', '__eq__', '__hash__',
                   '__enter__', '__exit__', '__aenter__', '__aexit__', '__post_init__', '__getitem__', '__missing__'):
        if dunder in ms:
            raise TranslateError(f'{pyname}.{dunder} defined (changes attribute access / truthiness / identity)')
    imports = imports_of(tree, rel)
    tr = ClassTr(coq, pyname, rel, imports, {}, set(ms), counters)
    tr.factories = dict(factories or {})
    tr.containers = containers_of(ms.get('__init__'), tr)
    if 'init' in ms and 'init' not in SKIPPED.get(coq, set()) and only is None:
        tr.containers.update(containers_of(ms['init'], tr))
    res = {}
    if only is not None:
        for name in only:
            if name not in ms:
                raise TranslateError(f'{pyname}.{name} not found')
        todo = only
    else:
        todo = [m for m in ms if m not in SKIPPED[coq]]
    for name in todo:
        res[name] = tr.method(ms[name])
    if only is None:
        tracked = set()
        for name in todo:
            for n in ast.walk(ms[name]):
                if is_self_attr(n) and n.attr not in UNTRACKED_ATTRS and n.attr not in ms and n.attr != '_main_thread' and n.attr != '_to_end':
                    tracked.add(n.attr)
        for name in SKIPPED[coq]:
            if name in ms:
                check_skipped(coq, pyname, ms[name], tr.containers, tracked - set(tr.containers))
    return res


# ------------------------------------------------------------------ aio.py, count.py, types.py, utils/__init__.py

def translate_function(tree, rel: str, name: str) -> str:
    xs = [n for n in tree.body if isinstance(n, (ast.FunctionDef, ast.AsyncFunctionDef)) and n.name == name]
    if len(xs) != 1 or not isinstance(xs[0], ast.FunctionDef):
        raise TranslateError(f'{rel}: expected exactly one plain function {name}')
    fn = xs[0]
    if fn.decorator_list:
        raise TranslateError(f'{rel}: {name} is decorated')
    tr = ClassTr('Keeper', '<module>', rel, imports_of(tree, rel), {}, set(), set())
    tr.fn = name
    a = fn.args
    if a.args or a.posonlyargs or a.vararg or a.kwarg or a.kwonlyargs:
        raise TranslateError(f'{rel}: {name} has parameters')
    tr.locals = {n.id for n in ast.walk(fn) if isinstance(n, ast.Name) and isinstance(n.ctx, ast.Store)}
    for n in ast.walk(fn):
        if isinstance(n, (ast.FunctionDef, ast.AsyncFunctionDef, ast.ClassDef, ast.Lambda)) and n is not fn:
            raise TranslateError(f'{rel}: {name}: nested definition')
        if isinstance(n, ast.Name) and n.id == 'self':
            raise TranslateError(f'{rel}: {name}: mentions self')
    return tr.block(strip_doc(fn.body), 2)


def translate_counters(tree, types_tree) -> dict:
    imp = imports_of(tree, SRC_COUNT)
    if imp.get('count') != ('itertools', 'count'):
        raise TranslateError(f'{SRC_COUNT}: `count` is {imp.get("count")}, not itertools.count')
    newtypes = set()
    for st in types_tree.body:
        if (isinstance(st, ast.Assign) and len(st.targets) == 1 and isinstance(st.targets[0], ast.Name)
                and isinstance(st.value, ast.Call) and norm(st.value.func) == 'NewType' and len(st.value.args) == 2
                and norm(st.value.args[1]) == 'int'):
            newtypes.add(st.targets[0].id)
    fns = {n.name: n for n in tree.body if isinstance(n, ast.FunctionDef)}
    # CastedCounter(src, type_): def casted_counter(): return type_(src()) ; return casted_counter
    cc = fns.get('CastedCounter')
    if cc is None or cc.decorator_list or [a.arg for a in cc.args.args] != ['src', 'type_'] or cc.args.defaults:
        raise TranslateError(f'{SRC_COUNT}: CastedCounter(src, type_) not found')
    body = strip_doc(cc.body)
    ok = (len(body) == 2 and isinstance(body[0], ast.FunctionDef) and not body[0].args.args and not body[0].decorator_list
          and [norm(s) for s in strip_doc(body[0].body)] == ['return type_(src())']
          and isinstance(body[1], ast.Return) and isinstance(body[1].value, ast.Name) and body[1].value.id == body[0].name)
    if not ok:
        raise TranslateError(f'{SRC_COUNT}: CastedCounter is not `def f(): return type_(src())` / `return f`')
    res = {}
    for name, fn in fns.items():
        if name == 'CastedCounter':
            continue
        where = f'{SRC_COUNT}: {name}'
        a = fn.args
        if fn.decorator_list or a.posonlyargs or a.vararg or a.kwarg or a.kwonlyargs or [x.arg for x in a.args] != ['start']:
            raise TranslateError(f'{where}: parameters other than (start)')
        if len(a.defaults) > 1:
            raise TranslateError(f'{where}: defaults')
        default = 'None'
        if a.defaults:
            d = a.defaults[0]
            if not (isinstance(d, ast.Constant) and type(d.value) is int):
                raise TranslateError(f'{where}: default of start is not an integer literal')
            default = f'(Some {zlit(d.value)})'
        body = strip_doc(fn.body)
        if len(body) != 1 or not isinstance(body[0], ast.Return) or not isinstance(body[0].value, ast.Call):
            raise TranslateError(f'{where}: body is not a single `return CastedCounter(...)`')
        c = body[0].value
        if not (isinstance(c.func, ast.Name) and c.func.id == 'CastedCounter' and len(c.args) == 2 and not c.keywords):
            raise TranslateError(f'{where}: `{norm(c)}` is not CastedCounter(src, type)')
        src, typ = c.args
        if not (isinstance(typ, ast.Name) and typ.id in newtypes and imp.get(typ.id) == ('nextline.types', typ.id)):
            raise TranslateError(f'{where}: the type `{norm(typ)}` is not a NewType(.., int) of nextline.types')
        if not (isinstance(src, ast.Attribute) and src.attr == '__next__' and isinstance(src.value, ast.Call)
                and isinstance(src.value.func, ast.Name) and src.value.func.id == 'count' and not src.value.keywords
                and 1 <= len(src.value.args) <= 2):
            raise TranslateError(f'{where}: `{norm(src)}` is not count(..).__next__')
        cargs = src.value.args

        def lit(n):
            if isinstance(n, ast.Constant) and type(n.value) is int:
                return n.value
            if isinstance(n, ast.UnaryOp) and isinstance(n.op, ast.USub) and isinstance(n.operand, ast.Constant) and type(n.operand.value) is int:
                return -n.operand.value
            raise TranslateError(f'{where}: `{norm(n)}` is not an integer literal')
        if isinstance(cargs[0], ast.Name) and cargs[0].id == 'start':
            frm = 'CFromParam'
        else:
            frm = f'(CFromConst {zlit(lit(cargs[0]))})'
        step = lit(cargs[1]) if len(cargs) == 2 else 1
        res[name] = f'mkCdef {default} {frm} {zlit(step)}'
    return res


def check_types(types_tree):
    cls = [n for n in types_tree.body if isinstance(n, ast.ClassDef) and n.name == 'ThreadTaskId']
    if len(cls) != 1:
        raise TranslateError(f'{SRC_TYPES}: ThreadTaskId not found')
    c = cls[0]
    if [norm(d) for d in c.decorator_list] != ['dataclasses.dataclass(frozen=True)'] or c.bases:
        raise TranslateError(f'{SRC_TYPES}: ThreadTaskId is not a plain frozen dataclass')
    fields = []
    for st in strip_doc(c.body):
        if isinstance(st, ast.AnnAssign) and isinstance(st.target, ast.Name) and st.value is None:
            fields.append(st.target.id)
        else:
            raise TranslateError(f'{SRC_TYPES}: ThreadTaskId: member `{norm(st).splitlines()[0]}` (a method could change truthiness / equality)')
    if fields != ['thread_no', 'task_no']:
        raise TranslateError(f'{SRC_TYPES}: ThreadTaskId fields are {fields}')


def check_utils(tree):
    imp = imports_of(tree, SRC_UTILS)
    if imp.get('current_task_or_thread') != ('nextline.utils.aio', 'current_task_or_thread'):
        raise TranslateError(f'{SRC_UTILS}: current_task_or_thread is {imp.get("current_task_or_thread")}')
    if imp.get('ThreadTaskIdComposer') != ('nextline.utils.thread_task_id', 'ThreadTaskIdComposer'):
        raise TranslateError(f'{SRC_UTILS}: ThreadTaskIdComposer is {imp.get("ThreadTaskIdComposer")}')



# ------------------------------------------------------------------ the closures Factory(hook)._factory; scans of the plugin package

def read_closure_factory(tree, rel: str, setup_callees: set[str], droppable_nested: set[str]) -> str:
    """`def Factory(hook): <name = Callee(hook) ..>; def _factory(): ...; return _factory` -> the body of _factory.
    PIN of the shape of Factory (parameter `hook`, set-up assignments from the named module-level callees, exactly one
    nested `_factory` without parameters, `return _factory`) + TRANSLATION of the body of `_factory`."""
    xs = [n for n in tree.body if isinstance(n, (ast.FunctionDef, ast.AsyncFunctionDef)) and n.name == 'Factory']
    if len(xs) != 1 or not isinstance(xs[0], ast.FunctionDef):
        raise TranslateError(f'{rel}: expected exactly one plain function Factory')
    fn = xs[0]
    a = fn.args
    if fn.decorator_list or [x.arg for x in a.args] != ['hook'] or a.defaults or a.vararg or a.kwarg or a.kwonlyargs or a.posonlyargs:
        raise TranslateError(f'{rel}: Factory is not `def Factory(hook)` without decorators')
    inner = None
    closure_names = set()
    body = strip_doc(fn.body)
    for i, st in enumerate(body):
        if isinstance(st, ast.Assign) and len(st.targets) == 1 and isinstance(st.targets[0], ast.Name) and isinstance(st.value, ast.Call) \
                and isinstance(st.value.func, ast.Name) and st.value.func.id in setup_callees and inner is None:
            c = st.value
            args = list(c.args) + [k.value for k in c.keywords]
            if any(not (isinstance(x, ast.Name) and x.id == 'hook') for x in args) or any(k.arg != 'hook' for k in c.keywords):
                raise TranslateError(f'{rel}: Factory:{st.lineno}: `{norm(st)}` passes something other than hook')
            closure_names.add(st.targets[0].id)
        elif isinstance(st, ast.FunctionDef) and st.name == '_factory' and inner is None:
            inner = st
        elif isinstance(st, ast.Return) and inner is not None and i == len(body) - 1 and isinstance(st.value, ast.Name) and st.value.id == '_factory':
            pass
        else:
            raise TranslateError(f'{rel}: Factory:{st.lineno}: statement `{norm(st).splitlines()[0]}` not understood')
    if inner is None or not isinstance(body[-1], ast.Return):
        raise TranslateError(f'{rel}: Factory does not define and return `_factory`')
    ia = inner.args
    if inner.decorator_list or ia.args or ia.vararg or ia.kwarg or ia.kwonlyargs or ia.posonlyargs:
        raise TranslateError(f'{rel}: Factory._factory has parameters / decorators')
    tr = ClassTr('Local', 'Factory', rel, imports_of(tree, rel), {}, set(), set())
    tr.fn = '_factory'
    stmts = []
    nested = []
    for st in strip_doc(inner.body):
        if isinstance(st, ast.FunctionDef) and st.name in droppable_nested:
            nested.append(st)
        else:
            stmts.append(st)
    tr.locals = {n.id for st in stmts for n in ast.walk(st) if isinstance(n, ast.Name) and isinstance(n.ctx, ast.Store)}
    for st in stmts:
        for n in ast.walk(st):
            if isinstance(n, (ast.FunctionDef, ast.AsyncFunctionDef, ast.ClassDef, ast.Lambda, ast.Global, ast.Nonlocal, ast.Yield,
                              ast.YieldFrom, ast.Await)):
                raise TranslateError(f'{rel}: Factory._factory:{n.lineno}: nested definition / nonlocal / yield')
            if isinstance(n, ast.Name) and n.id == 'self':
                raise TranslateError(f'{rel}: Factory._factory mentions self')
    for nd in nested:
        # a nested definition is only DEFINED here; it must not get at the locals that carry the new debugger
        for n in ast.walk(nd):
            if isinstance(n, ast.Name) and n.id in tr.locals:
                raise TranslateError(f'{rel}: Factory._factory.{nd.name}:{n.lineno}: uses the local `{n.id}` of _factory')
            if isinstance(n, ast.Nonlocal) and set(n.names) & (tr.locals | closure_names):
                raise TranslateError(f'{rel}: Factory._factory.{nd.name}: nonlocal {n.names}')
            if isinstance(n, ast.Call) and isinstance(n.func, ast.Attribute) and n.func.attr in ID_HOOKS:
                raise TranslateError(f'{rel}: Factory._factory.{nd.name}:{n.lineno}: calls the hook {n.func.attr}')
    tr.locals |= {nd.name for nd in nested}
    tr.opaque = {nd.name for nd in nested}
    CLOSURE_HOOK[0] = True
    try:
        # the closure variables may only appear where an argument is dropped (checked by the INSTANCES table)
        return tr.block(stmts, 2)
    finally:
        CLOSURE_HOOK[0] = False


def check_with_context(tree):
    """WithContext(trace, context) calls `trace(frame, event, arg)` (PIN of three facts of nextline/spawned/utils.py)"""
    xs = [n for n in tree.body if isinstance(n, ast.FunctionDef) and n.name == 'WithContext']
    if len(xs) != 1 or [a.arg for a in xs[0].args.args] != ['trace', 'context'] or xs[0].decorator_list:
        raise TranslateError(f'{SRC_SPAWNED_UTILS}: WithContext(trace, context) not found')
    fn = xs[0]
    init = [n for n in ast.walk(fn) if isinstance(n, (ast.Assign, ast.AnnAssign)) and norm(n.targets[0] if isinstance(n, ast.Assign) else n.target) == 'next_trace'
            and n.value is not None and norm(n.value) == 'trace']
    calls = [n for n in ast.walk(fn) if isinstance(n, ast.Call) and norm(n.func) == 'next_trace' and [norm(x) for x in n.args] == ['frame', 'event', 'arg']]
    stores = [n for n in ast.walk(fn) if isinstance(n, ast.Name) and isinstance(n.ctx, ast.Store) and n.id == 'trace']
    if len(init) != 1 or len(calls) != 1 or stores:
        raise TranslateError(f'{SRC_SPAWNED_UTILS}: WithContext does not start from `next_trace = trace` and call `next_trace(frame, event, arg)` once')


def scan_id_hooks(repo: Path):
    """every hook of ID_HOOKS is implemented (@hookimpl) by its one expected class, anywhere under the plugin package"""
    found = {}
    for path in sorted((repo / PLUGINS_DIR).rglob('*.py')):
        rel = str(path.relative_to(repo))
        try:
            tree = ast.parse(path.read_text())
        except SyntaxError as e:
            raise TranslateError(f'{rel}: {e}')
        def is_impl(fn):
            return any('hookimpl' in norm(d) for d in fn.decorator_list)
        for node in ast.walk(tree):
            if isinstance(node, ast.ClassDef):
                for m in node.body:
                    if isinstance(m, (ast.FunctionDef, ast.AsyncFunctionDef)) and m.name in ID_HOOKS and is_impl(m):
                        found.setdefault(m.name, []).append((rel, node.name))
        for m in tree.body:
            if isinstance(m, (ast.FunctionDef, ast.AsyncFunctionDef)) and m.name in ID_HOOKS and is_impl(m):
                found.setdefault(m.name, []).append((rel, '<module>'))
        for node in ast.walk(tree):
            # hookimpl(specname='current_trace_no') on a method of another name
            if isinstance(node, ast.Call) and 'hookimpl' in norm(node.func):
                for k in node.keywords:
                    if k.arg == 'specname' and isinstance(k.value, ast.Constant) and k.value.value in ID_HOOKS:
                        raise TranslateError(f'{rel}:{node.lineno}: hookimpl(specname={k.value.value!r})')
    for h, cls in ID_HOOKS.items():
        got = found.get(h, [])
        if [c for _, c in got] != [cls]:
            raise TranslateError(f'the hook {h} must be implemented by {cls} alone; found {got}')
    # each translated plugin class is registered exactly once, unconditionally
    tree = parse(repo, SRC_PLUGINS_INIT)
    regs = [n for n in tree.body if isinstance(n, ast.FunctionDef) and n.name == 'register']
    if len(regs) != 1:
        raise TranslateError(f'{SRC_PLUGINS_INIT}: register() not found')
    top = [norm(st.value.args[0]) for st in regs[0].body
           if isinstance(st, ast.Expr) and isinstance(st.value, ast.Call) and norm(st.value.func) == 'hook.register' and len(st.value.args) == 1]
    everywhere = [norm(n.args[0]) for n in ast.walk(regs[0]) if isinstance(n, ast.Call) and norm(n.func) == 'hook.register' and len(n.args) == 1]
    for cls in sorted(set(ID_HOOKS.values()) | {'Repeater'}):
        if top.count(cls) != 1 or everywhere.count(cls) != 1:
            raise TranslateError(f'{SRC_PLUGINS_INIT}: {cls} is not registered exactly once at the top level of register()')


def check_module_level(tree, rel: str, names: set[str]):
    """no module-level statement rebinds or patches a translated class / function"""
    for st in tree.body:
        if isinstance(st, (ast.Import, ast.ImportFrom)):
            for a in st.names:
                if (a.asname or a.name) in names:
                    raise TranslateError(f'{rel}:{st.lineno}: import rebinds {a.asname or a.name}')
            continue
        if isinstance(st, (ast.ClassDef, ast.FunctionDef, ast.AsyncFunctionDef)):
            continue
        if isinstance(st, ast.Expr) and isinstance(st.value, ast.Constant):
            continue
        mentioned = {n.id for n in ast.walk(st) if isinstance(n, ast.Name)} | {n.attr for n in ast.walk(st) if isinstance(n, ast.Attribute)}
        if mentioned & names:
            raise TranslateError(f'{rel}:{st.lineno}: module-level statement `{norm(st).splitlines()[0]}` mentions {sorted(mentioned & names)}')
        if not isinstance(st, (ast.Assign, ast.AnnAssign)) or any(isinstance(n, (ast.Attribute, ast.Subscript)) and isinstance(n.ctx, ast.Store) for n in ast.walk(st)):
            raise TranslateError(f'{rel}:{st.lineno}: module-level statement `{norm(st).splitlines()[0]}` not understood')
    for nm in names:
        defs = [n for n in tree.body if isinstance(n, (ast.ClassDef, ast.FunctionDef, ast.AsyncFunctionDef)) and n.name == nm]
        if len(defs) > 1:
            raise TranslateError(f'{rel}: {nm} defined {len(defs)} times')


# ------------------------------------------------------------------ output

def coq_ident(cls: str, m: str) -> str:
    return f'{cls.lower()}_{m.strip("_")}_body' if m.strip('_') else f'{cls.lower()}_body'


def translate(repo: Path) -> str:
    repo = Path(repo)
    types_tree = parse(repo, SRC_TYPES)
    check_types(types_tree)
    check_utils(parse(repo, SRC_UTILS))
    counters = translate_counters(parse(repo, SRC_COUNT), types_tree)
    cset = set(counters)
    conc = parse(repo, SRC_CONC)
    comp_tree, local_tree, pdbf_tree, aio_tree = parse(repo, SRC_COMPOSER), parse(repo, SRC_LOCAL), parse(repo, SRC_PDBFACTORY), parse(repo, SRC_AIO)
    scan_id_hooks(repo)
    check_with_context(parse(repo, SRC_SPAWNED_UTILS))
    check_module_level(comp_tree, SRC_COMPOSER, {'ThreadTaskIdComposer'})
    check_module_level(conc, SRC_CONC, {'TaskAndThreadKeeper', 'TaskOrThreadToTraceMapper'})
    check_module_level(local_tree, SRC_LOCAL, {'LocalTraceFunc', 'Factory'})
    check_module_level(pdbf_tree, SRC_PDBFACTORY, {'PdbInstanceFactory', 'Factory'})
    classes = [
        ('Composer', translate_class(comp_tree, SRC_COMPOSER, 'ThreadTaskIdComposer', cset)),
        ('Keeper', translate_class(conc, SRC_CONC, 'TaskAndThreadKeeper', cset)),
        ('Mapper', translate_class(conc, SRC_CONC, 'TaskOrThreadToTraceMapper', cset)),
        ('Repeater', translate_class(parse(repo, SRC_REPEAT), SRC_REPEAT, 'Repeater', cset, only=REPEATER_METHODS)),
        ('Local', translate_class(local_tree, SRC_LOCAL, 'LocalTraceFunc', cset, factories={'Factory': 'local_factory'})),
        ('PdbFactory', translate_class(pdbf_tree, SRC_PDBFACTORY, 'PdbInstanceFactory', cset, factories={'Factory': 'pdb_factory'})),
    ]
    local_factory = read_closure_factory(local_tree, SRC_LOCAL, {'TraceCallNoCounter'}, {'_context'})
    pdb_factory = read_closure_factory(pdbf_tree, SRC_PDBFACTORY, {'CmdloopHook', 'PromptFunc'}, set())
    for need_cls, need in (('Composer', ['__init__', '__call__']), ('Keeper', ['__init__', 'filtered', '_on_end']),
                           ('Mapper', ['__init__']), ('Local', ['init', 'local_trace_func']),
                           ('PdbFactory', ['init', 'create_local_trace_func'])):
        ms = dict(classes)[need_cls]
        for m in need:
            if m not in ms:
                raise TranslateError(f'{need_cls}.{m} not found')
    check_module_level(aio_tree, SRC_AIO, {'current_task_or_thread'})
    fun_body = translate_function(aio_tree, SRC_AIO, 'current_task_or_thread')
    L = [
        '(** GENERATED by translate/ids_funs.py (ast, CPython %d.%d) -- do not edit.' % sys.version_info[:2],
        f'    From {SRC_COMPOSER}, {SRC_CONC},',
        f'    {SRC_REPEAT}, {SRC_AIO}, {SRC_COUNT}.',
        '    Terms of Ids/Syntax.v; interpreted by Ids/Interp.v and tied to Ids/Model.v by Ids/Tie.v. *)',
        'From NL Require Import Ids.Syntax.',
        'Local Open Scope string_scope.',
        '',
    ]
    table = []
    hooks = []
    seen = set()
    for cls, ms in classes:
        for m, (params, body, is_hook) in ms.items():
            ident = coq_ident(cls, m)
            if ident in seen:
                raise TranslateError(f'two methods map to the Coq name {ident}')
            seen.add(ident)
            L.append(f'(** {cls}.{m}({", ".join(["self"] + params)}){"   @hookimpl" if is_hook else ""} *)')
            L.append(f'Definition {ident} : stmt :=\n  {body}.')
            L.append('')
            table.append(f'(({cls}, {q(m)}), ([{"; ".join(q(p) for p in params)}], {ident}))')
            if is_hook:
                hooks.append(f'({q(m)}, {cls})')
    L.append(f'(** {SRC_AIO}: current_task_or_thread() *)')
    L.append(f'Definition current_task_or_thread_body : stmt :=\n  {fun_body}.')
    L.append('')
    L.append('Definition methods : list (cls * string * (list string * stmt)) :=\n  [' + ';\n   '.join(table) + '].')
    L.append('')
    L.append(f'(** {SRC_LOCAL}: the closure Factory(hook)._factory (what the defaultdict of LocalTraceFunc calls on a miss) *)')
    L.append(f'Definition local_factory_body : stmt :=\n  {local_factory}.')
    L.append('')
    L.append(f'(** {SRC_PDBFACTORY}: the closure Factory(hook)._factory (a new StdInOut and a new CustomizedPdb per call) *)')
    L.append(f'Definition pdb_factory_body : stmt :=\n  {pdb_factory}.')
    L.append('')
    L.append('Definition functions : list (string * stmt) :=\n  [("current_task_or_thread", current_task_or_thread_body);\n'
             '   ("local_factory", local_factory_body);\n   ("pdb_factory", pdb_factory_body)].')
    L.append('')
    L.append('(** the methods that carry @hookimpl, in source order *)')
    L.append('Definition hookimpls : list (string * cls) :=\n  [' + '; '.join(hooks) + '].')
    L.append('')
    L.append(f'(** {SRC_COUNT}: name -> mkCdef <default of start> <argument of itertools.count> <step> *)')
    text = '\n'.join(L)
    used = [n for n in counters if f'(ENewCounter {q(n)} ' in text]      # constructors the translated code calls
    L.append('Definition counters : list (string * cdef) :=\n  [' + ';\n   '.join(f'({q(n)}, {counters[n]})' for n in used) + '].')
    L.append('')
    L.append('Definition program : prog := mkProg methods functions hookimpls counters.')
    L.append('')
    return '\n'.join(L)


if __name__ == '__main__':
    print(translate(Path(sys.argv[1] if len(sys.argv) > 1 else '/repo')))
