"""Fail-closed translator: nextline/utils/aio.py -> coq/theories/Gen/AioFuns.v

A GENUINE translation (no pinned source text) of

  * the async generators `merge_aiters` and `agen_with_wait` into the statement AST of
    coq/theories/Aio/Syntax.v (`stmt` / `expr`) over their local variables.  Tracked, each by
    its own constructor: assignments (`x = e` builds a value, `x = y` aliases), the augmented
    set assignments `|=` `&=` `-=` (NOT the same term as `x = ...`), `.add/.remove/.discard/
    .clear/.pop`, `m[k] = v`, `del m[k]`, `asyncio.ensure_future(a.__anext__())` (arming an
    anext), `await asyncio.wait(S, return_when=asyncio.FIRST_COMPLETED)` with its two targets,
    `yield` (with or without a target for the sent value), `try: x = t.result() except
    StopAsyncIteration: ...`, `if exc := t.exception(): ...`, `.cancel()`, `raise`, `if`/`while`/
    `for`/`break`/`continue`, and the set expressions `| & - {e} set(e) tuple(e) in / not in /
    is not None / m[k] / m.keys()` and the two comprehensions `{a: i for i, a in enumerate(e)}`,
    `{asyncio.ensure_future(a.__anext__()): a for a in e}` (+ `{t for t in e if t.done()}`);
  * the class `to_aiter` (methods reachable from `__anext__`, the `_anext` selector set in
    `__init__`, the private `_StopIteration` exception) into `cstmt`; its only base must be
    `AsyncIterator[T]`, `__aiter__` inherited or `return self`, no class-level statements, no
    decorators, no other methods than `__repr__`/`__str__`;
  * `aiterable`: must be `return to_aiter(<its parameter unchanged>, thread=<const>)`.

Ignored (cosmetic), under the shared rule "an ignored statement contains no call other than a
logging call (`logger.<level>(..)`, `logging.<level>(..)`, `getLogger(..).<level>(..)`,
`warnings.warn(..)`) whose arguments are call-free, no walrus/await/yield, and mentions no tracked
local, parameter or `self`": docstrings, comments, `pass`, `x: T` annotations, such logging calls,
`logger = logging.getLogger(..)`.  `assert` is refused.  The rest of the module may not rebind,
shadow or monkeypatch a translated definition or a name the translation relies on (`asyncio`,
`set`, `next`, ... : `check_module`); `FIRST_COMPLETED`/`wait`/`ensure_future`/`to_thread` are
accepted only as attributes of the module `asyncio` imported by plain `import asyncio`.

Anything else in a tracked position raises `Unsupported` (= a broken tie obligation).
"""
from __future__ import annotations

import ast
import sys
from pathlib import Path

OUTPUT = 'AioFuns.v'
SRC = 'nextline/utils/aio.py'


class Unsupported(Exception):
    pass


def fail(node, why: str):
    raise Unsupported(f'{SRC}:{getattr(node, "lineno", "?")}: {why}: `{ast.unparse(node)[:120]}`')


def q(s: str) -> str:
    assert '"' not in s
    return f'"{s}"'


# --------------------------------------------------------------------------- helpers

def is_name(n, name=None) -> bool:
    return isinstance(n, ast.Name) and (name is None or n.id == name)


def dotted(n) -> str | None:
    """`a.b.c` -> 'a.b.c' (names and attributes only)"""
    if isinstance(n, ast.Name):
        return n.id
    if isinstance(n, ast.Attribute):
        b = dotted(n.value)
        return None if b is None else b + '.' + n.attr
    return None


def method_call(n, attr: str, nargs: int = 0):
    """`<obj>.attr(a1..an)` without keywords -> (obj, args) else None"""
    if isinstance(n, ast.Call) and isinstance(n.func, ast.Attribute) and n.func.attr == attr \
            and not n.keywords and len(n.args) == nargs:
        return n.func.value, n.args
    return None


def anext_arming(n):
    """`asyncio.ensure_future(<a>.__anext__())` -> <a> else None"""
    if isinstance(n, ast.Call) and dotted(n.func) == 'asyncio.ensure_future' \
            and len(n.args) == 1 and not n.keywords:
        mc = method_call(n.args[0], '__anext__')
        if mc is not None:
            return mc[0]
    return None


def root_name(n) -> str | None:
    """the name at the root of `a.b(...).c(...)`"""
    while isinstance(n, (ast.Attribute, ast.Call)):
        n = n.value if isinstance(n, ast.Attribute) else n.func
    return n.id if isinstance(n, ast.Name) else None


def strip_doc(body):
    if body and isinstance(body[0], ast.Expr) and isinstance(body[0].value, ast.Constant) \
            and isinstance(body[0].value.value, str):
        return body[1:]
    return body


LOG_LEVELS = {'debug', 'info', 'warning', 'warn', 'error', 'exception', 'critical', 'log'}
LOG_ROOTS = {'logging', 'logger', 'log'}
COSMETIC_SEEN: list = []       # the ignored statements of the function being translated (checked afterwards for names)


def call_free(n) -> bool:
    for sub in ast.walk(n):
        if isinstance(sub, (ast.Call, ast.NamedExpr, ast.Await, ast.Yield, ast.YieldFrom, ast.Lambda,
                            ast.ListComp, ast.SetComp, ast.DictComp, ast.GeneratorExp)):
            return False
    return True


def args_call_free(c: ast.Call) -> bool:
    return all(call_free(a) for a in c.args) and all(call_free(k.value) for k in c.keywords)


def is_get_logger(c) -> bool:
    """`logging.getLogger(<call-free>)` / `getLogger(<call-free>)`"""
    return isinstance(c, ast.Call) and dotted(c.func) in ('logging.getLogger', 'getLogger') and args_call_free(c)


def is_log_call(c) -> bool:
    """`logger.<level>(..)`, `logging.<level>(..)`, `[logging.]getLogger(..).<level>(..)`, `warnings.warn(..)`;
    no argument contains a call, a walrus, an await or a yield"""
    if not (isinstance(c, ast.Call) and isinstance(c.func, ast.Attribute) and args_call_free(c)):
        return False
    recv, attr = c.func.value, c.func.attr
    if isinstance(recv, ast.Name) and recv.id == 'warnings' and attr == 'warn':
        return True
    if attr not in LOG_LEVELS:
        return False
    return (isinstance(recv, ast.Name) and recv.id in LOG_ROOTS) or is_get_logger(recv)


def _is_cosmetic(st) -> bool:
    if isinstance(st, ast.Pass):
        return True
    if isinstance(st, ast.AnnAssign) and st.value is None and isinstance(st.target, ast.Name):
        return True                                 # `x: T` (the annotation of a local is not evaluated)
    if isinstance(st, ast.Assign) and len(st.targets) == 1 and isinstance(st.targets[0], ast.Name) \
            and st.targets[0].id in ('logger', 'log') and is_get_logger(st.value):
        return True                                 # logger = logging.getLogger(...): a later tracked use of it is unbound
    if isinstance(st, ast.Expr):
        v = st.value
        if isinstance(v, ast.Constant):            # stray docstring / ellipsis
            return True
        return is_log_call(v)
    return False


def is_cosmetic(st) -> bool:
    """Ignored statements.  Shared rule: an ignored statement contains no call except a logging call whose
    arguments are call-free, no walrus / await / yield, and (checked by `check_cosmetic_names` once the tracked
    names are known) mentions no tracked local, parameter or `self`.  `assert` is never ignored."""
    if _is_cosmetic(st):
        COSMETIC_SEEN.append(st)
        return True
    return False


def check_cosmetic_names(tracked: set[str]):
    for st in COSMETIC_SEEN:
        if isinstance(st, ast.AnnAssign):
            continue
        for sub in ast.walk(st):
            if isinstance(sub, ast.Name) and sub.id in tracked and not (
                    isinstance(st, ast.Assign) and sub is st.targets[0]):
                fail(st, f'ignored statement mentions the tracked name `{sub.id}`')
    COSMETIC_SEEN.clear()


# --------------------------------------------------------------------------- expressions

class Gen:
    """translation of one generator function; collects the local variable names"""

    def __init__(self, fn: ast.AsyncFunctionDef):
        self.fn = fn
        self.vars: list[str] = []

    def var(self, name: str) -> str:
        if name not in self.vars:
            self.vars.append(name)
        return q(name)

    def expr(self, n) -> str:
        if isinstance(n, ast.Name):
            return f'(EVar {self.var(n.id)})'
        if isinstance(n, ast.Constant):
            if n.value is None:
                return 'ENone'
            if n.value is True:
                return 'ETrue'
            fail(n, 'constant not supported')
        if isinstance(n, ast.Set):
            if len(n.elts) != 1:
                fail(n, 'set display with other than one element')
            return f'(ESingle {self.expr(n.elts[0])})'
        if isinstance(n, ast.Tuple):
            if len(n.elts) != 2:
                fail(n, 'tuple of other than two elements')
            return f'(EPair {self.expr(n.elts[0])} {self.expr(n.elts[1])})'
        if isinstance(n, ast.BinOp):
            op = {ast.BitOr: 'EUnion', ast.BitAnd: 'EInter', ast.Sub: 'EDiff'}.get(type(n.op))
            if op is None:
                fail(n, 'binary operator not supported')
            return f'({op} {self.expr(n.left)} {self.expr(n.right)})'
        if isinstance(n, ast.UnaryOp) and isinstance(n.op, ast.Not):
            return f'(ENot {self.expr(n.operand)})'
        if isinstance(n, ast.Compare) and len(n.ops) == 1:
            a, op, b = n.left, n.ops[0], n.comparators[0]
            if isinstance(op, ast.In):
                return f'(EIn {self.expr(a)} {self.expr(b)})'
            if isinstance(op, ast.NotIn):
                return f'(ENot (EIn {self.expr(a)} {self.expr(b)}))'
            if isinstance(op, ast.IsNot) and isinstance(b, ast.Constant) and b.value is None:
                return f'(EIsNotNone {self.expr(a)})'
            if isinstance(op, ast.Is) and isinstance(b, ast.Constant) and b.value is None:
                return f'(ENot (EIsNotNone {self.expr(a)}))'
            fail(n, 'comparison not supported')
        if isinstance(n, ast.Subscript):
            return f'(EIndex {self.expr(n.value)} {self.expr(n.slice)})'
        if isinstance(n, ast.Call):
            # set() / set[T]()
            f = n.func
            base = f.value if isinstance(f, ast.Subscript) else f
            if is_name(base, 'set') and not n.keywords:
                if not n.args:
                    return 'EEmptySet'
                if len(n.args) == 1 and not isinstance(f, ast.Subscript):
                    return f'(ESetOf {self.expr(n.args[0])})'
            if is_name(f, 'tuple') and len(n.args) == 1 and not n.keywords:
                return f'(ETupleOf {self.expr(n.args[0])})'
            mc = method_call(n, 'keys')
            if mc is not None:
                return f'(EKeys {self.expr(mc[0])})'
            fail(n, 'call not supported in an expression')
        if isinstance(n, ast.DictComp):
            # {a: i for i, a in enumerate(e)}
            if len(n.generators) == 1:
                g = n.generators[0]
                if not g.ifs and not g.is_async and isinstance(g.target, ast.Tuple) and len(g.target.elts) == 2 \
                        and all(isinstance(x, ast.Name) for x in g.target.elts) \
                        and isinstance(g.iter, ast.Call) and is_name(g.iter.func, 'enumerate') \
                        and len(g.iter.args) == 1 and not g.iter.keywords \
                        and is_name(n.key, g.target.elts[1].id) and is_name(n.value, g.target.elts[0].id) \
                        and g.target.elts[0].id != g.target.elts[1].id:
                    return f'(EEnumMap {self.expr(g.iter.args[0])})'
            fail(n, 'dict comprehension not supported')
        if isinstance(n, ast.SetComp):
            # {t for t in e if t.done()}
            if len(n.generators) == 1:
                g = n.generators[0]
                if not g.is_async and isinstance(g.target, ast.Name) and is_name(n.elt, g.target.id) and len(g.ifs) == 1:
                    mc = method_call(g.ifs[0], 'done')
                    if mc is not None and is_name(mc[0], g.target.id):
                        return f'(EDoneOf {self.expr(g.iter)})'
            fail(n, 'set comprehension not supported')
        fail(n, 'expression not supported')

    # ----------------------------------------------------------------------- statements

    def body(self, stmts) -> str:
        items = [x for x in (self.stmt(s) for s in stmts) if x is not None]
        if not items:
            return 'SSkip'
        out = items[-1]
        for it in reversed(items[:-1]):
            out = f'(SSeq {it}\n {out})'
        return out

    def target(self, n) -> str:
        if not isinstance(n, ast.Name):
            fail(n, 'assignment target is not a local variable')
        return self.var(n.id)

    def assign(self, st, tgt, val) -> str:
        # d, p = await asyncio.wait(S, return_when=asyncio.FIRST_COMPLETED)
        if isinstance(val, ast.Await):
            c = val.value
            if isinstance(c, ast.Call) and dotted(c.func) == 'asyncio.wait':
                if not (isinstance(tgt, ast.Tuple) and len(tgt.elts) == 2 and all(isinstance(x, ast.Name) for x in tgt.elts)
                        and tgt.elts[0].id != tgt.elts[1].id):
                    fail(st, 'result of asyncio.wait must be unpacked into two distinct local variables')
                if len(c.args) != 1:
                    fail(st, 'asyncio.wait with other than one positional argument')
                kws = {k.arg: k.value for k in c.keywords}
                if set(kws) != {'return_when'} or dotted(kws['return_when']) != 'asyncio.FIRST_COMPLETED':
                    fail(st, 'asyncio.wait without exactly return_when=asyncio.FIRST_COMPLETED')
                return f'(SWait {self.target(tgt.elts[0])} {self.target(tgt.elts[1])} {self.expr(c.args[0])})'
            fail(st, 'await of something else than asyncio.wait')
        if isinstance(val, ast.Yield):
            if val.value is None:
                fail(st, 'bare yield')
            return f'(SYield (Some {self.target(tgt)}) {self.expr(val.value)})'
        x = self.target(tgt)
        a = anext_arming(val)
        if a is not None:
            return f'(SEnsureAnext {x} {self.expr(a)})'
        mc = method_call(val, 'pop')
        if mc is not None:
            if not isinstance(mc[0], ast.Name):
                fail(st, 'pop from something else than a local variable')
            return f'(SPop {x} {self.var(mc[0].id)})'
        mc = method_call(val, 'result')
        if mc is not None:
            return f'(SResult {x} {self.expr(mc[0])} None)'
        if isinstance(val, ast.DictComp) and len(val.generators) == 1:
            g = val.generators[0]
            a = anext_arming(val.key)
            if a is not None and not g.ifs and not g.is_async and isinstance(g.target, ast.Name) \
                    and is_name(a, g.target.id) and is_name(val.value, g.target.id):
                return f'(SArmAll {x} {self.expr(g.iter)})'
        if isinstance(val, ast.Name):
            return f'(SMove {x} {self.var(val.id)})'
        return f'(SAssign {x} {self.expr(val)})'

    def stmt(self, st) -> str | None:
        if is_cosmetic(st):
            return None
        if isinstance(st, ast.Assign):
            if len(st.targets) != 1:
                fail(st, 'chained assignment')
            tgt = st.targets[0]
            if isinstance(tgt, ast.Subscript):
                if not isinstance(tgt.value, ast.Name):
                    fail(st, 'item assignment on something else than a local variable')
                return f'(SSetItem {self.var(tgt.value.id)} {self.expr(tgt.slice)} {self.expr(st.value)})'
            return self.assign(st, tgt, st.value)
        if isinstance(st, ast.AnnAssign):
            return self.assign(st, st.target, st.value)
        if isinstance(st, ast.AugAssign):
            op = {ast.BitOr: 'SAugOr', ast.BitAnd: 'SAugAnd', ast.Sub: 'SAugSub'}.get(type(st.op))
            if op is None:
                fail(st, 'augmented assignment not supported')
            return f'({op} {self.target(st.target)} {self.expr(st.value)})'
        if isinstance(st, ast.Delete):
            if len(st.targets) == 1 and isinstance(st.targets[0], ast.Subscript) and isinstance(st.targets[0].value, ast.Name):
                t = st.targets[0]
                return f'(SDelItem {self.var(t.value.id)} {self.expr(t.slice)})'
            fail(st, 'del not supported')
        if isinstance(st, ast.Expr):
            v = st.value
            if isinstance(v, ast.Yield):
                if v.value is None:
                    fail(st, 'bare yield')
                return f'(SYield None {self.expr(v.value)})'
            for attr, ctor, nargs in (('add', 'SAdd', 1), ('remove', 'SRemove', 1), ('discard', 'SDiscard', 1), ('clear', 'SClear', 0)):
                mc = method_call(v, attr, nargs)
                if mc is not None:
                    if not isinstance(mc[0], ast.Name):
                        fail(st, f'.{attr} on something else than a local variable')
                    args = ''.join(' ' + self.expr(a) for a in mc[1])
                    return f'({ctor} {self.var(mc[0].id)}{args})'
            mc = method_call(v, 'cancel')
            if mc is not None:
                return f'(SCancel {self.expr(mc[0])})'
            fail(st, 'expression statement not supported')
        if isinstance(st, ast.Raise):
            if st.exc is None or st.cause is not None:
                fail(st, 'raise form not supported')
            return f'(SRaise {self.expr(st.exc)})'
        if isinstance(st, ast.Break):
            return 'SBreak'
        if isinstance(st, ast.Continue):
            return 'SContinue'
        if isinstance(st, ast.If):
            t = st.test
            if isinstance(t, ast.NamedExpr):
                mc = method_call(t.value, 'exception')
                if mc is None or st.orelse:
                    fail(st, 'walrus test other than `if x := t.exception():` without else')
                return f'(SIfExc {self.target(t.target)} {self.expr(mc[0])} {self.body(st.body)})'
            return f'(SIf {self.expr(t)}\n {self.body(st.body)}\n {self.body(st.orelse)})'
        if isinstance(st, ast.While):
            if st.orelse:
                fail(st, 'while/else')
            return f'(SWhile {self.expr(st.test)}\n {self.body(st.body)})'
        if isinstance(st, ast.For):
            if st.orelse:
                fail(st, 'for/else')
            return f'(SFor {self.target(st.target)} {self.expr(st.iter)}\n {self.body(st.body)})'
        if isinstance(st, ast.Try):
            # try: x = t.result() / except StopAsyncIteration: h
            real = [s for s in st.body if not is_cosmetic(s)]
            if st.orelse or st.finalbody or len(st.handlers) != 1 or len(real) != 1:
                fail(st, 'try shape not supported')
            h = st.handlers[0]
            if h.type is None or dotted(h.type) != 'StopAsyncIteration' or h.name is not None:
                fail(st, 'handler other than `except StopAsyncIteration:`')
            b = real[0]
            tgt = None
            if isinstance(b, ast.Assign) and len(b.targets) == 1:
                tgt = b.targets[0]
            elif isinstance(b, ast.AnnAssign) and b.value is not None:
                tgt = b.target
            if tgt is not None:
                mc = method_call(b.value, 'result')
                if mc is not None:
                    return f'(SResult {self.target(tgt)} {self.expr(mc[0])} (Some {self.body(h.body)}))'
            fail(st, 'try body other than `x = t.result()`')
        fail(st, 'statement not supported')


def generator(tree, name: str, check_args) -> tuple[str, list[str]]:
    fns = [n for n in tree.body if isinstance(n, (ast.AsyncFunctionDef, ast.FunctionDef)) and n.name == name]
    if len(fns) != 1 or not isinstance(fns[0], ast.AsyncFunctionDef):
        raise Unsupported(f'{SRC}: expected exactly one `async def {name}`')
    fn = fns[0]
    if fn.decorator_list:
        fail(fn, 'decorated')
    g = Gen(fn)
    for a in check_args(fn):
        g.var(a)
    for sub in ast.walk(fn):
        if isinstance(sub, (ast.FunctionDef, ast.AsyncFunctionDef, ast.Lambda, ast.ClassDef)) and sub is not fn:
            fail(sub, 'nested definition')
        if isinstance(sub, (ast.Global, ast.Nonlocal, ast.Return, ast.With, ast.AsyncWith, ast.AsyncFor, ast.YieldFrom)):
            fail(sub, 'construct not supported in a tracked generator')
    COSMETIC_SEEN.clear()
    term = g.body(strip_doc(fn.body))
    check_cosmetic_names(set(g.vars) - {'logger', 'log'})
    for v in g.vars:
        if v in RELIED_NAMES:
            fail(fn, f'local variable `{v}` shadows a name the translation relies on')
    return term, g.vars


def merge_args(fn) -> list[str]:
    a = fn.args
    if a.args or a.posonlyargs or a.kwonlyargs or a.kwarg or a.vararg is None:
        fail(fn, 'merge_aiters must take exactly *aiters')
    return [a.vararg.arg]


def agen_args(fn) -> list[str]:
    a = fn.args
    if len(a.args) != 1 or a.posonlyargs or a.kwonlyargs or a.kwarg or a.vararg or a.defaults:
        fail(fn, 'agen_with_wait must take exactly one argument')
    return [a.args[0].arg]


# --------------------------------------------------------------------------- the module around the tracked definitions

TRACKED_DEFS = {'to_aiter', 'merge_aiters', 'agen_with_wait', 'aiterable'}
# names whose usual meaning the translation relies on
RELIED_NAMES = {'asyncio', 'set', 'tuple', 'enumerate', 'next', 'iter', 'StopIteration', 'StopAsyncIteration',
                'Exception', 'AsyncIterator', 'warnings', 'logging'}
REFLECTION = {'setattr', 'delattr', 'globals', 'vars', 'locals', 'exec', 'eval', '__import__', 'importlib'}


def check_module(tree):
    """Nothing in the module may rebind, shadow or monkeypatch a translated definition or a name the translation
    relies on (`asyncio`, `set`, `next`, ...): imports with other meanings, assignments, attribute stores,
    `setattr`, `global`, duplicate definitions."""
    guarded = TRACKED_DEFS | RELIED_NAMES
    for node in ast.walk(tree):
        if isinstance(node, ast.Import):
            for a in node.names:
                bound = a.asname or a.name.split('.')[0]
                if bound in guarded and not (a.name in ('asyncio', 'warnings', 'logging') and a.asname in (None, a.name)):
                    fail(node, f'import binds the guarded name `{bound}`')
        elif isinstance(node, ast.ImportFrom):
            for a in node.names:
                bound = a.asname or a.name
                if a.name == '*':
                    fail(node, 'star import')
                if bound in guarded and not (bound == 'AsyncIterator' and a.name == 'AsyncIterator'
                                             and node.module in ('collections.abc', 'typing') and node.level == 0):
                    fail(node, f'import binds the guarded name `{bound}`')
        elif isinstance(node, (ast.FunctionDef, ast.AsyncFunctionDef, ast.ClassDef)):
            if node.name in RELIED_NAMES:
                fail(node, f'definition shadows `{node.name}`')
            if node.name in TRACKED_DEFS and node not in tree.body:
                fail(node, f'nested definition named `{node.name}`')
        elif isinstance(node, ast.Name):
            if isinstance(node.ctx, (ast.Store, ast.Del)) and node.id in guarded:
                fail(node, f'`{node.id}` is rebound')
            if node.id in REFLECTION:
                fail(node, f'use of `{node.id}`')
        elif isinstance(node, (ast.Attribute, ast.Subscript)):
            if isinstance(node.ctx, (ast.Store, ast.Del)) and root_name(node) in guarded:
                fail(node, 'store through a guarded name')
        elif isinstance(node, (ast.Global, ast.Nonlocal)):
            if set(node.names) & guarded:
                fail(node, 'global/nonlocal of a guarded name')
        elif isinstance(node, ast.arg):
            if node.arg in guarded:
                fail(node, f'parameter named `{node.arg}`')
        elif isinstance(node, ast.ExceptHandler):
            if node.name in guarded:
                fail(node, f'`except ... as {node.name}`')
        elif isinstance(node, ast.alias):
            pass
    for name in TRACKED_DEFS:
        n = [x for x in tree.body if isinstance(x, (ast.FunctionDef, ast.AsyncFunctionDef, ast.ClassDef)) and x.name == name]
        if len(n) != 1:
            raise Unsupported(f'{SRC}: expected exactly one top-level definition of `{name}`, found {len(n)}')
    # module-level statements: imports, definitions, docstrings and assignments of other names only
    for st in tree.body:
        if isinstance(st, (ast.Import, ast.ImportFrom, ast.FunctionDef, ast.AsyncFunctionDef, ast.ClassDef)):
            continue
        if isinstance(st, ast.Expr) and isinstance(st.value, ast.Constant):
            continue
        if isinstance(st, (ast.Assign, ast.AnnAssign)):
            tg = st.targets if isinstance(st, ast.Assign) else [st.target]
            if all(isinstance(t, ast.Name) for t in tg):
                continue
        fail(st, 'module-level statement not recognised')


def aiterable(tree) -> bool:
    """`def aiterable(iterable): [warnings.warn(<constants>)]; return to_aiter(iterable, thread=<bool>)`
    -> the value of `thread` it passes"""
    fn = [x for x in tree.body if isinstance(x, (ast.FunctionDef, ast.AsyncFunctionDef)) and x.name == 'aiterable'][0]
    if not isinstance(fn, ast.FunctionDef) or fn.decorator_list:
        fail(fn, 'aiterable must be a plain undecorated function')
    a = fn.args
    if len(a.args) != 1 or a.posonlyargs or a.kwonlyargs or a.vararg or a.kwarg or a.defaults:
        fail(fn, 'aiterable must take exactly one parameter')
    param = a.args[0].arg
    COSMETIC_SEEN.clear()
    real = [st for st in strip_doc(fn.body) if not is_cosmetic(st)]
    check_cosmetic_names({param})
    if len(real) != 1 or not isinstance(real[0], ast.Return):
        fail(fn, 'aiterable: expected a single return besides the deprecation warning')
    c = real[0].value
    if not (isinstance(c, ast.Call) and is_name(c.func, 'to_aiter') and len(c.args) == 1 and is_name(c.args[0], param)):
        fail(real[0], 'aiterable must return to_aiter(<its parameter, unchanged>, ...)')
    kws = {k.arg: k.value for k in c.keywords}
    if set(kws) - {'thread'}:
        fail(real[0], 'aiterable passes unknown keywords')
    if 'thread' not in kws:
        return None
    v = kws['thread']
    if not (isinstance(v, ast.Constant) and isinstance(v.value, bool)):
        fail(real[0], 'thread= must be a bool constant')
    return v.value


# --------------------------------------------------------------------------- to_aiter

EXN = {'StopIteration': 'XStopIteration', 'StopAsyncIteration': 'XStopAsyncIteration'}


class Cls:
    def __init__(self, cls: ast.ClassDef):
        self.cls = cls
        self.custom: set[str] = set()      # names of the private stop exception(s)
        self.methods = {n.name: n for n in cls.body if isinstance(n, (ast.FunctionDef, ast.AsyncFunctionDef))}
        bases = [ast.unparse(b) for b in cls.bases]
        if bases not in (['AsyncIterator[T]'], ['AsyncIterator']) or cls.keywords or cls.decorator_list:
            fail(cls, f'class to_aiter must derive from AsyncIterator[T] only (bases {bases}): `async for` needs its __aiter__')
        names = [n.name for n in cls.body if isinstance(n, (ast.FunctionDef, ast.AsyncFunctionDef))]
        if len(names) != len(set(names)):
            fail(cls, 'a method is defined twice')
        for n in strip_doc(cls.body):
            if isinstance(n, (ast.FunctionDef, ast.AsyncFunctionDef, ast.ClassDef)):
                continue
            if isinstance(n, ast.AnnAssign) and n.value is None and isinstance(n.target, ast.Name):
                continue
            fail(n, 'class-level statement (e.g. an attribute shared by all instances) not supported')
        for n in cls.body:
            if isinstance(n, ast.ClassDef):
                bases = [dotted(b) for b in n.bases]
                rest = [s for s in n.body if not (isinstance(s, ast.Pass) or
                                                  (isinstance(s, ast.Expr) and isinstance(s.value, ast.Constant)))]
                if bases != ['Exception'] or rest or n.decorator_list or n.keywords:
                    fail(n, 'nested class other than a plain `class X(Exception)`')
                self.custom.add(n.name)
        if len(self.custom) > 1:
            fail(cls, 'more than one nested exception class')

    def exn(self, n) -> str:
        # `raise X`, `raise X()`, `except X`
        if isinstance(n, ast.Call) and not n.args and not n.keywords:
            n = n.func
        d = dotted(n)
        if d in EXN:
            return EXN[d]
        if d is not None:
            parts = d.split('.')
            if parts[-1] in self.custom and parts[:-1] in ([self.cls.name], ['self'], ['type(self)'], []):
                return 'XCustomStop'
        fail(n, 'exception not recognised')

    def cexpr(self, n) -> str:
        if isinstance(n, ast.Await):
            v = n.value
            if isinstance(v, ast.Call) and dotted(v.func) == 'asyncio.to_thread' and len(v.args) == 1 and not v.keywords:
                d = dotted(v.args[0])
                if d and d.startswith('self.') and d.count('.') == 1:
                    return f'(CAwaitToThread {q(d[5:])})'
            if isinstance(v, ast.Call) and not v.args and not v.keywords:
                d = dotted(v.func)
                if d and d.startswith('self.') and d.count('.') == 1:
                    return f'(CAwaitCall {q(d[5:])})'
            fail(n, 'await not supported')
        if isinstance(n, ast.Call) and not n.keywords:
            if is_name(n.func, 'next') and len(n.args) == 1 and dotted(n.args[0]) == 'self._it':
                return 'CNextIt'
            d = dotted(n.func)
            if not n.args and d and d.startswith('self.') and d.count('.') == 1:
                return f'(CCall {q(d[5:])})'
        fail(n, 'expression not supported in a to_aiter method')

    def cbody(self, stmts, where) -> str:
        real = [s for s in strip_doc(stmts) if not is_cosmetic(s)]
        if len(real) != 1:
            raise Unsupported(f'{SRC}: {where}: expected exactly one tracked statement, found {len(real)}')
        st = real[0]
        if isinstance(st, ast.Return):
            if st.value is None:
                fail(st, 'return without a value')
            return f'(CReturn {self.cexpr(st.value)})'
        if isinstance(st, ast.Raise):
            if st.exc is None or st.cause is not None:
                fail(st, 'raise form not supported')
            return f'(CRaise {self.exn(st.exc)})'
        if isinstance(st, ast.Try):
            if st.orelse or st.finalbody or len(st.handlers) != 1:
                fail(st, 'try shape not supported')
            h = st.handlers[0]
            if h.type is None or h.name is not None:
                fail(st, 'handler form not supported')
            return f'(CTry {self.cbody(st.body, where)} {self.exn(h.type)} {self.cbody(h.body, where)})'
        fail(st, 'statement not supported in a to_aiter method')

    def init(self):
        """__init__: `self._it = iter(<first parameter>)` and ONE `self.X = self.A if <flag> else self.B`"""
        fn = self.methods.get('__init__')
        if fn is None or isinstance(fn, ast.AsyncFunctionDef):
            fail(self.cls, '__init__ missing')
        a = fn.args
        params = [x.arg for x in a.posonlyargs + a.args]
        if len(params) != 2 or params[0] != 'self' or a.vararg or a.kwarg:
            fail(fn, '__init__ parameters')
        flags = {x.arg: d for x, d in zip(a.kwonlyargs, a.kw_defaults)}
        it_ok = False
        sel = None
        if fn.decorator_list:
            fail(fn, 'decorated __init__')
        COSMETIC_SEEN.clear()
        for st in strip_doc(fn.body):
            if is_cosmetic(st):
                continue
            if isinstance(st, ast.Assign) and len(st.targets) == 1 and dotted(st.targets[0]) == 'self._it':
                v = st.value
                if isinstance(v, ast.Call) and is_name(v.func, 'iter') and len(v.args) == 1 and is_name(v.args[0], params[1]) and not v.keywords:
                    if it_ok:
                        fail(st, 'self._it assigned twice')
                    it_ok = True
                    continue
                fail(st, 'self._it must be iter(<the iterable>)')
            if isinstance(st, ast.Assign) and len(st.targets) == 1:
                d = dotted(st.targets[0])
                v = st.value
                if d and d.startswith('self.') and isinstance(v, ast.IfExp) and is_name(v.test) and v.test.id in flags:
                    ta, tb = dotted(v.body), dotted(v.orelse)
                    if ta and tb and ta.startswith('self.') and tb.startswith('self.') and sel is None:
                        dflt = flags[v.test.id]
                        if not (isinstance(dflt, ast.Constant) and isinstance(dflt.value, bool)):
                            fail(fn, 'the flag must be a keyword-only bool with a default')
                        sel = (d[5:], v.test.id, ta[5:], tb[5:], dflt.value)
                        continue
            fail(st, '__init__ statement not recognised')
        if not it_ok or sel is None:
            fail(fn, '__init__ must set self._it and the method selector')
        check_cosmetic_names({'self'} | set(params) | set(flags))
        return sel

    def translate(self):
        sel = self.init()
        # methods reachable from __anext__ (through the selector attribute as well)
        todo, seen, out = ['__anext__'], [], []
        while todo:
            m = todo.pop(0)
            if m in seen:
                continue
            seen.append(m)
            if m == sel[0]:
                todo += [sel[2], sel[3]]
                continue
            fn = self.methods.get(m)
            if fn is None:
                raise Unsupported(f'{SRC}: to_aiter.{m} not found')
            if fn.decorator_list:
                fail(fn, 'decorated method')
            if [x.arg for x in fn.args.args] != ['self'] or fn.args.vararg or fn.args.kwarg or fn.args.kwonlyargs:
                fail(fn, 'method parameters')
            COSMETIC_SEEN.clear()
            term = self.cbody(fn.body, f'to_aiter.{m}')
            check_cosmetic_names({'self'})
            out.append((m, isinstance(fn, ast.AsyncFunctionDef), term))
            for sub in ast.walk(fn):
                if isinstance(sub, ast.Attribute) and isinstance(sub.value, ast.Name) and sub.value.id == 'self' \
                        and sub.attr != '_it' and sub.attr not in seen and sub.attr not in todo:
                    todo.append(sub.attr)
        # the other methods: __aiter__ must be the inherited one or `return self`; only __repr__/__str__ besides;
        # nobody else may touch the iterator or the selector
        self.aiter_inherited = '__aiter__' not in self.methods
        for name, fn in self.methods.items():
            if name in seen or name == '__init__':
                continue
            if fn.decorator_list:
                fail(fn, 'decorated method')
            if name == '__aiter__':
                body = [st for st in strip_doc(fn.body) if not isinstance(st, ast.Pass)]
                if isinstance(fn, ast.AsyncFunctionDef) or [x.arg for x in fn.args.args] != ['self'] or len(body) != 1 \
                        or not (isinstance(body[0], ast.Return) and is_name(body[0].value, 'self')):
                    fail(fn, '__aiter__ must be `def __aiter__(self): return self`')
                continue
            if name not in ('__repr__', '__str__'):
                fail(fn, f'method {name} of to_aiter is not translated')
            for sub in ast.walk(fn):
                if isinstance(sub, (ast.Await, ast.Yield, ast.YieldFrom)) or isinstance(fn, ast.AsyncFunctionDef):
                    fail(fn, f'{name} must be a plain function')
            for sub in ast.walk(fn):
                if isinstance(sub, ast.Attribute) and isinstance(sub.value, ast.Name) and sub.value.id == 'self' \
                        and sub.attr in ('_it', sel[0]):
                    fail(fn, f'method {name} outside the translated ones touches self.{sub.attr}')
        return sel, out


def to_aiter(tree):
    cs = [n for n in tree.body if isinstance(n, ast.ClassDef) and n.name == 'to_aiter']
    if len(cs) != 1:
        raise Unsupported(f'{SRC}: expected exactly one class to_aiter')
    c = Cls(cs[0])
    sel, meths = c.translate()
    return sel, meths, c.aiter_inherited


# --------------------------------------------------------------------------- output

def strs(xs) -> str:
    return '[' + '; '.join(q(x) for x in xs) + ']'


def translate(repo: Path) -> str:
    p = Path(repo) / SRC
    if not p.exists():
        raise Unsupported(f'{p} not found')
    tree = ast.parse(p.read_text())
    check_module(tree)
    merge, merge_vars = generator(tree, 'merge_aiters', merge_args)
    agen, agen_vars = generator(tree, 'agen_with_wait', agen_args)
    sel, meths, aiter_inherited = to_aiter(tree)
    ait = aiterable(tree)
    b = lambda x: 'true' if x else 'false'
    L = [
        '(** GENERATED by translate/aio_funs.py from ' + SRC,
        f'    (ast, CPython {sys.version_info[0]}.{sys.version_info[1]}) -- do not edit.',
        '    The bodies of merge_aiters / agen_with_wait / to_aiter in the syntax of Aio/Syntax.v. *)',
        'From NL Require Import Aio.Syntax.',
        'Local Open Scope string_scope.',
        '',
        '(** merge_aiters: its varargs name first, then the locals in order of first occurrence *)',
        f'Definition merge_aiters_vars : list string := {strs(merge_vars)}.',
        'Definition merge_aiters_body : stmt :=',
        ' ' + merge + '.',
        '',
        '(** async def agen_with_wait(agen) *)',
        f'Definition agen_with_wait_vars : list string := {strs(agen_vars)}.',
        'Definition agen_with_wait_body : stmt :=',
        ' ' + agen + '.',
        '',
        '(** class to_aiter: __init__ sets self._it = iter(iterable) and the selector below;',
        '    the methods reachable from __anext__ *)',
        f'Definition to_aiter_selector : selector := mkSel {q(sel[0])} {q(sel[1])} {q(sel[2])} {q(sel[3])}.',
        f'Definition to_aiter_flag_default : bool := {b(sel[4])}.',
        'Definition to_aiter_methods : list meth := [',
        ';\n'.join(f'  mkMeth {q(m)} {b(a)}\n   {t}' for m, a, t in meths),
        '].',
        '(** `async for` works: the only base is AsyncIterator[T] and __aiter__ is the inherited one (true) or',
        '    `return self` (false) *)',
        f'Definition to_aiter_aiter_inherited : bool := {b(aiter_inherited)}.',
        '',
        '(** def aiterable(iterable): return to_aiter(iterable, thread=...) -- the argument is passed unchanged;',
        '    the value of `thread` (None: the default of to_aiter) *)',
        f'Definition aiterable_thread : option bool := {"None" if ait is None else "Some " + b(ait)}.',
        '',
    ]
    return '\n'.join(L)


if __name__ == '__main__':
    print(translate(Path(sys.argv[1] if len(sys.argv) > 1 else '/repo')))
