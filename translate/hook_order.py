"""Fail-closed translator: main-process plugin registration order, which registrar implements
which hook, the topics each registrar publishes/ends, and the OnEvent dispatch table
-> coq/theories/Gen/HookOrder.v   (checked against the model in Registrars/Order.v).

Anything that is not of the expected syntactic shape raises (the check then reports a
broken tie obligation)."""
from __future__ import annotations

import ast
from pathlib import Path

OUTPUT = 'HookOrder.v'


class Unsupported(Exception):
    pass


def _register_order(src: str) -> list[str]:
    tree = ast.parse(src)
    fn = [n for n in tree.body if isinstance(n, ast.FunctionDef) and n.name == 'register']
    if len(fn) != 1:
        raise Unsupported('plugins/__init__.py: expected exactly one def register')
    order = []
    for st in fn[0].body:
        ok = (isinstance(st, ast.Expr) and isinstance(st.value, ast.Call) and isinstance(st.value.func, ast.Attribute)
              and st.value.func.attr == 'register' and isinstance(st.value.func.value, ast.Name) and st.value.func.value.id == 'hook'
              and len(st.value.args) == 1 and isinstance(st.value.args[0], ast.Name) and not st.value.keywords)
        if not ok:
            raise Unsupported(f'plugins/__init__.py:{st.lineno}: statement other than hook.register(<Name>)')
        order.append(st.value.args[0].id)
    if len(set(order)) != len(order):
        raise Unsupported('a plugin is registered twice')
    return order


def _is_hookimpl(dec) -> bool:
    return (isinstance(dec, ast.Name) and dec.id == 'hookimpl') or \
        (isinstance(dec, ast.Call) and isinstance(dec.func, ast.Name) and dec.func.id == 'hookimpl')


def _key_of(node, env: dict, where: str) -> str:
    if isinstance(node, ast.Constant) and isinstance(node.value, str):
        return node.value
    if isinstance(node, ast.JoinedStr):
        out = ''
        for v in node.values:
            if isinstance(v, ast.Constant):
                out += v.value
            elif isinstance(v, ast.FormattedValue):
                out += '*'
            else:
                raise Unsupported(f'{where}: f-string part')
        return out
    if isinstance(node, ast.Name) and node.id in env:
        return env[node.id]
    raise Unsupported(f'{where}: topic expression not a literal / local literal')


def _class_info(path: Path) -> dict:
    """class name -> (hooks implemented in definition order, topics published or ended)"""
    tree = ast.parse(path.read_text())
    out = {}
    for cls in tree.body:
        if not isinstance(cls, ast.ClassDef):
            continue
        hooks, topics = [], []
        # elements added to a set attribute: self.<attr>.add(<key>) -> what self.<attr>.pop() can return
        added: dict = {}
        for fn in cls.body:
            if not isinstance(fn, (ast.FunctionDef, ast.AsyncFunctionDef)):
                continue
            env0: dict = {}
            for node in ast.walk(fn):
                if isinstance(node, ast.Assign) and len(node.targets) == 1 and isinstance(node.targets[0], ast.Name):
                    try:
                        env0[node.targets[0].id] = _key_of(node.value, {}, '')
                    except Unsupported:
                        pass
            for node in ast.walk(fn):
                if isinstance(node, ast.Call) and isinstance(node.func, ast.Attribute) and node.func.attr == 'add' \
                        and isinstance(node.func.value, ast.Attribute) and isinstance(node.func.value.value, ast.Name) \
                        and node.func.value.value.id == 'self' and len(node.args) == 1:
                    added.setdefault(node.func.value.attr, set()).add(_key_of(node.args[0], env0, f'{path.name}:{node.lineno}'))
        for fn in cls.body:
            if not isinstance(fn, (ast.FunctionDef, ast.AsyncFunctionDef)):
                continue
            impl = any(_is_hookimpl(d) for d in fn.decorator_list)
            if impl:
                hooks.append(fn.name)
            env: dict = {}
            for node in ast.walk(fn):
                if isinstance(node, ast.Assign) and len(node.targets) == 1 and isinstance(node.targets[0], ast.Name):
                    v = node.value
                    if isinstance(v, ast.Call) and isinstance(v.func, ast.Attribute) and v.func.attr == 'pop' and not v.args \
                            and isinstance(v.func.value, ast.Attribute) and isinstance(v.func.value.value, ast.Name) \
                            and v.func.value.value.id == 'self' and v.func.value.attr in added:
                        ks = added[v.func.value.attr]
                        if len(ks) != 1:
                            raise Unsupported(f'{path.name}:{node.lineno}: set with several kinds of keys')
                        env[node.targets[0].id] = next(iter(ks))
                        continue
                    try:
                        env[node.targets[0].id] = _key_of(node.value, {}, '')
                    except Unsupported:
                        pass
            for node in ast.walk(fn):
                if isinstance(node, ast.Call) and isinstance(node.func, ast.Attribute) and node.func.attr in ('publish', 'end') \
                        and isinstance(node.func.value, ast.Attribute) and node.func.value.attr == 'pubsub':
                    if not node.args:
                        raise Unsupported(f'{path.name}:{node.lineno}: pubsub.{node.func.attr} without a key')
                    k = _key_of(node.args[0], env, f'{path.name}:{node.lineno}')
                    if not impl:
                        raise Unsupported(f'{path.name}:{node.lineno}: pubsub used outside a hook implementation')
                    if k not in topics:
                        topics.append(k)
        out[cls.name] = (hooks, topics)
    return out


def _dispatch(path: Path) -> list[tuple[str, str]]:
    tree = ast.parse(path.read_text())
    cls = [n for n in tree.body if isinstance(n, ast.ClassDef) and n.name == 'OnEvent']
    if len(cls) != 1:
        raise Unsupported('monitor.py: class OnEvent')
    fns = [n for n in cls[0].body if isinstance(n, ast.AsyncFunctionDef) and n.name == 'on_event_in_process']
    if len(fns) != 1:
        raise Unsupported('monitor.py: on_event_in_process')
    m = [n for n in fns[0].body if isinstance(n, ast.Match)]
    if len(m) != 1:
        raise Unsupported('monitor.py: expected one match statement')
    table = []
    for case in m[0].cases:
        pat = case.pattern
        if isinstance(pat, ast.MatchAs) and pat.pattern is None:
            continue        # default: log a warning
        if not (isinstance(pat, ast.MatchClass) and isinstance(pat.cls, ast.Attribute) and not pat.patterns and not pat.kwd_patterns and case.guard is None):
            raise Unsupported(f'monitor.py:{pat.lineno}: case pattern')
        body = list(case.body)
        # the open-prompt bookkeeping of the command filter (C07; pinned there): exactly these two statements,
        # each before the dispatch of its own event, and nothing else
        BOOK = {'OnStartPrompt': 'context.open_prompts.add((event.trace_no, event.prompt_no))',
                'OnEndPrompt': 'context.open_prompts.discard((event.trace_no, event.prompt_no))'}
        if len(body) == 2 and BOOK.get(pat.cls.attr) == ast.unparse(body[0]):
            body = body[1:]
        if len(body) != 1:
            raise Unsupported(f'monitor.py:{pat.lineno}: case body')
        st = body[0]
        ok = (isinstance(st, ast.Expr) and isinstance(st.value, ast.Await) and isinstance(st.value.value, ast.Call)
              and isinstance(st.value.value.func, ast.Attribute) and isinstance(st.value.value.func.value, ast.Name)
              and st.value.value.func.value.id == 'ahook'
              and {k.arg for k in st.value.value.keywords} == {'context', 'event'} and not st.value.value.args)
        if not ok:
            raise Unsupported(f'monitor.py:{st.lineno}: case body is not `await ahook.<hook>(context=context, event=event)`')
        table.append((pat.cls.attr, st.value.value.func.attr))
    return table


def _s(x: str) -> str:
    assert '"' not in x
    return f'"{x}"'


def _l(xs) -> str:
    return '[' + '; '.join(xs) + ']'


def translate(repo: Path) -> str:
    base = repo / 'nextline' / 'plugin' / 'plugins'
    order = _register_order((base / '__init__.py').read_text())
    info: dict = {}
    for p in sorted((base / 'registrars').glob('*.py')):
        if p.name == '__init__.py':
            continue
        for k, v in _class_info(p).items():
            if k in info:
                raise Unsupported(f'class {k} defined twice')
            info[k] = v
    for p in sorted((base / 'session').glob('*.py')):
        if p.name == '__init__.py':
            continue
        for k, v in _class_info(p).items():
            info[k] = v
    for k, v in _class_info(base / 'argument.py').items():
        info[k] = v
    missing = [c for c in order if c not in info]
    if missing:
        raise Unsupported(f'registered classes not found: {missing}')
    disp = _dispatch(base / 'session' / 'monitor.py')
    lines = ['(** GENERATED by translate/hook_order.py from nextline/plugin/plugins/__init__.py,',
             '    registrars/*.py, session/*.py, argument.py -- do not edit. *)',
             'From Coq Require Import String List.', 'Import ListNotations.', 'Open Scope string_scope.', '',
             '(** order of hook.register(...) calls *)',
             f'Definition plugin_order : list string :=\n  {_l(_s(c) for c in order)}.', '',
             '(** class -> hook implementations (methods decorated with hookimpl) *)',
             'Definition hook_impls : list (string * list string) :=\n  ' +
             _l(f'({_s(c)}, {_l(_s(h) for h in info[c][0])})' for c in order).replace('); (', ');\n   (') + '.', '',
             '(** class -> topics given to context.pubsub.publish / end ("*" = formatted field) *)',
             'Definition topics_of : list (string * list string) :=\n  ' +
             _l(f'({_s(c)}, {_l(_s(t) for t in info[c][1])})' for c in order).replace('); (', ');\n   (') + '.', '',
             '(** OnEvent.on_event_in_process: event class -> hook *)',
             'Definition on_event_dispatch : list (string * string) :=\n  ' +
             _l(f'({_s(a)}, {_s(b)})' for a, b in disp).replace('); (', ');\n   (') + '.', '']
    return '\n'.join(lines)


if __name__ == '__main__':
    print(translate(Path('/repo')))
