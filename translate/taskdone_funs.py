"""Fail-closed translator (C18, asyncio-task half):
   nextline/utils/done_callback/task.py   (TaskDoneCallback: every method)
   nextline/utils/done_callback/union.py  (ThreadTaskDoneCallback: every method)
   nextline/utils/thread_exception.py     (ExcThread.run / join)
   nextline/utils/aio.py                  (current_task_or_thread only)
-> coq/theories/Gen/TaskDoneFuns.v   (syntax: DoneCb/TaskSyntax.v; semantics: DoneCb/TaskInterp.v;
   obligations against the hand-written model DoneCb/Task.v: DoneCb/TaskTie.v)

GENUINE TRANSLATION.  Every method becomes a statement AST: assignments to locals and to the
tracked attributes, `if / while / try-except [as x] / try-finally / raise / return`, set `.add/.remove/.discard`
and list `.append` on a tracked attribute, `x in / not in`, `is / is not`, `not / and / or`,
`seq[<int>]`, `isinstance(x, Task)`, `asyncio.current_task()`, `threading.current_thread()`,
`t.add_done_callback(f)`, `time.sleep(..)` (the suspension point of close), calls
`[x =] [await] f(a, k=b)` of a method of the same class, of a method of a sub-object
(`self._task_callback.close(..)`), of `self._done`, of `super().m`, of
`nextline.utils.current_task_or_thread`, and `await to_thread(f, args..)`.
The tracked attributes are found by WHAT __init__ assigns (the parameter `done`, an empty set,
an empty list, a ThreadDoneCallback(..), a TaskDoneCallback(..)), not by their names; imported
names are resolved through the module's import statements.  An `await` in front of a call must
agree with the `async def` of the callee.

NOT TRACKED (dropped): docstrings, annotations, `pass`, `del <names>` (the names become
poisoned: a later use raises), the message of RuntimeError(..), the numeric value of defaults
and of the argument of sleep, `*_`/`**__` parameters that the body does not use.

Everything else raises Unsupported (= a broken tie obligation of ./check C18)."""
from __future__ import annotations

import ast
from pathlib import Path

OUTPUT = 'TaskDoneFuns.v'

EXC_CLASSES = {'BaseException': 'CBaseException', 'RuntimeError': 'CRuntimeError', 'KeyError': 'CKeyError'}


class Unsupported(Exception):
    pass


def _s(x: str) -> str:
    return '"' + x.replace('"', '""') + '"'


def _l(xs) -> str:
    return '[' + '; '.join(xs) + ']'


def _opt(x) -> str:
    return 'None' if x is None else f'(Some {x})'


# ------------------------------------------------------------------ module level

class _Module:
    def __init__(self, path: Path, package: str):
        self.path = path
        self.name = path.name
        self.tree = ast.parse(path.read_text())
        self.imports: dict[str, str] = {}
        for n in self.tree.body:
            if isinstance(n, ast.Import):
                for a in n.names:
                    self.imports[a.asname or a.name.split('.')[0]] = a.name if a.asname else a.name.split('.')[0]
            elif isinstance(n, ast.ImportFrom):
                mod = n.module or ''
                if n.level:
                    parts = package.split('.')
                    base = '.'.join(parts[:len(parts) - (n.level - 1)])
                    mod = f'{base}.{mod}' if mod else base
                for a in n.names:
                    self.imports[a.asname or a.name] = f'{mod}.{a.name}'

    def qual(self, n) -> str | None:
        """dotted name an expression denotes through the imports, or None"""
        if isinstance(n, ast.Name):
            return self.imports.get(n.id)
        if isinstance(n, ast.Attribute):
            q = self.qual(n.value)
            return None if q is None else f'{q}.{n.attr}'
        return None

    def classdef(self, name: str) -> ast.ClassDef:
        cs = [n for n in self.tree.body if isinstance(n, ast.ClassDef) and n.name == name]
        if len(cs) != 1:
            raise Unsupported(f'{self.name}: class {name} not found (or defined twice)')
        return cs[0]

    def funcdef(self, name: str):
        fs = [n for n in self.tree.body if isinstance(n, (ast.FunctionDef, ast.AsyncFunctionDef)) and n.name == name]
        if len(fs) != 1:
            raise Unsupported(f'{self.name}: function {name} not found (or defined twice)')
        return fs[0]


CANON = {
    'asyncio.current_task': 'current_task', 'asyncio.tasks.current_task': 'current_task',
    'threading.current_thread': 'current_thread',
    'asyncio.Task': 'Task', 'asyncio.tasks.Task': 'Task',
    'asyncio.to_thread': 'to_thread', 'asyncio.threads.to_thread': 'to_thread',
    'time.sleep': 'sleep',
    'nextline.utils.current_task_or_thread': 'current_task_or_thread',
    'nextline.utils.aio.current_task_or_thread': 'current_task_or_thread',
    'nextline.utils.done_callback.task.TaskDoneCallback': 'TaskDoneCallback',
    'nextline.utils.done_callback.thread.ThreadDoneCallback': 'ThreadDoneCallback',
    'nextline.utils.done_callback.TaskDoneCallback': 'TaskDoneCallback',
    'nextline.utils.done_callback.ThreadDoneCallback': 'ThreadDoneCallback',
    'threading.Thread': 'Thread',
}


def _methods_of(cls: ast.ClassDef, where: str) -> dict:
    ms = {}
    for b in cls.body:
        if isinstance(b, ast.Expr) and isinstance(b.value, ast.Constant) and isinstance(b.value.value, str):
            continue
        if isinstance(b, ast.Pass):
            continue
        if isinstance(b, (ast.FunctionDef, ast.AsyncFunctionDef)):
            if b.decorator_list:
                raise Unsupported(f'{where}:{b.lineno}: decorated method {b.name}')
            if b.name in ms:
                raise Unsupported(f'{where}:{b.lineno}: method {b.name} defined twice')
            ms[b.name] = b
            continue
        raise Unsupported(f'{where}:{b.lineno}: class-level statement: {ast.unparse(b)[:80]}')
    return ms


def _is_self_attr(n) -> bool:
    return isinstance(n, ast.Attribute) and isinstance(n.value, ast.Name) and n.value.id == 'self'


def _is_docstring(st) -> bool:
    return isinstance(st, ast.Expr) and isinstance(st.value, ast.Constant) and isinstance(st.value.value, str)


def _params(fn, where: str, skip_self=True):
    """-> [(name, default ast | None)]; *_ / **__ are accepted when the body does not use them"""
    a = fn.args
    if a.kwonlyargs or a.posonlyargs:
        raise Unsupported(f'{where}: keyword-only / positional-only parameters')
    used = {n.id for b in fn.body for n in ast.walk(b) if isinstance(n, ast.Name)}
    for extra in (a.vararg, a.kwarg):
        if extra is not None and extra.arg in used:
            raise Unsupported(f'{where}: the body uses *{extra.arg}')
    names = [x.arg for x in a.args]
    if skip_self:
        if not names or names[0] != 'self':
            raise Unsupported(f'{where}: first parameter is not self')
        names = names[1:]
    defaults = [None] * (len(names) - len(a.defaults)) + list(a.defaults)
    if len(defaults) != len(names):
        raise Unsupported(f'{where}: defaults')
    return list(zip(names, defaults))


# ------------------------------------------------------------------ one method

class _Fn:
    def __init__(self, mod: _Module, where: str, fields: dict, own: dict, subs: dict, params, in_init=False,
                 has_super=False):
        self.mod = mod
        self.where = where
        self.fields = fields            # attribute name -> field constructor
        self.own = own                  # method name -> is_async  (methods of this class)
        self.subs = subs                # field constructor -> {method name -> is_async}
        self.params = set(params)
        self.locals: set[str] = set()
        self.poisoned: set[str] = set()
        self.in_init = in_init
        self.has_super = has_super
        for p in self.params:
            if p in mod.imports:
                raise Unsupported(f'{where}: parameter {p} shadows an imported name')

    def fail(self, n, what):
        raise Unsupported(f'{self.where}:{getattr(n, "lineno", "?")}: {what}: {ast.unparse(n)[:90]}')

    def canon(self, n):
        q = self.mod.qual(n)
        return CANON.get(q) if q else None

    # ---- callees: (coq text, is_async) or None
    def callee(self, f):
        if _is_self_attr(f):
            if f.attr in self.own:
                return f'EMeth ESelf {_s(f.attr)}', self.own[f.attr]
            if self.fields.get(f.attr) == 'FDone':
                return 'EAttr ESelf FDone', False
            return None
        if isinstance(f, ast.Attribute) and _is_self_attr(f.value):
            fld = self.fields.get(f.value.attr)
            if fld in self.subs:
                if f.attr not in self.subs[fld]:
                    self.fail(f, f'the class of self.{f.value.attr} has no method {f.attr}')
                return f'EMeth (EAttr ESelf {fld}) {_s(f.attr)}', self.subs[fld][f.attr]
            return None
        if isinstance(f, ast.Attribute) and isinstance(f.value, ast.Call) and isinstance(f.value.func, ast.Name) \
                and f.value.func.id == 'super' and not f.value.args and not f.value.keywords:
            if not self.has_super:
                self.fail(f, 'super() in a class without a translated base')
            return f'ESuper {_s(f.attr)}', False
        if self.canon(f) == 'current_task_or_thread':
            return f'EFun {_s("current_task_or_thread")}', False
        return None

    def args(self, call, skip=0) -> str:
        out = []
        for a in call.args[skip:]:
            if isinstance(a, ast.Starred):
                self.fail(call, '* argument')
            out.append(f'(None, {self.ex(a)})')
        for k in call.keywords:
            if k.arg is None:
                self.fail(call, '** argument')
            out.append(f'(Some {_s(k.arg)}, {self.ex(k.value)})')
        return _l(out)

    def user_call(self, v):
        """v: Call or Await(Call) of a user-level callee -> (mode, callee text, args text) or None"""
        awaited = isinstance(v, ast.Await)
        c = v.value if awaited else v
        if not isinstance(c, ast.Call):
            return None
        if self.canon(c.func) == 'to_thread':
            if not awaited:
                self.fail(v, 'to_thread(..) that is not awaited')
            if not c.args or c.keywords:
                self.fail(v, 'to_thread arguments')
            tgt = self.callee(c.args[0])
            if tgt is None:
                self.fail(v, 'target of to_thread')
            if tgt[1]:
                self.fail(v, 'to_thread of an async method')
            return 'CallToThread', tgt[0], self.args(c, skip=1)
        tgt = self.callee(c.func)
        if tgt is None:
            return None
        if tgt[1] != awaited:
            self.fail(v, 'await / async def mismatch')
        return ('CallAwait' if awaited else 'CallPlain'), tgt[0], self.args(c)

    # ---- expressions
    def ex(self, n) -> str:
        if isinstance(n, ast.Constant):
            v = n.value
            if v is None:
                return 'ENone'
            if isinstance(v, (int, float)) and not isinstance(v, bool):
                return 'EOpaque'
            self.fail(n, 'constant')
        if isinstance(n, ast.Name):
            if n.id == 'self':
                return 'ESelf'
            if n.id in self.poisoned:
                self.fail(n, 'use of a deleted name')
            if n.id in self.params or n.id in self.locals:
                return f'EVar {_s(n.id)}'
            self.fail(n, 'name that is neither a parameter nor a local')
        if isinstance(n, ast.Attribute):
            if _is_self_attr(n) and n.attr in self.fields:
                return f'EAttr ESelf {self.fields[n.attr]}'
            c = self.callee(n)
            if c is not None:
                return c[0]
            self.fail(n, 'attribute')
        if isinstance(n, ast.Call):
            c = self.canon(n.func)
            if c == 'current_task' and not n.args and not n.keywords:
                return 'ECurrentTask'
            if c == 'current_thread' and not n.args and not n.keywords:
                return 'ECurrentThread'
            if isinstance(n.func, ast.Name) and n.func.id == 'isinstance' and len(n.args) == 2 and not n.keywords \
                    and n.func.id not in self.mod.imports:
                if self.canon(n.args[1]) == 'Task':
                    return f'EIsTask ({self.ex(n.args[0])})'
                self.fail(n, 'isinstance of another class')
            if isinstance(n.func, ast.Name) and n.func.id == 'RuntimeError' and n.func.id not in self.mod.imports \
                    and not n.keywords and all(isinstance(a, (ast.Constant, ast.JoinedStr)) for a in n.args):
                return 'ENewRuntimeError'
            if self.in_init:
                f = n.func
                base = f.value if isinstance(f, ast.Subscript) else f
                if isinstance(base, ast.Name) and base.id in ('set', 'list') and base.id not in self.mod.imports \
                        and not n.args and not n.keywords:
                    return 'ENewSet' if base.id == 'set' else 'ENewList'
                cls = self.canon(f)
                if cls in ('TaskDoneCallback', 'ThreadDoneCallback'):
                    return self.new(n, cls)
            self.fail(n, 'call in an expression')
        if self.in_init and isinstance(n, ast.List) and not n.elts:
            return 'ENewList'
        if isinstance(n, ast.Compare) and len(n.ops) == 1:
            tab = {ast.Is: 'EIs', ast.IsNot: 'EIsNot', ast.In: 'EIn', ast.NotIn: 'ENotIn'}
            if type(n.ops[0]) in tab:
                return f'{tab[type(n.ops[0])]} ({self.ex(n.left)}) ({self.ex(n.comparators[0])})'
            self.fail(n, 'comparison')
        if isinstance(n, ast.UnaryOp) and isinstance(n.op, ast.Not):
            return f'ENot ({self.ex(n.operand)})'
        if isinstance(n, ast.BoolOp):
            c = 'EAnd' if isinstance(n.op, ast.And) else 'EOr'
            vs = [self.ex(v) for v in n.values]
            t = vs[-1]
            for v in reversed(vs[:-1]):
                t = f'{c} ({v}) ({t})'
            return t
        if isinstance(n, ast.Subscript) and isinstance(n.ctx, ast.Load):
            i = n.slice
            if isinstance(i, ast.UnaryOp) and isinstance(i.op, ast.USub) and isinstance(i.operand, ast.Constant) \
                    and isinstance(i.operand.value, int) and not isinstance(i.operand.value, bool):
                return f'EIndex ({self.ex(n.value)}) ({-i.operand.value})%Z'
            if isinstance(i, ast.Constant) and isinstance(i.value, int) and not isinstance(i.value, bool):
                return f'EIndex ({self.ex(n.value)}) {i.value}%Z'
            self.fail(n, 'subscript that is not a literal index')
        self.fail(n, 'expression')

    CTOR_PARAMS: dict = {}

    def new(self, n, cls) -> str:
        names = self.CTOR_PARAMS[cls]
        kw = []
        if len(n.args) > len(names):
            self.fail(n, 'too many constructor arguments')
        for p, a in zip(names, n.args):
            if isinstance(a, ast.Starred):
                self.fail(n, '* argument')
            kw.append((p, self.ex(a)))
        for k in n.keywords:
            if k.arg is None or k.arg not in names or k.arg in dict(kw):
                self.fail(n, 'constructor keyword')
            kw.append((k.arg, self.ex(k.value)))
        kw.sort(key=lambda pv: names.index(pv[0]))
        return f'ENew {_s(cls)} {_l(f"({_s(p)}, {v})" for p, v in kw)}'

    # ---- statements
    def block(self, body, ind) -> str:
        out = []
        for st in body:
            out += self.st(st, ind + 2)
        if not out:
            return 'SSkip'
        if len(out) == 1:
            return out[0]
        pad = ' ' * (ind + 2)
        return 'seq [\n' + ';\n'.join(pad + x for x in out) + ']'

    def bind(self, x, n):
        if x in self.params:
            pass            # re-binding a parameter (`task = current_task()`) is an ordinary assignment
        if x == 'self' or x in self.mod.imports:
            self.fail(n, 'assignment to self / to an imported name')
        self.locals.add(x)
        self.poisoned.discard(x)

    def st(self, st, ind) -> list[str]:
        pad = ' ' * (ind + 2)
        if isinstance(st, ast.Pass) or _is_docstring(st):
            return []
        if isinstance(st, ast.Delete):
            for t in st.targets:
                ts = t.elts if isinstance(t, ast.Tuple) else [t]
                for x in ts:
                    if not isinstance(x, ast.Name) or x.id == 'self':
                        self.fail(st, 'del of something that is not a local name')
                    self.poisoned.add(x.id)
            return []
        if isinstance(st, (ast.Assign, ast.AnnAssign)):
            if isinstance(st, ast.Assign):
                if len(st.targets) != 1:
                    self.fail(st, 'chained assignment')
                target, value = st.targets[0], st.value
            else:
                if st.value is None:
                    return []
                target, value = st.target, st.value
            if isinstance(target, ast.Name):
                uc = self.user_call(value)
                if uc is not None:
                    self.bind(target.id, st)
                    return [f'SCall (Some {_s(target.id)}) {uc[0]} ({uc[1]}) {uc[2]}']
                e = self.ex(value)
                self.bind(target.id, st)
                return [f'SAssign {_s(target.id)} ({e})']
            if _is_self_attr(target):
                if target.attr not in self.fields:
                    self.fail(st, 'assignment to an attribute that is not tracked')
                return [f'SSetAttr {self.fields[target.attr]} ({self.ex(value)})']
            self.fail(st, 'assignment target')
        if isinstance(st, ast.If):
            c = self.ex(st.test)
            a = self.block(st.body, ind)
            b = self.block(st.orelse, ind)
            return [f'SIf ({c})\n{pad}({a})\n{pad}({b})']
        if isinstance(st, ast.While):
            if st.orelse:
                self.fail(st, 'while-else')
            return [f'SWhile ({self.ex(st.test)})\n{pad}({self.block(st.body, ind)})']
        if isinstance(st, ast.Raise):
            if st.exc is None or st.cause is not None:
                self.fail(st, 'bare raise / raise from')
            return [f'SRaise ({self.ex(st.exc)})']
        if isinstance(st, ast.Return):
            if st.value is None:
                return ['SReturn ENone']
            uc = self.user_call(st.value)
            if uc is not None:
                return [f'SCall (Some {_s("$ret")}) {uc[0]} ({uc[1]}) {uc[2]}', f'SReturn (EVar {_s("$ret")})']
            return [f'SReturn ({self.ex(st.value)})']
        if isinstance(st, ast.Try):
            if st.orelse or len(st.handlers) > 1 or not (st.handlers or st.finalbody):
                self.fail(st, 'try with else / several handlers')
            body = self.block(st.body, ind)
            if st.handlers:
                h = st.handlers[0]
                if not (isinstance(h.type, ast.Name) and h.type.id in EXC_CLASSES and h.type.id not in self.mod.imports):
                    self.fail(st, 'except clause')
                if h.name is not None:
                    self.bind(h.name, st)
                hb = self.block(h.body, ind)
                if h.name is not None:
                    self.poisoned.add(h.name)        # Python unbinds the name at the end of the handler
                body = f'STry ({body}) {EXC_CLASSES[h.type.id]} {_opt(_s(h.name)) if h.name else "None"}\n{pad}({hb})'
            if st.finalbody:
                # try/except/finally = (try/except) inside try/finally
                body = f'SFinally ({body})\n{pad}({self.block(st.finalbody, ind)})'
            return [body]
        if isinstance(st, ast.Expr):
            v = st.value
            uc = self.user_call(v)
            if uc is not None:
                return [f'SCall None {uc[0]} ({uc[1]}) {uc[2]}']
            if isinstance(v, ast.Call) and not v.keywords:
                f = v.func
                if self.canon(f) == 'sleep' and len(v.args) == 1:
                    self.ex(v.args[0])          # must be a translatable expression; its value is untracked
                    return ['SSleep']
                if isinstance(f, ast.Attribute) and f.attr == 'add_done_callback' and len(v.args) == 1:
                    return [f'SAddDoneCallback ({self.ex(f.value)}) ({self.ex(v.args[0])})']
                if isinstance(f, ast.Attribute) and _is_self_attr(f.value) and len(v.args) == 1:
                    fld = self.fields.get(f.value.attr)
                    tab = {('FActive', 'add'): 'SSetAdd', ('FActive', 'remove'): 'SSetRemove',
                           ('FActive', 'discard'): 'SSetDiscard', ('FExceptions', 'append'): 'SAppend'}
                    if (fld, f.attr) in tab:
                        return [f'{tab[(fld, f.attr)]} {fld} ({self.ex(v.args[0])})']
            self.fail(st, 'expression statement')
        self.fail(st, 'statement')


# ------------------------------------------------------------------ classes

def _init_fields(mod: _Module, cls: ast.ClassDef, methods: dict, kinds, where: str):
    """-> (fields: attr name -> constructor, init text).  kinds(fn, value) -> constructor | None"""
    if '__init__' not in methods:
        raise Unsupported(f'{where}: no __init__')
    init = methods['__init__']
    if isinstance(init, ast.AsyncFunctionDef):
        raise Unsupported(f'{where}: async __init__')
    params = _params(init, f'{where}.__init__')
    fn = _Fn(mod, f'{where}.__init__', {}, {}, {}, [p for p, _ in params], in_init=True)
    fields, rows = {}, []
    for st in init.body:
        if _is_docstring(st) or isinstance(st, ast.Pass):
            continue
        if isinstance(st, ast.Assign) and len(st.targets) == 1:
            t, v = st.targets[0], st.value
        elif isinstance(st, ast.AnnAssign) and st.value is not None:
            t, v = st.target, st.value
        else:
            raise Unsupported(f'{where}.__init__:{st.lineno}: statement: {ast.unparse(st)[:80]}')
        if not _is_self_attr(t):
            raise Unsupported(f'{where}.__init__:{st.lineno}: statement: {ast.unparse(st)[:80]}')
        e = fn.ex(v)
        k = kinds(e)
        if k is None:
            raise Unsupported(f'{where}.__init__:{st.lineno}: initial value of self.{t.attr}: {ast.unparse(v)[:80]}')
        if k in fields.values() or t.attr in fields:
            raise Unsupported(f'{where}.__init__:{st.lineno}: a second attribute of the same kind: self.{t.attr}')
        fields[t.attr] = k
        rows.append(f'({k}, {e})')
    defaults = []
    for p, d in params:
        defaults.append(f'({_s(p)}, {_opt("(" + fn.ex(d) + ")") if d is not None else "None"})')
    return fields, _l(rows), _l(defaults)


def _class_methods(mod, cls, methods, fields, subs, where, has_super=False) -> list[str]:
    own = {m: isinstance(f, ast.AsyncFunctionDef) for m, f in methods.items() if m != '__init__'}
    rows = []
    for name, f in methods.items():
        if name == '__init__':
            continue
        params = _params(f, f'{where}.{name}')
        fn = _Fn(mod, f'{where}.{name}', fields, own, subs, [p for p, _ in params], has_super=has_super)
        ps = []
        for p, d in params:
            ps.append(f'({_s(p)}, {_opt("(" + fn.ex(d) + ")") if d is not None else "None"})')
        body = fn.block(f.body, 4)
        is_async = 'true' if own[name] else 'false'
        rows.append(f'({_s(name)}, mkMeth {_l(ps)} {is_async}\n    ({body}))')
    return rows


def translate(repo: Path) -> str:
    utils = repo / 'nextline' / 'utils'
    task_m = _Module(utils / 'done_callback' / 'task.py', 'nextline.utils.done_callback')
    union_m = _Module(utils / 'done_callback' / 'union.py', 'nextline.utils.done_callback')
    thread_m = _Module(utils / 'done_callback' / 'thread.py', 'nextline.utils.done_callback')
    exc_m = _Module(utils / 'thread_exception.py', 'nextline.utils')
    aio_m = _Module(utils / 'aio.py', 'nextline.utils')

    # nextline.utils must re-export the function union.py imports
    init_m = _Module(utils / '__init__.py', 'nextline.utils')
    if init_m.imports.get('current_task_or_thread') != 'nextline.utils.aio.current_task_or_thread':
        raise Unsupported('nextline/utils/__init__.py: current_task_or_thread is not the function of aio.py')

    # ---- TaskDoneCallback
    tcls = task_m.classdef('TaskDoneCallback')
    tmeth = _methods_of(tcls, 'task.py:TaskDoneCallback')
    thr_cls = thread_m.classdef('ThreadDoneCallback')
    thr_meth = _methods_of(thr_cls, 'thread.py:ThreadDoneCallback')
    _Fn.CTOR_PARAMS = {
        'TaskDoneCallback': [p for p, _ in _params(tmeth['__init__'], 'task.py:TaskDoneCallback.__init__')],
        'ThreadDoneCallback': [p for p, _ in _params(thr_meth['__init__'], 'thread.py:ThreadDoneCallback.__init__')],
    }

    def task_kinds(e):
        return {'ENewSet': 'FActive', 'ENewList': 'FExceptions'}.get(e) or ('FDone' if e.startswith('EVar ') else None)
    tfields, tinit, tinit_params = _init_fields(task_m, tcls, tmeth, task_kinds, 'task.py:TaskDoneCallback')
    if sorted(tfields.values()) != ['FActive', 'FDone', 'FExceptions']:
        raise Unsupported(f'task.py:TaskDoneCallback.__init__: tracked attributes {tfields}')
    trows = _class_methods(task_m, tcls, tmeth, tfields, {}, 'task.py:TaskDoneCallback')
    # the method handed to add_done_callback
    cbs = {n.args[0].attr for f in tmeth.values() for n in ast.walk(f)
           if isinstance(n, ast.Call) and isinstance(n.func, ast.Attribute) and n.func.attr == 'add_done_callback'
           and len(n.args) == 1 and _is_self_attr(n.args[0])}
    if len(cbs) != 1:
        raise Unsupported(f'task.py:TaskDoneCallback: methods handed to add_done_callback: {sorted(cbs)}')
    cb_name = cbs.pop()

    # ---- ThreadTaskDoneCallback
    ucls = union_m.classdef('ThreadTaskDoneCallback')
    umeth = _methods_of(ucls, 'union.py:ThreadTaskDoneCallback')

    def union_kinds(e):
        return 'FTaskCb' if e.startswith('ENew "TaskDoneCallback"') else \
            'FThreadCb' if e.startswith('ENew "ThreadDoneCallback"') else None
    ufields, uinit, uinit_params = _init_fields(union_m, ucls, umeth, union_kinds, 'union.py:ThreadTaskDoneCallback')
    if sorted(ufields.values()) != ['FTaskCb', 'FThreadCb']:
        raise Unsupported(f'union.py:ThreadTaskDoneCallback.__init__: tracked attributes {ufields}')
    subs = {
        'FTaskCb': {m: isinstance(f, ast.AsyncFunctionDef) for m, f in tmeth.items()},
        'FThreadCb': {m: isinstance(f, ast.AsyncFunctionDef) for m, f in thr_meth.items()},
    }
    urows = _class_methods(union_m, ucls, umeth, ufields, subs, 'union.py:ThreadTaskDoneCallback')

    # ---- ExcThread
    ecls = exc_m.classdef('ExcThread')
    if len(ecls.bases) != 1 or CANON.get(exc_m.qual(ecls.bases[0]) or '') != 'Thread':
        raise Unsupported('thread_exception.py:ExcThread: base class is not threading.Thread')
    emeth = _methods_of(ecls, 'thread_exception.py:ExcThread')
    eattrs = {n.attr for f in emeth.values() for n in ast.walk(f) if _is_self_attr(n) and n.attr not in emeth}
    if len(eattrs) != 1:
        raise Unsupported(f'thread_exception.py:ExcThread: attributes {sorted(eattrs)}')
    efields = {eattrs.pop(): 'FExc'}
    if '__init__' in emeth:
        raise Unsupported('thread_exception.py:ExcThread: __init__')
    erows = _class_methods(exc_m, ecls, emeth, efields, {}, 'thread_exception.py:ExcThread', has_super=True)
    # ThreadDoneCallback runs its monitor in an ExcThread and close() joins it
    made = [n for n in ast.walk(thr_meth['__init__']) if isinstance(n, ast.Call)
            and thread_m.qual(n.func) == 'nextline.utils.thread_exception.ExcThread']
    if len(made) != 1:
        raise Unsupported('thread.py:ThreadDoneCallback.__init__: the monitor thread is not (one) '
                          'nextline.utils.thread_exception.ExcThread')

    # ---- current_task_or_thread
    af = aio_m.funcdef('current_task_or_thread')
    if isinstance(af, ast.AsyncFunctionDef) or af.decorator_list:
        raise Unsupported('aio.py:current_task_or_thread: async / decorated')
    aparams = _params(af, 'aio.py:current_task_or_thread', skip_self=False)
    if aparams:
        raise Unsupported('aio.py:current_task_or_thread: parameters')
    afn = _Fn(aio_m, 'aio.py:current_task_or_thread', {}, {}, {}, [])
    abody = afn.block(af.body, 4)

    out = [
        '(** GENERATED by translate/taskdone_funs.py from nextline/utils/done_callback/task.py, union.py,',
        '    nextline/utils/thread_exception.py and nextline/utils/aio.py (ast, CPython 3.12) -- do not edit.',
        '    Statement-by-statement translation into the syntax of DoneCb/TaskSyntax.v;',
        '    DoneCb/TaskInterp.v interprets it, DoneCb/TaskTie.v ties it to DoneCb/Task.v. *)',
        'From NL Require Import DoneCb.TaskSyntax.',
        'Local Open Scope string_scope.',
        '',
        '(** TaskDoneCallback.__init__: parameters, and the tracked attributes with their initial values *)',
        f'Definition task_init_params : list (string * option expr) := {tinit_params}.',
        f'Definition task_init : list (field * expr) :=\n  {tinit}.',
        '',
        '(** the method TaskDoneCallback hands to Task.add_done_callback *)',
        f'Definition task_done_callback_name : string := {_s(cb_name)}.',
        '',
        '(** TaskDoneCallback: every method *)',
        'Definition task_methods : list (string * meth) :=\n  [' + ';\n   '.join(trows) + '].',
        '',
        '(** ThreadTaskDoneCallback.__init__ *)',
        f'Definition union_init_params : list (string * option expr) := {uinit_params}.',
        f'Definition union_init : list (field * expr) :=\n  {uinit}.',
        '',
        '(** ThreadTaskDoneCallback: every method *)',
        'Definition union_methods : list (string * meth) :=\n  [' + ';\n   '.join(urows) + '].',
        '',
        '(** ExcThread(threading.Thread): every method *)',
        'Definition excthread_methods : list (string * meth) :=\n  [' + ';\n   '.join(erows) + '].',
        '',
        '(** nextline.utils.aio.current_task_or_thread *)',
        'Definition aio_methods : list (string * meth) :=\n  [(' + _s('current_task_or_thread') + ', mkMeth [] false\n    (' + abody + '))].',
        '',
    ]
    return '\n'.join(out)


if __name__ == '__main__':
    import sys
    print(translate(Path(sys.argv[1] if len(sys.argv) > 1 else '/repo')))
