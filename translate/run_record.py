"""Fail-closed translator for the RECORD of a run (C02) -> Gen/RunRecord.v

GENUINE TRANSLATION with `ast` (expressions and statements are parsed by shape, no pinned source
strings) into terms of coq/theories/Life/RecordSyntax.v; coq/theories/Life/RecordTie.v interprets
them.  The control flow of Callback._run/_finish and RunSession.run is NOT repeated here: it is
Gen/CallbackSkeleton.v (translate/callback_skeleton.py); this file adds the DATA.

  nextline/plugin/plugins/registrars/run_info.py   RunInfoRegistrar: __init__ and every @hookimpl method
  nextline/plugin/plugins/session/session.py       RunSession.run: the data statements of each atomic segment (those
                                                   that mention context.run_arg / running_process / exited_process), keyed
                                                   by the control point of the segment; _on_start_run, _on_end_run;
                                                   Result.format_exception / Result.result
  nextline/utils/run.py                            RunningProcess.__await__, _log_exited, _format_time (EVERY statement
                                                   other than the logger calls: anything there can raise inside
                                                   `await context.running_process`; `d.get(k)` and `d[k]` are different
                                                   terms); ExitedProcess; the module-level dict _exitcode_to_name
  nextline/spawned/types.py                        RunResult (fields, __post_init__, _fmt_ret, _fmt_exc, result), RunArg
  nextline/types.py                                RunInfo
  nextline/events.py                               OnStartRun, OnEndRun
  nextline/imp.py, nextline/main.py                result(), format_exception()
  nextline/plugin/spec.py                          format_exception / result are firstresult hooks
  nextline/plugin/plugins/**                       no other built-in plugin implements these two hooks or on_*_run with
                                                   a publication on 'run_info'
  nextline/fsm/callback.py                         every method of Callback (events, tasks, hooks, triggers by NAME)

IGNORED POSITIONS (shared rule of harness/HARDEN_TASK.md): docstrings, `pass`, bare annotations, `logger = getLogger(..)`
and `logger.<level>(..)` / `self._logger.<level>(..)` whose arguments contain no call, walrus, await or yield.  NOTHING else
is ignored inside a translated function: asserts are translated (they raise), so are the time stamps
(`datetime.now(timezone.utc)`, `.replace(tzinfo=None)`, `.tzinfo is timezone.utc`, `_assert_aware_datetime`,
`is_timezone_aware` -- the latter pinned to its one-line body).  In RunSession.run the statements that mention none of
context.run_arg / running_process / exited_process must be one of the six statements UNTRACKED_SESSION (a pin of their text;
the same statements are pinned by translate/callback_skeleton.py).
Fail closed also on: class bases / class decorators / method decorators other than the expected ones, class-level statements
other than annotations, docstrings and defs, special methods that are not translated, default argument values, module-level
statements that rebind or monkeypatch anything (only imports, defs, docstrings, `if TYPE_CHECKING:` imports and assignments
of call-free values / TypeVar / NewType / the tracked dict to fresh names), imports of the names the translation relies on
from other places than expected, local rebinding of those names, sibling methods that store to a tracked attribute, and any
store to context.run_arg / running_process / exited_process anywhere in nextline/ outside Callback and RunSession.run.

Everything else raises RecordError (= a broken tie obligation of ./check C02).
"""
from __future__ import annotations

import ast
import sys
from pathlib import Path

OUTPUT = 'RunRecord.v'
SRC_RUN_INFO = 'nextline/plugin/plugins/registrars/run_info.py'
SRC_SESSION = 'nextline/plugin/plugins/session/session.py'
SRC_RUN = 'nextline/utils/run.py'
SRC_SPAWNED_TYPES = 'nextline/spawned/types.py'
SRC_TYPES = 'nextline/types.py'
SRC_EVENTS = 'nextline/events.py'
SRC_IMP = 'nextline/imp.py'
SRC_MAIN = 'nextline/main.py'
SRC_SPEC = 'nextline/plugin/spec.py'
SRC_CALLBACK = 'nextline/fsm/callback.py'
PLUGINS_DIR = 'nextline/plugin/plugins'

SRC_UTC = 'nextline/utils/utc.py'
SRC_UTILS = 'nextline/utils/__init__.py'
SRC_SPAWNED = 'nextline/spawned/__init__.py'
TRACKED_CTX = {'run_arg', 'running_process', 'exited_process'}
API = ('format_exception', 'result')

CONTROL = (ast.Await, ast.Yield, ast.YieldFrom, ast.Return, ast.Raise, ast.Break, ast.Continue, ast.FunctionDef,
           ast.AsyncFunctionDef, ast.ClassDef, ast.Lambda, ast.Global, ast.Nonlocal, ast.While, ast.For, ast.AsyncFor,
           ast.With, ast.AsyncWith, ast.Try, ast.Match, ast.Delete, ast.Import, ast.ImportFrom)


class RecordError(Exception):
    pass


# ------------------------------------------------------------------ helpers

def norm(node) -> str:
    return ast.unparse(node).strip()


def at(fn: str, node) -> str:
    return f'{fn}:{getattr(node, "lineno", "?")}'


def cs(x: str) -> str:
    return '"' + x.replace('"', '""') + '"'


def cl(xs) -> str:
    return '[' + '; '.join(xs) + ']'


def copt(x) -> str:
    return 'None' if x is None else f'(Some {x})'


def strip_doc(body):
    if body and isinstance(body[0], ast.Expr) and isinstance(body[0].value, ast.Constant) and isinstance(body[0].value.value, str):
        return body[1:]
    return body


def has_control(node) -> bool:
    return any(isinstance(n, CONTROL) for n in ast.walk(node))


def idents(node) -> set[str]:
    out = set()
    for n in ast.walk(node):
        if isinstance(n, ast.Name):
            out.add(n.id)
        elif isinstance(n, ast.Attribute):
            out.add(n.attr)
    return out


EFFECTFUL = (ast.Call, ast.NamedExpr, ast.Await, ast.Yield, ast.YieldFrom, ast.Lambda, ast.ListComp, ast.SetComp,
             ast.DictComp, ast.GeneratorExp)


def pure(node) -> bool:
    """no call, walrus, await, yield (an attribute read of a live object is taken not to raise)"""
    return not any(isinstance(n, EFFECTFUL) for n in ast.walk(node))


def is_logging(st) -> bool:
    """`logger.<level>(args)` / `self._logger.<level>(args)` / `logger = getLogger(args)` with call-free args"""
    if isinstance(st, ast.Expr) and isinstance(st.value, ast.Call):
        c = st.value
        f = c.func
        ok = isinstance(f, ast.Attribute) and f.attr in ('debug', 'info', 'warning', 'error', 'exception', 'critical') and (
            (isinstance(f.value, ast.Name) and f.value.id == 'logger')
            or (isinstance(f.value, ast.Attribute) and f.value.attr == '_logger' and isinstance(f.value.value, ast.Name)
                and f.value.value.id == 'self'))
        return ok and all(pure(a) for a in c.args) and all(pure(k.value) for k in c.keywords)
    if isinstance(st, ast.Assign) and len(st.targets) == 1 and isinstance(st.targets[0], ast.Name) and st.targets[0].id == 'logger':
        c = st.value
        return (isinstance(c, ast.Call) and isinstance(c.func, ast.Name) and c.func.id == 'getLogger'
                and all(pure(a) for a in c.args) and not c.keywords)
    return False


SPECIAL_REFUSED = {'__aenter__', '__aexit__', '__enter__', '__exit__', '__bool__', '__len__', '__eq__', '__ne__', '__hash__',
                   '__getattr__', '__getattribute__', '__setattr__', '__delattr__', '__new__', '__del__', '__init_subclass__',
                   '__class_getitem__', '__get__', '__set__', '__call__', '__iter__', '__aiter__', '__contains__', '__getitem__'}


def check_class(cls: ast.ClassDef, bases: list[str], decorators: list[list[str]], special_ok=(), allow_init=True):
    """bases and decorators as expected; the body holds only annotations, docstrings, `pass` and defs; no special method
    changes what attribute access, truth value, equality or `with` mean"""
    if [norm(b) for b in cls.bases] != bases or cls.keywords:
        raise RecordError(f'class {cls.name}: bases {[norm(b) for b in cls.bases]}, expected {bases}')
    if [norm(d) for d in cls.decorator_list] not in decorators:
        raise RecordError(f'class {cls.name}: decorators {[norm(d) for d in cls.decorator_list]}')
    seen = set()
    for b in cls.body:
        if isinstance(b, (ast.FunctionDef, ast.AsyncFunctionDef)):
            if b.name in seen:
                raise RecordError(f'class {cls.name}: `{b.name}` defined twice')
            seen.add(b.name)
            if b.name in SPECIAL_REFUSED and b.name not in special_ok:
                raise RecordError(f'class {cls.name} defines {b.name}')
            if b.name == '__init__' and not allow_init:
                raise RecordError(f'class {cls.name} defines __init__')
        elif isinstance(b, ast.AnnAssign) and isinstance(b.target, ast.Name):
            continue
        elif isinstance(b, ast.Pass) or (isinstance(b, ast.Expr) and isinstance(b.value, ast.Constant) and isinstance(b.value.value, str)):
            continue
        else:
            raise RecordError(f'class {cls.name}:{b.lineno}: class-level statement `{norm(b).splitlines()[0]}`')


def imports_of(tree: ast.Module) -> dict:
    """top-level `import a` / `from m import a [as b]` -> {bound name: (module, original name)}"""
    out = {}
    for st in tree.body:
        if isinstance(st, ast.Import):
            for a in st.names:
                out[a.asname or a.name.split('.')[0]] = ('', a.name)
        elif isinstance(st, ast.ImportFrom):
            for a in st.names:
                out[a.asname or a.name] = ('.' * st.level + (st.module or ''), a.name)
    return out


def check_module(tree: ast.Module, rel: str, expect: dict, own_dicts=()):
    """only imports, defs, docstrings, `if TYPE_CHECKING:` imports and assignments of harmless values to FRESH names;
    the names the translation relies on are imported from where it expects"""
    defs = [n.name for n in tree.body if isinstance(n, (ast.ClassDef, ast.FunctionDef, ast.AsyncFunctionDef))]
    for d in defs:
        if defs.count(d) > 1:
            raise RecordError(f'{rel}: `{d}` defined twice')
    imps = imports_of(tree)
    for name, origin in expect.items():
        if imps.get(name) != origin:
            raise RecordError(f'{rel}: `{name}` is {imps.get(name)}, expected an import {origin}')
    bound = set(defs)
    for st in tree.body:
        w = f'{rel}:{st.lineno}'
        if isinstance(st, (ast.Import, ast.ImportFrom)):
            for a in st.names:
                nm = a.asname or a.name.split('.')[0]
                if nm in defs:
                    raise RecordError(f'{w}: import rebinds `{nm}`')
            continue
        if isinstance(st, (ast.ClassDef, ast.FunctionDef, ast.AsyncFunctionDef)):
            continue
        if isinstance(st, ast.Expr) and isinstance(st.value, ast.Constant) and isinstance(st.value.value, str):
            continue
        if isinstance(st, ast.If) and norm(st.test) == 'TYPE_CHECKING' and not st.orelse \
                and all(isinstance(x, (ast.Import, ast.ImportFrom)) for x in st.body):
            for x in st.body:
                for a in x.names:
                    if (a.asname or a.name.split('.')[0]) in defs or (a.asname or a.name) in expect:
                        raise RecordError(f'{w}: TYPE_CHECKING import rebinds a tracked name')
            continue
        if isinstance(st, (ast.Assign, ast.AnnAssign)):
            targets = st.targets if isinstance(st, ast.Assign) else [st.target]
            for t in targets:
                if not isinstance(t, ast.Name):
                    raise RecordError(f'{w}: module-level store to `{norm(t)}`')
                if t.id in defs or t.id in expect or t.id in bound and t.id not in ('__all__',):
                    raise RecordError(f'{w}: module-level rebinding of `{t.id}`')
                bound.add(t.id)
            v = st.value
            if v is None:
                continue
            if isinstance(v, ast.Call) and isinstance(v.func, ast.Name) and v.func.id in ('TypeVar', 'NewType') and all(pure(a) for a in v.args):
                continue
            if isinstance(st, ast.Assign) and len(targets) == 1 and targets[0].id in own_dicts:
                continue
            if not pure(v):
                raise RecordError(f'{w}: module-level assignment with a call: `{norm(st).splitlines()[0]}`')
            continue
        raise RecordError(f'{w}: module-level statement `{norm(st).splitlines()[0]}`')


def local_bindings(fn) -> set[str]:
    out = {a.arg for a in fn.args.args + fn.args.kwonlyargs + fn.args.posonlyargs}
    for n in ast.walk(fn):
        if isinstance(n, ast.Name) and isinstance(n.ctx, (ast.Store, ast.Del)):
            out.add(n.id)
        elif isinstance(n, (ast.Global, ast.Nonlocal)):
            out |= set(n.names)
        elif isinstance(n, (ast.FunctionDef, ast.AsyncFunctionDef, ast.ClassDef)) and n is not fn:
            out.add(n.name)
        elif isinstance(n, (ast.Import, ast.ImportFrom)):
            out |= {a.asname or a.name.split('.')[0] for a in n.names}
    return out


def check_decorators(fn, expected: list[str], w):
    if [norm(d) for d in fn.decorator_list] != expected:
        raise RecordError(f'{w}.{fn.name}: decorators {[norm(d) for d in fn.decorator_list]}, expected {expected}')


def find(body, kind, name, what=''):
    xs = [n for n in body if isinstance(n, kind) and n.name == name]
    if len(xs) != 1:
        raise RecordError(f'{what}: expected exactly one {kind.__name__} `{name}`, found {len(xs)}')
    return xs[0]


def parse(repo: Path, rel: str) -> ast.Module:
    p = repo / rel
    if not p.exists():
        raise RecordError(f'{rel} not found')
    return ast.parse(p.read_text())


def is_hookimpl(fn) -> bool:
    return any(norm(d).split('(')[0] == 'hookimpl' for d in fn.decorator_list)


def is_plain_hookimpl(fn) -> bool:
    return [norm(d) for d in fn.decorator_list] == ['hookimpl']


def attr_path(node) -> list[str] | None:
    """`a.b.c` -> ['a', 'b', 'c'] (rooted at a Name)"""
    out = []
    while isinstance(node, ast.Attribute):
        out.append(node.attr)
        node = node.value
    if isinstance(node, ast.Name):
        out.append(node.id)
        return list(reversed(out))
    return None


# ------------------------------------------------------------------ the expression / statement translator

class Tr:
    """Translation environment: names of the dataclasses, of the methods of the translated classes and of the
    module-level dicts / coroutine functions that may be referred to."""

    def __init__(self, classes: set[str], methods: set[str], dicts: set[str], funcs: set[str], plain_funcs: set[str]):
        self.classes = classes
        self.methods = methods
        self.dicts = dicts
        self.funcs = funcs              # awaited coroutine functions
        self.plain_funcs = plain_funcs  # plain functions

    def reserved(self) -> set[str]:
        return (self.classes | self.dicts | self.funcs | self.plain_funcs
                | {'json', 'dataclasses', 'traceback', 'datetime', 'timezone', 'isinstance', 'type', 'str', 'repr', 'events',
                   'spawned', 'types', 'partial', 'run_in_process', 'is_timezone_aware', 'getLogger', 'asyncio', 'ValueError'})

    def check_locals(self, fn, w):
        bad = local_bindings(fn) & self.reserved()
        if bad:
            raise RecordError(f'{w}: rebinds {sorted(bad)} locally')

    # ---- expressions
    def kw(self, keywords, w) -> str:
        out = []
        for k in keywords:
            if k.arg is None:
                raise RecordError(f'{w}: **kwargs')
            out.append(f'({cs(k.arg)}, {self.exp(k.value, w)})')
        return cl(out)

    def exp(self, e, w) -> str:
        if isinstance(e, ast.Constant):
            if e.value is None:
                return 'ENone'
            if e.value is True:
                return 'ETrue'
            if e.value is False:
                return 'EFalse'
            if isinstance(e.value, str):
                return f'(EStr {cs(e.value)})'
            raise RecordError(f'{w}: constant {e.value!r}')
        if isinstance(e, ast.Name):
            if e.id in self.dicts:
                raise RecordError(f'{w}: the dict `{e.id}` used other than by .get(k) / [k]')
            return f'(EName {cs(e.id)})'
        if isinstance(e, ast.Attribute):
            return f'(EAttr {self.exp(e.value, w)} {cs(e.attr)})'
        if isinstance(e, ast.BoolOp):
            op = 'EOr' if isinstance(e.op, ast.Or) else 'EAnd'
            xs = [self.exp(v, w) for v in e.values]
            acc = xs[-1]
            for x in reversed(xs[:-1]):
                acc = f'({op} {x} {acc})'
            return acc
        if isinstance(e, ast.UnaryOp) and isinstance(e.op, ast.Not):
            return f'(ENot {self.exp(e.operand, w)})'
        if isinstance(e, ast.Compare) and len(e.ops) == 1 and isinstance(e.ops[0], ast.Is) \
                and norm(e.comparators[0]) == 'timezone.utc' and isinstance(e.left, ast.Attribute) and e.left.attr == 'tzinfo':
            return f'(EIsUtc {self.exp(e.left.value, w)})'
        if isinstance(e, ast.Compare) and len(e.ops) == 1 and isinstance(e.comparators[0], ast.Constant) \
                and e.comparators[0].value is None and isinstance(e.ops[0], (ast.Is, ast.IsNot)):
            return f'({"EIsNone" if isinstance(e.ops[0], ast.Is) else "EIsNotNone"} {self.exp(e.left, w)})'
        if isinstance(e, ast.NamedExpr):
            return f'(EWalrus {cs(e.target.id)} {self.exp(e.value, w)})'
        if isinstance(e, ast.JoinedStr):
            parts = []
            for v in e.values:
                if isinstance(v, ast.FormattedValue):
                    if v.format_spec is not None:
                        raise RecordError(f'{w}: format spec in an f-string')
                    parts.append(self.exp(v.value, w))
                elif not (isinstance(v, ast.Constant) and isinstance(v.value, str)):
                    raise RecordError(f'{w}: f-string part {norm(v)}')
            return f'(EFmt {cl(parts)})'
        if isinstance(e, ast.Subscript):
            if isinstance(e.value, ast.Name) and e.value.id in self.dicts:
                return f'(EDictIndex {cs(e.value.id)} {self.exp(e.slice, w)})'
            raise RecordError(f'{w}: subscript `{norm(e)}`')
        if isinstance(e, ast.Await):
            v = e.value
            if norm(v) == 'context.running_process':
                return f'(EAwaitHandle {self.exp(v, w)})'
            if isinstance(v, ast.Call) and isinstance(v.func, ast.Name) and v.func.id == 'run_in_process':
                kws = {k.arg: k.value for k in v.keywords}
                if v.args or 'func' not in kws or norm(kws['func']) != 'partial(spawned.main, context.run_arg)':
                    raise RecordError(f'{w}: run_in_process must be called with func=partial(spawned.main, context.run_arg)')
                return 'ESpawn'
            raise RecordError(f'{w}: await `{norm(v)}` in an expression')
        if isinstance(e, ast.YieldFrom):
            v = e.value
            if isinstance(v, ast.Call) and not v.args and not v.keywords and isinstance(v.func, ast.Attribute) \
                    and v.func.attr == '__await__':
                return f'(EYieldFromTask {self.exp(v.func.value, w)})'
            raise RecordError(f'{w}: `{norm(e)}`')
        if isinstance(e, ast.Call):
            return self.call(e, w)
        raise RecordError(f'{w}: expression `{norm(e)}` not recognised')

    def call(self, e: ast.Call, w) -> str:
        f = e.func
        fname = norm(f)
        last = f.attr if isinstance(f, ast.Attribute) else (f.id if isinstance(f, ast.Name) else None)
        # dataclass / plain class constructors:  RunInfo(...), events.OnEndRun(...), RunResult()
        if last in self.classes and (isinstance(f, ast.Name) or (isinstance(f, ast.Attribute) and isinstance(f.value, ast.Name)
                                                                  and f.value.id in ('events', 'spawned', 'types'))):
            if e.args:
                raise RecordError(f'{w}: positional arguments to {last}(...)')
            return f'(ENew {cs(last)} {self.kw(e.keywords, w)})'
        if fname == 'dataclasses.replace':
            if len(e.args) != 1:
                raise RecordError(f'{w}: dataclasses.replace shape')
            return f'(EReplace {self.exp(e.args[0], w)} {self.kw(e.keywords, w)})'
        if fname == 'isinstance':
            if len(e.args) == 2 and norm(e.args[1]) == 'str':
                return f'(EIsStr {self.exp(e.args[0], w)})'
            raise RecordError(f'{w}: isinstance other than (x, str)')
        if fname == 'json.dumps':
            if len(e.args) != 1 or e.keywords:
                raise RecordError(f'{w}: json.dumps shape')
            return f'(EJsonDumps {self.exp(e.args[0], w)})'
        if fname == "''.join":
            if len(e.args) == 1 and isinstance(e.args[0], ast.Call) and norm(e.args[0].func) == 'traceback.format_exception':
                a = e.args[0].args
                if len(a) == 3 and isinstance(a[1], ast.Name) and norm(a[0]) == f'type({a[1].id})' \
                        and norm(a[2]) == f'{a[1].id}.__traceback__':
                    return f'(EFormatTb {self.exp(a[1], w)})'
            raise RecordError(f'{w}: `{norm(e)}`')
        if fname == 'datetime.now':
            if [norm(a) for a in e.args] == ['timezone.utc'] and not e.keywords:
                return 'ENowUtc'
            raise RecordError(f'{w}: datetime.now shape')
        if isinstance(f, ast.Attribute) and f.attr == 'replace' and not e.args \
                and [(k.arg, norm(k.value)) for k in e.keywords] == [('tzinfo', 'None')]:
            return f'(ENaive {self.exp(f.value, w)})'
        if fname == 'is_timezone_aware':
            if len(e.args) != 1 or e.keywords:
                raise RecordError(f'{w}: is_timezone_aware shape')
            return f'(EIsAware {self.exp(e.args[0], w)})'
        if isinstance(f, ast.Name) and f.id in self.plain_funcs:
            if e.keywords:
                raise RecordError(f'{w}: keyword arguments to {f.id}')
            return f'(ECallFn {cs(f.id)} {cl([self.exp(a, w) for a in e.args])})'
        if isinstance(f, ast.Attribute) and f.attr == 'strftime':
            if len(e.args) == 1 and isinstance(e.args[0], ast.Constant) and isinstance(e.args[0].value, str):
                return f'(ETotal {cs("strftime")} [{self.exp(f.value, w)}])'
            raise RecordError(f'{w}: strftime with a computed format')
        if isinstance(f, ast.Attribute) and f.attr == 'get' and isinstance(f.value, ast.Name) and f.value.id in self.dicts:
            if len(e.args) != 1 or e.keywords:
                raise RecordError(f'{w}: dict.get with a default')
            return f'(EDictGet {cs(f.value.id)} {self.exp(e.args[0], w)})'
        # result() / format_exception() plumbing
        if isinstance(f, ast.Attribute) and norm(f.value) == 'self._imp' and not e.args and not e.keywords:
            return f'(EImp {cs(f.attr)})'
        if isinstance(f, ast.Attribute) and norm(f.value) == 'self._hook.hook':
            if e.args or [(k.arg, norm(k.value)) for k in e.keywords] != [('context', 'self._context')]:
                raise RecordError(f'{w}: hook call shape `{norm(e)}`')
            return f'(EHookFirst {cs(f.attr)})'
        # methods of translated classes
        if isinstance(f, ast.Attribute) and f.attr in self.methods:
            if e.keywords:
                raise RecordError(f'{w}: keyword arguments to the method {f.attr}')
            return f'(EMethod {self.exp(f.value, w)} {cs(f.attr)} {cl([self.exp(a, w) for a in e.args])})'
        raise RecordError(f'{w}: call `{norm(e)}` not recognised')

    # ---- statements
    def target(self, t, w) -> str:
        p = attr_path(t)
        if p is None:
            raise RecordError(f'{w}: assignment target `{norm(t)}`')
        return cl(cs(x) for x in p)

    def stmt(self, st, w0) -> str | None:
        w = at(w0, st)
        if isinstance(st, ast.Pass) or is_logging(st):
            return None
        if isinstance(st, ast.Expr) and isinstance(st.value, ast.Constant) and isinstance(st.value.value, str):
            return None
        if isinstance(st, ast.Raise):
            c = st.exc
            if st.cause is None and isinstance(c, ast.Call) and isinstance(c.func, ast.Name) and c.func.id == 'ValueError' \
                    and all(pure(a) for a in c.args) and not c.keywords:
                return 'SRaise'
            raise RecordError(f'{w}: `{norm(st)}`')
        if isinstance(st, ast.Assign):
            if len(st.targets) != 1:
                raise RecordError(f'{w}: chained assignment')
            t = st.targets[0]
            if isinstance(t, ast.Name) and t.id == 'logger':
                raise RecordError(f'{w}: `logger` bound to something other than getLogger(<call-free>)')
            if isinstance(t, ast.Tuple):
                if not all(isinstance(x, ast.Name) for x in t.elts):
                    raise RecordError(f'{w}: unpacking target')
                return f'(SUnpack {cl(cs(x.id) for x in t.elts)} {self.exp(st.value, w)})'
            return f'(SAssign {self.target(t, w)} {self.exp(st.value, w)})'
        if isinstance(st, ast.AnnAssign):
            if st.value is None:
                return None
            return f'(SAssign {self.target(st.target, w)} {self.exp(st.value, w)})'
        if isinstance(st, ast.Assert):
            return f'(SAssert {self.exp(st.test, w)})'
        if isinstance(st, ast.If):
            return f'(SIf {self.exp(st.test, w)} {self.body(st.body, w0)} {self.body(st.orelse, w0)})'
        if isinstance(st, ast.Return):
            return f'(SReturn {self.exp(st.value, w) if st.value is not None else "ENone"})'
        if isinstance(st, ast.Expr) and isinstance(st.value, ast.Await) and isinstance(st.value.value, ast.Call):
            c = st.value.value
            fn = norm(c.func)
            if fn == 'context.pubsub.publish':
                if len(c.args) != 2 or c.keywords or not (isinstance(c.args[0], ast.Constant) and isinstance(c.args[0].value, str)):
                    raise RecordError(f'{w}: publish shape')
                return f'(SPublish {cs(c.args[0].value)} {self.exp(c.args[1], w)})'
            if fn.startswith('context.hook.ahook.') and isinstance(c.func, ast.Attribute):
                if c.args:
                    raise RecordError(f'{w}: positional arguments to a hook')
                return f'(SAwaitHook {cs(c.func.attr)} {self.kw(c.keywords, w)})'
            if isinstance(c.func, ast.Name) and c.func.id in self.funcs:
                if c.keywords:
                    raise RecordError(f'{w}: keyword arguments to {c.func.id}')
                return f'(SCall {cs(c.func.id)} {cl([self.exp(a, w) for a in c.args])})'
            raise RecordError(f'{w}: await `{fn}(...)` not recognised')
        if isinstance(st, ast.Expr) and isinstance(st.value, ast.Call):
            return f'(SExpr {self.exp(st.value, w)})'
        raise RecordError(f'{w}: statement `{norm(st).splitlines()[0]}` not recognised')

    def body(self, body, w0) -> str:
        return cl([x for x in (self.stmt(s, w0) for s in body) if x is not None])


# ------------------------------------------------------------------ classes

def dataclass_def(tr: Tr, cls: ast.ClassDef, w) -> tuple[str, list]:
    """-> (Coq classdef, its methods [(name, args, body ast)])"""
    frozen = any('frozen=True' in norm(d).replace(' ', '') for d in cls.decorator_list)
    fields, initvars, noinit, methods = [], [], [], []
    for b in strip_doc(cls.body):
        if isinstance(b, ast.AnnAssign) and isinstance(b.target, ast.Name):
            name = b.target.id
            ann = norm(b.annotation)
            if ann.startswith('InitVar['):
                initvars.append(f'({cs(name)}, {copt(tr.exp(b.value, w) if b.value is not None else None)})')
            elif isinstance(b.value, ast.Call) and norm(b.value.func) == 'field':
                kws = {k.arg: k.value for k in b.value.keywords}
                if b.value.args or norm(kws.get('init', ast.Constant(True))) != 'False' or 'default' not in kws \
                        or set(kws) - {'init', 'repr', 'default'}:
                    raise RecordError(f'{w}: field(...) of {cls.name}.{name}: only field(init=False, default=.., repr=..)')
                noinit.append(f'({cs(name)}, {tr.exp(kws["default"], w)})')
            else:
                fields.append(f'({cs(name)}, {copt(tr.exp(b.value, w) if b.value is not None else None)})')
        elif isinstance(b, ast.FunctionDef):
            check_decorators(b, [], cls.name)
            if frozen and any(isinstance(n, ast.Attribute) and isinstance(n.ctx, ast.Store) for n in ast.walk(b)):
                raise RecordError(f'{w}: a method of the frozen dataclass {cls.name} stores to an attribute')
            methods.append(b)
        elif isinstance(b, ast.Pass) or (isinstance(b, ast.Expr) and isinstance(b.value, ast.Constant)):
            continue
        else:
            raise RecordError(f'{w}: {cls.name}: member `{norm(b).splitlines()[0]}`')
    return f'(mkClass {cs(cls.name)} {cl(fields)} {cl(initvars)} {cl(noinit)})', methods


def method_def(tr: Tr, cls: str, fn, w) -> str:
    if fn.args.vararg or fn.args.kwarg or fn.args.kwonlyargs or fn.args.posonlyargs or fn.args.defaults or fn.args.kw_defaults:
        raise RecordError(f'{w}: {cls}.{fn.name}: argument list (defaults, *args, keyword-only)')
    args = [a.arg for a in fn.args.args]
    if not args or args[0] != 'self':
        raise RecordError(f'{w}: {cls}.{fn.name}: first argument is not self')
    tr.check_locals(fn, f'{cls}.{fn.name}')
    return f'(mkMethod {cs(cls)} {cs(fn.name)} {cl(cs(a) for a in args[1:])} {tr.body(strip_doc(fn.body), f"{cls}.{fn.name}")})'


def func_def(tr: Tr, fn, w) -> str:
    if fn.args.vararg or fn.args.kwarg or fn.args.kwonlyargs or fn.args.posonlyargs or fn.args.defaults or fn.args.kw_defaults:
        raise RecordError(f'{w}: {fn.name}: argument list (defaults, *args, keyword-only)')
    check_decorators(fn, [], w)
    tr.check_locals(fn, fn.name)
    return f'(mkFunc {cs(fn.name)} {cl(cs(a.arg) for a in fn.args.args)} {tr.body(strip_doc(fn.body), fn.name)})'


# ------------------------------------------------------------------ RunSession.run

# the statements of RunSession.run this translation does not interpret (a PIN of their text; callback_skeleton pins them too)
UNTRACKED_SESSION = {
    "mp_context = mp.get_context('spawn')",
    'queue_in = cast(QueueIn, mp_context.Queue())',
    'queue_out = cast(QueueOut, mp_context.Queue())',
    'context.send_command = SendCommand(queue_in)',
    'context.open_prompts.clear()',
}


def session_segments(tr: Tr, run, w) -> list[str]:
    def data(st) -> bool:
        return bool(idents(st) & TRACKED_CTX)

    def seg(pos, when, stmts) -> str:
        return f'({pos}, {when}, {cl(stmts)})'

    body = strip_doc(run.body)
    withs = [i for i, st in enumerate(body) if isinstance(st, ast.AsyncWith)]
    if len(withs) != 1:
        raise RecordError(f'{w}: expected exactly one `async with`')
    i = withs[0]
    aw = body[i]
    if len(aw.items) != 1 or not norm(aw.items[0].context_expr).startswith('relay_events('):
        raise RecordError(f'{w}: the `async with` is not relay_events(...)')
    out = []
    # prelude: one atomic segment (no await)
    pre = []
    for st in body[:i]:
        if has_control(st):
            raise RecordError(f'{at(w, st)}: await / control transfer before the relay is entered')
        if data(st):
            pre.append(tr.stmt(st, w))
        elif norm(st) not in UNTRACKED_SESSION:
            raise RecordError(f'{at(w, st)}: statement `{norm(st)}` before the relay is entered is neither tracked nor one of the pinned ones')
    out.append(seg('PInitSession', 'Reached', [x for x in pre if x]))
    inner = aw.body
    if len(inner) != 3 or not isinstance(inner[2], ast.Try):
        raise RecordError(f'{w}: body of the relay block: expected spawn, _on_start_run, try/finally')
    s0 = tr.stmt(inner[0], w)
    if s0 is None or 'ESpawn' not in s0 or not s0.startswith('(SAssign ["context"; "running_process"] ESpawn'):
        raise RecordError(f'{at(w, inner[0])}: expected `context.running_process = await run_in_process(...)`')
    out.append(seg('PSpawn', 'Returned', [s0]))
    s1 = tr.stmt(inner[1], w)
    if s1 is None or not s1.startswith('(SCall "_on_start_run"'):
        raise RecordError(f'{at(w, inner[1])}: expected `await _on_start_run(...)`')
    out.append(seg('PStartRunHook', 'Reached', [s1]))
    t = inner[2]
    if t.handlers or t.orelse or [norm(x) for x in t.body] != ['yield'] or not t.finalbody:
        raise RecordError(f'{at(w, t)}: expected try: yield / finally: ...')
    f0 = tr.stmt(t.finalbody[0], w)
    if f0 is None or not f0.startswith('(SAssign ["context"; "exited_process"] (EAwaitHandle'):
        raise RecordError(f'{at(w, t.finalbody[0])}: expected `context.exited_process = await context.running_process`')
    out.append(seg('PAwaitProcess', 'Returned', [f0]))
    rest = []
    for st in t.finalbody[1:]:
        if has_control(st):
            raise RecordError(f'{at(w, st)}: await / control transfer after the process has been awaited')
        if data(st):
            rest.append(tr.stmt(st, w))
        else:
            raise RecordError(f'{at(w, st)}: untracked statement after the process has been awaited: `{norm(st)}`')
    out.append(seg('PSetExited', 'Reached', [x for x in rest if x]))
    post = body[i + 1:]
    if len(post) != 1:
        raise RecordError(f'{w}: expected exactly `await _on_end_run(...)` after the relay block')
    s2 = tr.stmt(post[0], w)
    if s2 is None or not s2.startswith('(SCall "_on_end_run"'):
        raise RecordError(f'{at(w, post[0])}: expected `await _on_end_run(...)`')
    out.append(seg('PEndRunHook', 'Reached', [s2]))
    return out


# ------------------------------------------------------------------ Callback

def cb_target(t, w) -> str:
    p = attr_path(t)
    if p is None:
        raise RecordError(f'{w}: target `{norm(t)}`')
    return cl(cs(x) for x in p)


def cb_stmt(st, w0) -> str | None:
    w = at(w0, st)
    if isinstance(st, ast.Pass) or is_logging(st):
        return None
    if isinstance(st, ast.Expr) and isinstance(st.value, ast.Constant):
        return None
    if isinstance(st, ast.AnnAssign) and st.value is None:
        return None
    if isinstance(st, ast.Try):
        if st.orelse:
            raise RecordError(f'{w}: try/else')
        if st.finalbody and not st.handlers:
            return f'(CbTryFinally {cb_body(st.body, w0)} {cb_body(st.finalbody, w0)})'
        if st.handlers and not st.finalbody and len(st.handlers) == 1 and st.handlers[0].type is not None \
                and norm(st.handlers[0].type) == 'BaseException' and all(is_logging(x) for x in st.handlers[0].body):
            return f'(CbTryExceptAll {cb_body(st.body, w0)})'
        raise RecordError(f'{w}: try statement shape')
    if isinstance(st, ast.AsyncWith):
        if len(st.items) != 1 or st.items[0].optional_vars is not None:
            raise RecordError(f'{w}: async with shape')
        c = st.items[0].context_expr
        if isinstance(c, ast.Call) and isinstance(c.func, ast.Attribute) and norm(c.func.value) == 'self._hook.awith' \
                and not c.args and [(k.arg, norm(k.value)) for k in c.keywords] == [('context', 'self._context')]:
            return f'(CbWithHook {cs(c.func.attr)} {cb_body(st.body, w0)})'
        raise RecordError(f'{w}: async with `{norm(c)}`')
    if isinstance(st, ast.Assign) and len(st.targets) == 1:
        t, v = st.targets[0], st.value
        if isinstance(v, ast.Constant) and v.value is None:
            return f'(CbSetNone {cb_target(t, w)})'
        if norm(v) == 'asyncio.Event()':
            return f'(CbNewEvent {cb_target(t, w)})'
        if isinstance(v, ast.Call) and norm(v.func) == 'asyncio.create_task' and len(v.args) == 1 and isinstance(v.args[0], ast.Call) \
                and isinstance(v.args[0].func, ast.Attribute) and norm(v.args[0].func.value) == 'self':
            p = attr_path(t)
            if p is None or len(p) != 2 or p[0] != 'self':
                raise RecordError(f'{w}: task stored in `{norm(t)}`')
            return f'(CbCreateTask {cs(p[1])} {cs(v.args[0].func.attr)})'
        if isinstance(v, ast.Call) and isinstance(v.func, ast.Attribute) and norm(v.func.value) == 'self._hook.hook' \
                and not v.args and [(k.arg, norm(k.value)) for k in v.keywords] == [('context', 'self._context')]:
            return f'(CbAssignHook {cb_target(t, w)} {cs(v.func.attr)})'
        raise RecordError(f'{w}: assignment `{norm(st)}`')
    if isinstance(st, ast.Expr) and isinstance(st.value, ast.Call):
        c = st.value
        if isinstance(c.func, ast.Attribute) and c.func.attr == 'set' and not c.args and not c.keywords:
            return f'(CbSetEvent {cb_target(c.func.value, w)})'
        raise RecordError(f'{w}: call `{norm(c)}`')
    if isinstance(st, ast.Expr) and isinstance(st.value, ast.Await):
        v = st.value.value
        p = attr_path(v)
        if p is not None and len(p) == 2 and p[0] == 'self':
            return f'(CbAwaitTask {cs(p[1])})'
        if isinstance(v, ast.Call) and isinstance(v.func, ast.Attribute):
            f = v.func
            if f.attr == 'wait' and not v.args and not v.keywords:
                return f'(CbWaitEvent {cb_target(f.value, w)})'
            if norm(f.value) == 'self._hook.ahook':
                kws = [(k.arg, norm(k.value)) for k in v.keywords]
                if v.args or ('context', 'self._context') not in kws:
                    raise RecordError(f'{w}: hook call shape')
                return f'(CbAwaitHook {cs(f.attr)})'
            if norm(f.value) == 'self._machine' and not v.args and not v.keywords:
                return f'(CbAwaitTrigger {cs(f.attr)})'
            if norm(f.value) == 'self' and not v.args and not v.keywords:
                return f'(CbCallSelf {cs(f.attr)})'
        raise RecordError(f'{w}: await `{norm(v)}`')
    raise RecordError(f'{w}: statement `{norm(st).splitlines()[0]}` not recognised')


def cb_body(body, w0) -> str:
    return cl([x for x in (cb_stmt(s, w0) for s in strip_doc(body)) if x is not None])


# ------------------------------------------------------------------ whole-tree scans

def other_implementations(repo: Path) -> list[str]:
    """built-in plugin classes (other than Result / RunInfoRegistrar) that implement result / format_exception, or publish
    on 'run_info'"""
    out = []
    for p in sorted((repo / PLUGINS_DIR).rglob('*.py')):
        tree = ast.parse(p.read_text())
        for cls in [n for n in ast.walk(tree) if isinstance(n, ast.ClassDef)]:
            for fn in [n for n in cls.body if isinstance(n, (ast.FunctionDef, ast.AsyncFunctionDef))]:
                if fn.name in API and is_hookimpl(fn) and cls.name != 'Result':
                    out.append(f'{cls.name}.{fn.name}')
                if cls.name != 'RunInfoRegistrar':
                    for n in ast.walk(fn):
                        if isinstance(n, ast.Call) and isinstance(n.func, ast.Attribute) and n.func.attr in ('publish', 'end') \
                                and n.args and isinstance(n.args[0], ast.Constant) and n.args[0].value == 'run_info':
                            out.append(f'{cls.name}.{fn.name}: run_info')
    return out


def first_result(repo: Path) -> list[str]:
    tree = parse(repo, SRC_SPEC)
    out = []
    for fn in tree.body:
        if isinstance(fn, ast.FunctionDef) and fn.name in API:
            if any(norm(d).replace(' ', '') == 'hookspec(firstresult=True)' for d in fn.decorator_list):
                out.append(fn.name)
    return out


def registration_order(repo: Path, names: list[str]) -> list[str]:
    tree = parse(repo, PLUGINS_DIR + '/__init__.py')
    reg = find(tree.body, ast.FunctionDef, 'register', PLUGINS_DIR)
    order = []
    for st in reg.body:
        if isinstance(st, ast.Expr) and isinstance(st.value, ast.Call) and norm(st.value.func) == 'hook.register' \
                and len(st.value.args) == 1 and isinstance(st.value.args[0], ast.Name):
            order.append(st.value.args[0].id)
    for n in names:
        if order.count(n) != 1:
            raise RecordError(f'{PLUGINS_DIR}/__init__.py: `{n}` registered {order.count(n)} times')
    return [n for n in order if n in names]


# ------------------------------------------------------------------ main

def translate(repo: Path) -> str:
    repo = Path(repo)
    t_info = parse(repo, SRC_RUN_INFO)
    t_sess = parse(repo, SRC_SESSION)
    t_run = parse(repo, SRC_RUN)
    t_sty = parse(repo, SRC_SPAWNED_TYPES)
    t_ty = parse(repo, SRC_TYPES)
    t_ev = parse(repo, SRC_EVENTS)
    t_imp = parse(repo, SRC_IMP)
    t_main = parse(repo, SRC_MAIN)
    t_cb = parse(repo, SRC_CALLBACK)

    c_result = find(t_sty.body, ast.ClassDef, 'RunResult', SRC_SPAWNED_TYPES)
    c_runarg = find(t_sty.body, ast.ClassDef, 'RunArg', SRC_SPAWNED_TYPES)
    c_info = find(t_ty.body, ast.ClassDef, 'RunInfo', SRC_TYPES)
    c_start = find(t_ev.body, ast.ClassDef, 'OnStartRun', SRC_EVENTS)
    c_end = find(t_ev.body, ast.ClassDef, 'OnEndRun', SRC_EVENTS)
    c_exited = find(t_run.body, ast.ClassDef, 'ExitedProcess', SRC_RUN)
    c_running = find(t_run.body, ast.ClassDef, 'RunningProcess', SRC_RUN)
    c_reg = find(t_info.body, ast.ClassDef, 'RunInfoRegistrar', SRC_RUN_INFO)
    c_res = find(t_sess.body, ast.ClassDef, 'Result', SRC_SESSION)
    c_sess = find(t_sess.body, ast.ClassDef, 'RunSession', SRC_SESSION)
    c_imp = find(t_imp.body, ast.ClassDef, 'Imp', SRC_IMP)
    c_nl = find(t_main.body, ast.ClassDef, 'Nextline', SRC_MAIN)
    c_cb = find(t_cb.body, ast.ClassDef, 'Callback', SRC_CALLBACK)

    # ---- module level: nothing rebinds or monkeypatches; the names relied upon come from where they should
    t_utc = parse(repo, SRC_UTC)
    t_utils = parse(repo, SRC_UTILS)
    t_spw = parse(repo, SRC_SPAWNED)
    check_module(t_info, SRC_RUN_INFO, {'dataclasses': ('', 'dataclasses'), 'timezone': ('datetime', 'timezone'),
                                        'OnEndRun': ('nextline.events', 'OnEndRun'), 'OnStartRun': ('nextline.events', 'OnStartRun'),
                                        'hookimpl': ('nextline.plugin.spec', 'hookimpl'), 'RunInfo': ('nextline.types', 'RunInfo')})
    check_module(t_sess, SRC_SESSION, {'json': ('', 'json'), 'events': ('nextline', 'events'), 'spawned': ('nextline', 'spawned'),
                                       'hookimpl': ('nextline.plugin.spec', 'hookimpl'), 'RunResult': ('nextline.spawned', 'RunResult'),
                                       'run_in_process': ('nextline.utils', 'run_in_process'), 'partial': ('functools', 'partial'),
                                       'contextlib': ('', 'contextlib'), 'getLogger': ('logging', 'getLogger'), 'asyncio': ('', 'asyncio')})
    check_module(t_run, SRC_RUN, {'datetime': ('datetime', 'datetime'), 'timezone': ('datetime', 'timezone'),
                                  'getLogger': ('logging', 'getLogger'), 'dataclass': ('dataclasses', 'dataclass')},
                 own_dicts=('_exitcode_to_name',))
    check_module(t_sty, SRC_SPAWNED_TYPES, {'json': ('', 'json'), 'traceback': ('', 'traceback'), 'dataclass': ('dataclasses', 'dataclass'),
                                            'field': ('dataclasses', 'field'), 'InitVar': ('dataclasses', 'InitVar')})
    check_module(t_ty, SRC_TYPES, {'dataclasses': ('', 'dataclasses')})
    check_module(t_ev, SRC_EVENTS, {'dataclass': ('dataclasses', 'dataclass'), 'is_timezone_aware': ('nextline.utils', 'is_timezone_aware')})
    check_module(t_cb, SRC_CALLBACK, {'asyncio': ('', 'asyncio'), 'getLogger': ('logging', 'getLogger')})
    check_module(t_utc, SRC_UTC, {'datetime': ('datetime', 'datetime'), 'timezone': ('datetime', 'timezone')})
    if imports_of(t_utils).get('is_timezone_aware') != ('.utc', 'is_timezone_aware') \
            or imports_of(t_utils).get('run_in_process') != ('.run', 'run_in_process') \
            or imports_of(t_utils).get('RunningProcess') != ('.run', 'RunningProcess') \
            or imports_of(t_utils).get('ExitedProcess') != ('.run', 'ExitedProcess'):
        raise RecordError(f'{SRC_UTILS}: is_timezone_aware / run_in_process / RunningProcess / ExitedProcess re-exported from elsewhere')
    if imports_of(t_spw).get('RunResult') != ('.types', 'RunResult'):
        raise RecordError(f'{SRC_SPAWNED}: RunResult re-exported from elsewhere')
    for t, rel, names in ((t_utils, SRC_UTILS, ('is_timezone_aware', 'run_in_process', 'RunningProcess', 'ExitedProcess')),
                          (t_spw, SRC_SPAWNED, ('RunResult',)), (t_imp, SRC_IMP, ()), (t_main, SRC_MAIN, ())):
        for st in t.body:
            for n in ([st] if not isinstance(st, (ast.ClassDef, ast.FunctionDef, ast.AsyncFunctionDef)) else []):
                for x in ast.walk(n):
                    if isinstance(x, (ast.Attribute, ast.Subscript)) and isinstance(getattr(x, 'ctx', None), (ast.Store, ast.Del)):
                        raise RecordError(f'{rel}:{st.lineno}: module-level store to `{norm(x)}`')
                    if isinstance(x, ast.Name) and isinstance(x.ctx, ast.Store) and x.id in names + ('Imp', 'Nextline'):
                        raise RecordError(f'{rel}:{st.lineno}: module-level rebinding of `{x.id}`')
                    if isinstance(x, ast.Call) and isinstance(x.func, ast.Name) and x.func.id in ('setattr', 'delattr'):
                        raise RecordError(f'{rel}:{st.lineno}: module-level {x.func.id}')
    # is_timezone_aware: a PIN of its one-line body (the interpreter's [EIsAware] is its meaning on times made by this code)
    f_aware = find(t_utc.body, ast.FunctionDef, 'is_timezone_aware', SRC_UTC)
    check_decorators(f_aware, [], SRC_UTC)
    if [norm(x) for x in strip_doc(f_aware.body)] != ['return (dt.tzinfo and dt.tzinfo.utcoffset(dt)) is not None'] \
            or [a.arg for a in f_aware.args.args] != ['dt'] or f_aware.args.defaults:
        raise RecordError(f'{SRC_UTC}: is_timezone_aware is not `return (dt.tzinfo and dt.tzinfo.utcoffset(dt)) is not None`')

    # ---- classes: bases, decorators, class-level statements, special methods
    DC = [['dataclass'], ['dataclasses.dataclass'], ['dataclasses.dataclass(frozen=True)'], ['dataclass(frozen=True)']]
    check_class(c_result, [], DC, special_ok=(), allow_init=False)
    check_class(c_runarg, [], DC, allow_init=False)
    check_class(c_info, [], DC, allow_init=False)
    check_class(c_start, ['Event'], DC, allow_init=False)
    check_class(c_end, ['Event'], DC, allow_init=False)
    c_event = find(t_ev.body, ast.ClassDef, 'Event', SRC_EVENTS)
    check_class(c_event, [], DC, allow_init=False)
    if any(isinstance(b, (ast.FunctionDef, ast.AsyncFunctionDef, ast.AnnAssign)) for b in c_event.body):
        raise RecordError(f'{SRC_EVENTS}: the base class Event has members')
    check_class(c_exited, ['Generic[_T]'], DC, allow_init=False)
    check_class(c_running, ['Generic[_T]'], [[]])
    check_class(c_reg, [], [[]])
    check_class(c_res, [], [[]], allow_init=False)
    check_class(c_sess, [], [[]], allow_init=False)
    check_class(c_cb, [], [[]])
    check_class(c_imp, [], [[]], special_ok=('__aenter__', '__aexit__'))
    check_class(c_nl, [], [[]], special_ok=('__aenter__', '__aexit__'))
    # sibling methods must not store to what the translated ones read
    for cls, node, attrs, where_ok in (('RunningProcess', c_running, ('_task', 'process', 'process_created_at', '_process_created_at_fmt'), ('__init__',)),
                                       ('Imp', c_imp, ('_context', '_hook'), ('__init__',)),
                                       ('Nextline', c_nl, ('_imp',), ('__init__',)),
                                       ('Callback', c_cb, ('_context', '_hook', '_machine'), ('__init__',))):
        for fn in node.body:
            if isinstance(fn, (ast.FunctionDef, ast.AsyncFunctionDef)) and fn.name not in where_ok:
                for n in ast.walk(fn):
                    if isinstance(n, ast.Attribute) and isinstance(n.ctx, (ast.Store, ast.Del)) and n.attr in attrs:
                        raise RecordError(f'{cls}.{fn.name}: stores to self.{n.attr}')
                    if isinstance(n, ast.Call) and isinstance(n.func, ast.Name) and n.func.id in ('setattr', 'delattr'):
                        raise RecordError(f'{cls}.{fn.name}: {n.func.id}')
    if [f.name for f in c_sess.body if isinstance(f, (ast.FunctionDef, ast.AsyncFunctionDef))] != ['run']:
        raise RecordError('RunSession: methods other than run')
    # Callback.__init__: plain stores of its arguments / a logger; no event, no task
    cb_init = find(c_cb.body, ast.FunctionDef, '__init__', 'Callback')
    for st in strip_doc(cb_init.body):
        ok = (isinstance(st, ast.AnnAssign) and st.value is None) or (
            isinstance(st, ast.Assign) and len(st.targets) == 1 and (attr_path(st.targets[0]) or [''])[0] == 'self'
            and len(attr_path(st.targets[0])) == 2 and attr_path(st.targets[0])[1] not in ('_run_finished', '_task_run')
            and (pure(st.value) or norm(st.value) == 'getLogger(__name__)'))
        if not ok:
            raise RecordError(f'Callback.__init__:{st.lineno}: `{norm(st)}`')
    # nobody else stores to the tracked attributes of the context
    for p in sorted((repo / 'nextline').rglob('*.py')):
        rel = str(p.relative_to(repo))
        tree = ast.parse(p.read_text())
        for top in ast.walk(tree):
            if isinstance(top, (ast.FunctionDef, ast.AsyncFunctionDef, ast.Module)):
                pass
        allowed = {SRC_CALLBACK: ('initialize_run', '_finish'), SRC_SESSION: ('run',)}
        for fn in [n for n in ast.walk(tree) if isinstance(n, (ast.FunctionDef, ast.AsyncFunctionDef))]:
            for n in ast.walk(fn):
                if isinstance(n, ast.Attribute) and isinstance(n.ctx, (ast.Store, ast.Del)) and n.attr in TRACKED_CTX \
                        and fn.name not in allowed.get(rel, ()):
                    raise RecordError(f'{rel}:{n.lineno}: {fn.name} stores to .{n.attr}')
                if isinstance(n, ast.Attribute) and isinstance(n.ctx, ast.Store) and n.attr == 'returned' \
                        and not (rel == SRC_SESSION and fn.name == 'run'):
                    raise RecordError(f'{rel}:{n.lineno}: {fn.name} stores to .returned')

    # module-level dicts of utils/run.py: a dict display or comprehension whose values are f-strings with a constant part
    dicts, truthy = set(), []
    for st in t_run.body:
        if isinstance(st, ast.Assign) and len(st.targets) == 1 and isinstance(st.targets[0], ast.Name) \
                and isinstance(st.value, (ast.Dict, ast.DictComp)):
            dicts.add(st.targets[0].id)
            vals = [st.value.value] if isinstance(st.value, ast.DictComp) else st.value.values
            if vals and all(isinstance(v, ast.JoinedStr) and any(isinstance(x, ast.Constant) and x.value for x in v.values)
                            for v in vals):
                truthy.append(st.targets[0].id)
    # ... and nothing rebinds or mutates them
    for n in ast.walk(t_run):
        if isinstance(n, (ast.Subscript, ast.Attribute)) and isinstance(n.value, ast.Name) and n.value.id in dicts \
                and isinstance(getattr(n, 'ctx', None), (ast.Store, ast.Del)):
            raise RecordError(f'{SRC_RUN}: the dict `{n.value.id}` is modified')
        if isinstance(n, ast.Attribute) and isinstance(n.value, ast.Name) and n.value.id in dicts and n.attr != 'get':
            raise RecordError(f'{SRC_RUN}: `{n.value.id}.{n.attr}`')
        if isinstance(n, ast.Name) and n.id in dicts and isinstance(n.ctx, (ast.Store, ast.Del)) and n.col_offset != 0:
            raise RecordError(f'{SRC_RUN}: the dict `{n.id}` is rebound')
        if isinstance(n, (ast.Global, ast.Nonlocal)) and set(n.names) & dicts:
            raise RecordError(f'{SRC_RUN}: `global` on a tracked dict')

    dataclasses = [c_result, c_runarg, c_info, c_start, c_end, c_exited]
    class_names = {c.name for c in dataclasses} | {'RunInfoRegistrar', 'Result', 'RunningProcess'}
    traced_methods = {
        'RunResult': [f.name for f in c_result.body if isinstance(f, ast.FunctionDef)],
        'RunningProcess': ['__init__', '_log_created', '__await__', '_log_exited', '_format_time'],
    }
    method_names = {m for ms in traced_methods.values() for m in ms if not m.startswith('__')}
    tr = Tr(class_names, method_names, dicts, {'_on_start_run', '_on_end_run'}, {'_assert_aware_datetime'})

    classes, methods = [], []
    for c in dataclasses:
        d, ms = dataclass_def(tr, c, f'{c.name}')
        classes.append(d)
        for fn in ms:
            methods.append(method_def(tr, c.name, fn, c.name))
    # RunningProcess: construction and what `await handle` executes
    for nm in traced_methods['RunningProcess']:
        fn = find(c_running.body, ast.FunctionDef, nm, 'RunningProcess')
        check_decorators(fn, [], 'RunningProcess')
        methods.append(method_def(tr, 'RunningProcess', fn, 'RunningProcess'))
    # RunInfoRegistrar: __init__ and the hook implementations
    hooks = []
    for fn in c_reg.body:
        if isinstance(fn, (ast.FunctionDef, ast.AsyncFunctionDef)):
            if fn.name == '__init__' or is_hookimpl(fn):
                check_decorators(fn, [] if fn.name == '__init__' else ['hookimpl'], 'RunInfoRegistrar')
                methods.append(method_def(tr, 'RunInfoRegistrar', fn, 'RunInfoRegistrar'))
                if fn.name != '__init__':
                    hooks.append(fn.name)
            else:
                raise RecordError(f'RunInfoRegistrar.{fn.name}: a method that is neither __init__ nor a hook implementation')
    for fn in c_reg.body:
        if isinstance(fn, (ast.FunctionDef, ast.AsyncFunctionDef)) and fn.name != '__init__':
            for n in ast.walk(fn):
                if isinstance(n, (ast.Assign, ast.AugAssign, ast.AnnAssign)):
                    for t in (n.targets if isinstance(n, ast.Assign) else [n.target]):
                        p = attr_path(t)
                        if p and p[0] == 'context':
                            raise RecordError(f'RunInfoRegistrar.{fn.name}: assigns to the context')
    # Result: the two firstresult hooks
    for fn in c_res.body:
        if isinstance(fn, (ast.FunctionDef, ast.AsyncFunctionDef)):
            if not is_plain_hookimpl(fn) or fn.name not in API:
                raise RecordError(f'Result.{fn.name}: not a plain @hookimpl of one of the hooks {API}')
            methods.append(method_def(tr, 'Result', fn, 'Result'))
    if sorted(f.name for f in c_res.body if isinstance(f, ast.FunctionDef)) != sorted(API):
        raise RecordError('Result: expected exactly format_exception and result')
    # Imp / Nextline plumbing
    for cls, node in (('Imp', c_imp), ('Nextline', c_nl)):
        for nm in API:
            fn = find(node.body, ast.FunctionDef, nm, cls)
            check_decorators(fn, [], cls)
            methods.append(method_def(tr, cls, fn, cls))
    fr = first_result(repo)
    if sorted(fr) != sorted(API):
        raise RecordError(f'{SRC_SPEC}: format_exception / result must be hookspec(firstresult=True); found {fr}')
    others = other_implementations(repo)
    if others:
        raise RecordError(f'{PLUGINS_DIR}: other implementations of the record: {others}')
    plugins = registration_order(repo, ['RunInfoRegistrar', 'Result'])

    funcs = []
    for nm in ('_on_start_run', '_on_end_run'):
        funcs.append(func_def(tr, find(t_sess.body, ast.AsyncFunctionDef, nm, SRC_SESSION), SRC_SESSION))
    funcs.append(func_def(tr, find(t_ev.body, ast.FunctionDef, '_assert_aware_datetime', SRC_EVENTS), SRC_EVENTS))

    run = find(c_sess.body, ast.AsyncFunctionDef, 'run', 'RunSession')
    if [norm(d) for d in run.decorator_list] != ['hookimpl', 'contextlib.asynccontextmanager']:
        raise RecordError('RunSession.run: decorators')
    if [a.arg for a in run.args.args] != ['self', 'context'] or run.args.defaults or run.args.vararg or run.args.kwarg or run.args.kwonlyargs:
        raise RecordError('RunSession.run: arguments')
    tr.check_locals(run, 'RunSession.run')
    session = session_segments(tr, run, 'RunSession.run')

    cb = []
    for fn in c_cb.body:
        if isinstance(fn, (ast.FunctionDef, ast.AsyncFunctionDef)) and fn.name != '__init__':
            check_decorators(fn, [], 'Callback')
            if fn.args.defaults or fn.args.vararg or fn.args.kwarg or fn.args.kwonlyargs:
                raise RecordError(f'Callback.{fn.name}: argument list')
            if local_bindings(fn) & {'asyncio', 'self'} - {'self'}:
                raise RecordError(f'Callback.{fn.name}: rebinds asyncio')
            cb.append(f'({cs(fn.name)}, {cb_body(fn.body, "Callback." + fn.name)})')

    nl = '\n'
    L = [
        '(** GENERATED by translate/run_record.py (ast, CPython %d.%d) -- do not edit.' % sys.version_info[:2],
        f'    From {SRC_RUN_INFO}, {SRC_SESSION}, {SRC_RUN},',
        f'    {SRC_SPAWNED_TYPES}, {SRC_TYPES}, {SRC_EVENTS}, {SRC_IMP}, {SRC_MAIN}, {SRC_SPEC}, {SRC_CALLBACK}.',
        '    Terms of Life/RecordSyntax.v; interpreted and tied to Life/Model.v by Life/RecordTie.v. *)',
        'From Coq Require Import List String.',
        'From NL Require Import Life.RecordSyntax.',
        'Import ListNotations.',
        'Local Open Scope string_scope.',
        '',
        '(** dataclasses: fields with their defaults *)',
        'Definition classes : list classdef :=',
        '  [ ' + (';' + nl + '    ').join(classes) + ' ].',
        '',
        '(** methods: dataclasses, RunningProcess (__init__, _log_created, __await__, _log_exited, _format_time), RunInfoRegistrar, Result, Imp, Nextline *)',
        'Definition methods : list method :=',
        '  [ ' + (';' + nl + '    ').join(methods) + ' ].',
        '',
        '(** _on_start_run / _on_end_run (session.py), _assert_aware_datetime (events.py) *)',
        'Definition funcs : list func :=',
        '  [ ' + (';' + nl + '    ').join(funcs) + ' ].',
        '',
        '(** RunSession.run: data statements per atomic segment, in the order of the source *)',
        'Definition session : list (pos * when * list stmt) :=',
        '  [ ' + (';' + nl + '    ').join(session) + ' ].',
        '',
        f'Definition registrar_hooks : list string := {cl(cs(h) for h in hooks)}.',
        '',
        'Definition prog : rprogram :=',
        f'  mkProgram classes methods funcs session {cl(cs(p) for p in plugins)} {cl(cs(d) for d in truthy)}.',
        '',
        '(** Callback (nextline/fsm/callback.py), every method *)',
        'Definition callback : list (string * list cstmt) :=',
        '  [ ' + (';' + nl + '    ').join(cb) + ' ].',
        '',
    ]
    return nl.join(L)


if __name__ == '__main__':
    print(translate(Path(sys.argv[1] if len(sys.argv) > 1 else '/repo')))
