"""Fail-closed translator: stdout-capture closures of /repo -> Gallina.

Reads
  nextline/spawned/plugin/plugins/peek.py : ReadLinesByKey.read_lines_by_key, AssignKey.assign_key
  nextline/utils/peek.py                  : peek_textio.write
and emits their transcription (state-passing style over the vocabulary of
coq/theories/Stdout/Prim.v) into coq/theories/Gen/PeekFuns.v.

Translation scheme (one Gallina `let` per Python statement, same order of effects):
  buffer[k] += e            let buffer := dd_set buffer k (str_add (dd_get buffer k) E) in
  buffer[k] = e             let buffer := dd_set buffer k E in
  buffer[k]   (read)        dd_get buffer k
  x = buffer.pop(k)         let '(x, buffer) := dd_pop buffer k in
  del buffer[k]             let buffer := dd_remove buffer k in
  x = e                     let x := E in
  f(a, ..)   (f a callback) let w := f A .. w in          (the callback's effect on the rest of the world)
  if c: A else: B           let '(buffer, w) := (if C then A' else B') in
  if x := e: ...            let x := E in let '(..) := (if truthy x then ..) in
  if c: ...; return         (if C then A' else <translation of the statements after the if>)   [function tail only]
  s.rindex(t) / a + b / a - b on ints / s[a:b]         str_rindex, Z arithmetic, str_slice
Python names that clash with Gallina / the vocabulary (text, end, ...) get the prefix py_.
  s.endswith(t) / t in s / x is None / not / and / or / == ...   see `cond`
Anything else raises `Untranslatable` (the check then reports a broken tie).

The code that only wires these closures together (peek_stdout_by_key, peek_stdout,
peek_textio around `write`, PeekStdout, Repeater.on_write_stdout) is modelled by hand in
Stdout/Model.v; its shape is PINNED here: if its `ast` changes, the translator raises.
"""
from __future__ import annotations

import ast
import hashlib
from pathlib import Path

OUTPUT = 'PeekFuns.v'

PEEK_PLUGIN = 'nextline/spawned/plugin/plugins/peek.py'
PEEK_UTIL = 'nextline/utils/peek.py'
REPEAT = 'nextline/spawned/plugin/plugins/repeat.py'


class Untranslatable(Exception):
    pass


def fail(node, why: str):
    where = f'line {getattr(node, "lineno", "?")}'
    try:
        src = ast.unparse(node)
    except Exception:
        src = repr(node)
    raise Untranslatable(f'{why} ({where}): {src[:120]}')


RESERVED = {
    # Prim.v vocabulary and Gallina keywords a Python identifier must not capture
    'text', 'buf', 'pykey', 'ch', 'NL', 'Other', 'w', 'st', 'tt', 'unit', 'W',
    'ch_eqb', 'text_eqb', 'key_eqb', 'truthy_key', 'truthy_text', 'is_none', 'str_add',
    'str_startswith', 'str_endswith', 'str_contains', 'str_rindex', 'rindex_go', 'str_slice', 'py_index',
    'length', 'firstn', 'skipn', 'repeat', 'map', 'concat', 'dd_get', 'dd_set', 'dd_pop', 'dd_remove', 'dd_mem',
    'negb', 'andb', 'orb', 'true', 'false', 'None', 'Some', 'let', 'in', 'if', 'then', 'else', 'fun', 'match',
    'with', 'end', 'forall', 'exists', 'fix', 'cofix', 'as', 'return', 'Type', 'Prop', 'Set', 'at', 'using',
    'where', 'for', 'nil', 'cons', 'list', 'option', 'Z', 'nat', 'bool', 'rev', 'app', 'fst', 'snd',
}


def ident(name: str, node=None) -> str:
    if not name.isidentifier() or not name.isascii() or name.startswith('_') or name.startswith('py_'):
        fail(node, f'identifier {name!r} cannot be used in the generated Gallina')
    if name in RESERVED:
        return 'py_' + name
    return name


def text_lit(s: str) -> str:
    return '[' + '; '.join('NL' if c == '\n' else f'Other {ord(c)}' for c in s) + ']'


class Fn:
    """Translation of one inner function body."""

    def __init__(self, name: str, params: list[tuple[str, str]], effects: dict[str, int | None],
                 thunks: dict[str, str], has_buffer: bool):
        self.name = name
        self.params = params                    # [(python name, type)]
        self.effects = dict(effects)            # callable name -> arity (None = not yet known)
        self.effect_types: dict[str, list[str]] = {}
        self.thunks = thunks                    # zero-argument callables: name -> result type
        self.has_buffer = has_buffer
        self.state = "(buffer, w)" if has_buffer else "w"
        self.statepat = "'(buffer, w)" if has_buffer else "w"

    # ---- expressions
    def expr(self, e, env, want: str | None = None) -> tuple[str, str]:
        if isinstance(e, ast.Constant) and want == 'int' and isinstance(e.value, int) and not isinstance(e.value, bool):
            return f'({e.value})', 'int'
        if isinstance(e, ast.BinOp) and isinstance(e.op, (ast.Add, ast.Sub)):
            a, ta = self.expr(e.left, env, want)
            b, tb = self.expr(e.right, env, 'int' if ta == 'int' else None)
            if ta == tb == 'int':
                return f'({a} {"+" if isinstance(e.op, ast.Add) else "-"} {b})', 'int'
            if ta == tb == 'text' and isinstance(e.op, ast.Add):
                return f'(str_add {a} {b})', 'text'
            fail(e, '+/- on operands that are not both str or both int')
        if isinstance(e, ast.Call) and isinstance(e.func, ast.Attribute) and e.func.attr == 'rindex':
            if len(e.args) != 1 or e.keywords:
                fail(e, 'rindex with other than one positional argument')
            o, to = self.expr(e.func.value, env)
            a, ta = self.expr(e.args[0], env)
            if to != 'text' or ta != 'text':
                fail(e, 'rindex on non-str')
            return f'(str_rindex {o} {a})', 'int'
        if isinstance(e, ast.Subscript) and isinstance(e.slice, ast.Slice) and isinstance(e.ctx, ast.Load):
            if e.slice.step is not None:
                fail(e, 'slice with a step')
            o, to = self.expr(e.value, env)
            if to != 'text':
                fail(e, 'slice of a non-str')
            bounds = []
            for bnd in (e.slice.lower, e.slice.upper):
                if bnd is None:
                    bounds.append('None')
                else:
                    c, tc = self.expr(bnd, env, 'int')
                    if tc != 'int':
                        fail(e, 'slice bound that is not an int')
                    bounds.append(f'(Some {c})')
            return f'(str_slice {o} {bounds[0]} {bounds[1]})', 'text'
        if isinstance(e, ast.Name):
            if e.id in env:
                return ident(e.id, e), env[e.id]
            fail(e, f'name {e.id!r} is not a parameter or a local assigned on every path')
        if isinstance(e, ast.Constant):
            if isinstance(e.value, str):
                return text_lit(e.value), 'text'
            if e.value is None:
                return '(@None Z)', 'pykey'
            if isinstance(e.value, int) and not isinstance(e.value, bool):
                return f'(Some ({e.value}))', 'pykey'
            fail(e, 'constant of unsupported type')
        if self.is_buffer_sub(e) and isinstance(e.ctx, ast.Load):
            # read of a defaultdict(str): a missing key reads as '' (that it is also inserted is not
            # observable through the constructs of this fragment)
            return f'(dd_get buffer {self.key_of(e, env)})', 'text'
        if isinstance(e, ast.Call) and isinstance(e.func, ast.Name) and e.func.id in self.thunks:
            if e.args or e.keywords:
                fail(e, 'arguments to a zero-argument callable')
            return f'({ident(e.func.id)} tt)', self.thunks[e.func.id]
        fail(e, 'expression not in the translatable fragment')

    def truthy(self, c: str, t: str) -> str:
        return {'pykey': f'truthy_key {c}', 'text': f'truthy_text {c}', 'int': f'negb (Z.eqb {c} 0)'}[t]

    def cond(self, e, env, top=True) -> tuple[list[str], str]:
        """-> (let-prelude lines binding walrus targets, boolean term)"""
        if isinstance(e, ast.NamedExpr):
            if not top:
                fail(e, 'assignment expression nested inside a condition')
            v, t = self.expr(e.value, env)
            x = ident(e.target.id, e)
            env[e.target.id] = t
            return [f'let {x} := {v} in'], self.truthy(x, t)
        if isinstance(e, ast.UnaryOp) and isinstance(e.op, ast.Not):
            _, c = self.cond(e.operand, env, False)
            return [], f'negb ({c})'
        if isinstance(e, ast.BoolOp):
            parts = [self.cond(v, env, False)[1] for v in e.values]
            op = ' && ' if isinstance(e.op, ast.And) else ' || '
            return [], '(' + op.join(f'({p})' for p in parts) + ')'
        if isinstance(e, ast.Call) and isinstance(e.func, ast.Attribute) and e.func.attr in ('endswith', 'startswith'):
            if len(e.args) != 1 or e.keywords:
                fail(e, 'endswith/startswith with other than one positional argument')
            o, to = self.expr(e.func.value, env)
            a, ta = self.expr(e.args[0], env)
            if to != 'text' or ta != 'text':
                fail(e, 'endswith/startswith on non-str')
            return [], f'str_{e.func.attr} {o} {a}'
        if isinstance(e, ast.Compare) and len(e.ops) == 1:
            op = e.ops[0]
            pre = []
            if isinstance(e.left, ast.NamedExpr):
                if not top:
                    fail(e, 'assignment expression nested inside a condition')
                v, t = self.expr(e.left.value, env)
                x = ident(e.left.target.id, e)
                env[e.left.target.id] = t
                pre = [f'let {x} := {v} in']
                l, tl = x, t
            else:
                l, tl = self.expr(e.left, env)
            r, tr = self.expr(e.comparators[0], env)
            if isinstance(op, (ast.In, ast.NotIn)):
                if tl != 'text' or tr != 'text':
                    fail(e, '`in` on non-str')
                c = f'str_contains {l} {r}'
                return pre, c if isinstance(op, ast.In) else f'negb ({c})'
            if isinstance(op, (ast.Is, ast.IsNot)):
                if not (isinstance(e.comparators[0], ast.Constant) and e.comparators[0].value is None and tl == 'pykey'):
                    fail(e, '`is` other than `<key> is [not] None`')
                c = f'is_none {l}'
                return pre, c if isinstance(op, ast.Is) else f'negb ({c})'
            if isinstance(op, (ast.Eq, ast.NotEq)):
                if tl != tr:
                    fail(e, '== between different types')
                c = f'{ {"text": "text_eqb", "pykey": "key_eqb", "int": "Z.eqb"}[tl]} {l} {r}'
                return pre, c if isinstance(op, ast.Eq) else f'negb ({c})'
            fail(e, 'comparison operator not supported')
        if isinstance(e, (ast.Name, ast.Constant)):
            c, t = self.expr(e, env)
            return [], self.truthy(c, t)
        fail(e, 'condition not in the translatable fragment')

    # ---- statements
    def is_buffer_sub(self, t) -> bool:
        return (self.has_buffer and isinstance(t, ast.Subscript) and isinstance(t.value, ast.Name)
                and t.value.id == 'buffer')

    def key_of(self, sub, env) -> str:
        k, tk = self.expr(sub.slice, env)
        if tk != 'pykey':
            fail(sub, 'buffer subscript is not a key')
        return k

    def effect_call(self, call, env) -> str:
        f = call.func.id
        if call.keywords:
            fail(call, 'keyword arguments in a callback call')
        args = [self.expr(a, env) for a in call.args]
        types = [t for _, t in args]
        if f in self.effect_types and self.effect_types[f] != types:
            fail(call, f'{f} called with different argument types')
        self.effect_types[f] = types
        return f'let w := {ident(f)} {" ".join(a for a, _ in args)} w in'.replace('  ', ' ')

    def pop_call(self, e, env):
        if (self.has_buffer and isinstance(e, ast.Call) and isinstance(e.func, ast.Attribute) and e.func.attr == 'pop'
                and isinstance(e.func.value, ast.Name) and e.func.value.id == 'buffer'):
            if len(e.args) != 1 or e.keywords:
                fail(e, 'buffer.pop with a default / keywords')
            k, tk = self.expr(e.args[0], env)
            if tk != 'pykey':
                fail(e, 'buffer.pop of a non-key')
            return k
        return None

    def block(self, stmts, env, ind: str, toplevel: bool, tail: bool = False) -> list[str]:
        out: list[str] = []
        for i, s in enumerate(stmts):
            last = i == len(stmts) - 1
            if isinstance(s, ast.Expr) and isinstance(s.value, ast.Constant) and isinstance(s.value.value, str):
                continue                                                   # docstring / bare string
            if isinstance(s, ast.Pass):
                continue
            if isinstance(s, ast.AugAssign):
                if not (self.is_buffer_sub(s.target) and isinstance(s.op, ast.Add)):
                    fail(s, 'augmented assignment other than buffer[k] += <str>')
                k = self.key_of(s.target, env)
                v, tv = self.expr(s.value, env)
                if tv != 'text':
                    fail(s, 'buffer[k] += non-str')
                out.append(f'{ind}let buffer := dd_set buffer {k} (str_add (dd_get buffer {k}) {v}) in')
                continue
            if isinstance(s, ast.Assign) and len(s.targets) == 1:
                t = s.targets[0]
                if self.is_buffer_sub(t):
                    k = self.key_of(t, env)
                    v, tv = self.expr(s.value, env)
                    if tv != 'text':
                        fail(s, 'buffer[k] = non-str')
                    out.append(f'{ind}let buffer := dd_set buffer {k} {v} in')
                    continue
                if isinstance(t, ast.Name):
                    x = ident(t.id, s)
                    if t.id == 'buffer' or t.id in self.effects or t.id in self.thunks or t.id in dict(self.params):
                        fail(s, 'assignment to a parameter / closure variable')
                    k = self.pop_call(s.value, env)
                    if k is not None:
                        out.append(f"{ind}let '({x}, buffer) := dd_pop buffer {k} in")
                        env[t.id] = 'text'
                        continue
                    v, tv = self.expr(s.value, env)
                    out.append(f'{ind}let {x} := {v} in')
                    env[t.id] = tv
                    continue
                fail(s, 'assignment target not supported')
            if isinstance(s, ast.Delete) and len(s.targets) == 1 and self.is_buffer_sub(s.targets[0]):
                k = self.key_of(s.targets[0], env)
                out.append(f'{ind}let buffer := dd_remove buffer {k} in')
                continue
            if isinstance(s, ast.Expr) and isinstance(s.value, ast.Call):
                c = s.value
                k = self.pop_call(c, env)
                if k is not None:
                    out.append(f"{ind}let '(_, buffer) := dd_pop buffer {k} in")
                    continue
                if isinstance(c.func, ast.Name) and c.func.id in self.effects:
                    out.append(ind + self.effect_call(c, env))
                    continue
                fail(s, 'call to something that is not a callback parameter')
            if (isinstance(s, ast.If) and not s.orelse and s.body and isinstance(s.body[-1], ast.Return)
                    and (s.body[-1].value is None or (isinstance(s.body[-1].value, ast.Constant) and s.body[-1].value.value is None))):
                # `if c: ...; return` -- allowed where nothing of the function follows the enclosing block
                if not (toplevel or tail):
                    fail(s, 'early return inside a block that is not in tail position')
                pre, c = self.cond(s.test, env, True)
                out += [ind + p for p in pre]
                out.append(f'{ind}if {c} then')
                out += self.block(s.body[:-1], dict(env), ind + '  ', False, False)
                out.append(f'{ind}else')
                out += self.block(stmts[i + 1:], env, ind + '  ', toplevel, True)
                return out
            if isinstance(s, ast.If):
                pre, c = self.cond(s.test, env, True)
                out += [ind + p for p in pre]
                out.append(f'{ind}let {self.statepat} :=')
                out.append(f'{ind}  (if {c} then')
                out += self.block(s.body, dict(env), ind + '     ', False)
                out.append(f'{ind}   else')
                out += self.block(s.orelse, dict(env), ind + '     ', False)
                out.append(f'{ind}  ) in')
                continue
            if isinstance(s, ast.Return):
                if not (toplevel and last):
                    fail(s, 'return that is not the last statement of the function')
                if s.value is None or (isinstance(s.value, ast.Constant) and s.value.value is None):
                    continue
                # `return f(x)` with f a callback: the effect happens, the returned value is not modelled
                if isinstance(s.value, ast.Call) and isinstance(s.value.func, ast.Name) and s.value.func.id in self.effects:
                    out.append(ind + self.effect_call(s.value, env))
                    continue
                fail(s, 'returned value not supported')
            fail(s, 'statement not in the translatable fragment')
        out.append(f'{ind}{self.state}')
        return out

    def emit(self, fdef: ast.FunctionDef, comment: str) -> str:
        env = {p: t for p, t in self.params}
        body = self.block(fdef.body, env, '  ', True)
        for f in self.effects:
            if f not in self.effect_types:
                fail(fdef, f'callback {f!r} is never called')
        binders = ['{W : Type}']
        for f, t in self.thunks.items():
            binders.append(f'({ident(f)} : unit -> {t})')
        for f in self.effects:
            binders.append(f'({ident(f)} : {" -> ".join(["Z" if t == "int" else t for t in self.effect_types[f]] + ["W", "W"])})')
        for p, t in self.params:
            binders.append(f'({ident(p)} : {t})')
        if self.has_buffer:
            head = f'Definition {self.name} {" ".join(binders)} (st : buf * W) : buf * W :=\n  let \'(buffer, w) := st in\n'
        else:
            head = f'Definition {self.name} {" ".join(binders)} (w : W) : W :=\n'
        return f'(* {comment} *)\n' + head + '\n'.join(body) + '.\n'


# ---------------------------------------------------------------- shape helpers

def strip_doc(body):
    if body and isinstance(body[0], ast.Expr) and isinstance(body[0].value, ast.Constant) and isinstance(body[0].value.value, str):
        return body[1:]
    return body


def arg_names(fdef, allow_posonly=False) -> list[str]:
    a = fdef.args
    if a.vararg or a.kwarg or a.kwonlyargs or a.defaults or a.kw_defaults or (a.posonlyargs and not allow_posonly):
        fail(fdef, 'unsupported parameter list')
    return [x.arg for x in a.posonlyargs + a.args]


def find_def(tree, name: str, cls: str | None = None):
    scope = tree.body
    if cls is not None:
        cs = [n for n in tree.body if isinstance(n, ast.ClassDef) and n.name == cls]
        if len(cs) != 1:
            raise Untranslatable(f'class {cls} not found exactly once')
        scope = cs[0].body
    ds = [n for n in scope if isinstance(n, (ast.FunctionDef, ast.AsyncFunctionDef)) and n.name == name]
    if len(ds) != 1 or not isinstance(ds[0], ast.FunctionDef):
        raise Untranslatable(f'function {name} not found exactly once as a plain def')
    return ds[0]


def canon(node) -> str:
    """ast dump without docstrings, annotations and positions"""
    class Strip(ast.NodeTransformer):
        def visit_FunctionDef(self, n):
            n.body = strip_doc(n.body) or [ast.Pass()]
            n.returns = None
            for a in n.args.posonlyargs + n.args.args + n.args.kwonlyargs:
                a.annotation = None
            self.generic_visit(n)
            return n

        def visit_AnnAssign(self, n):
            self.generic_visit(n)
            if n.value is None:
                return None
            return ast.Assign(targets=[n.target], value=n.value)
    import copy
    return ast.dump(Strip().visit(copy.deepcopy(node)), annotate_fields=False)


def pin(node, expected_src: str, what: str):
    got = canon(node)
    want = canon(ast.parse(expected_src).body[0])
    if got != want:
        raise Untranslatable(f'{what} no longer has the shape modelled in Stdout/Model.v:\n  now: {ast.unparse(node)[:400]}')


# the wiring modelled by hand in Stdout/Model.v ------------------------------------------------

PIN_PEEK_STDOUT_BY_KEY = '''
def peek_stdout_by_key(key_factory, callback):
    callback_ = ReadLinesByKey(callback)
    assign_key = AssignKey(key_factory=key_factory, callback=callback_)
    return peek_stdout(assign_key)
'''
PIN_PEEK_STDOUT = '''
def peek_stdout(callback):
    return peek_textio(sys.stdout, callback)
'''
PIN_PEEK_TEXTIO = '''
@contextmanager
def peek_textio(textio, callback):
    org_write = textio.write
    def write(s, /):
        pass
    textio.write = write
    try:
        yield write
    finally:
        textio.write = org_write
'''
PIN_CONTEXT = '''
@hookimpl
@contextmanager
def context(self):
    with peek_stdout_by_key(key_factory=self._key_factory, callback=self._callback):
        yield
'''
PIN_KEY_FACTORY = '''
def _key_factory(self):
    return self._hook.hook.current_trace_no()
'''
PIN_CALLBACK = '''
def _callback(self, trace_no, line):
    self._hook.hook.on_write_stdout(trace_no=trace_no, line=line)
'''
PIN_ON_WRITE_STDOUT = '''
@hookimpl
def on_write_stdout(self, trace_no, line):
    written_at = datetime.datetime.utcnow()
    trace_no = self._hook.hook.current_trace_no()
    event = OnWriteStdout(written_at=written_at, run_no=self._run_no, trace_no=trace_no, text=line)
    self._queue_out.put(event)
'''


# the debugger writes to a private stream, never to sys.stdout (modelled: debugger text is not a Write label)
PIN_STDINOUT_WRITE = '''
def write(self, s):
    self._prompt_text += s
    return len(s)
'''
PIN_PDB_FACTORY = '''
def _factory():
    stdio = StdInOut(prompt_func=prompt_func)
    pdb = CustomizedPdb(cmdloop_hook=cmdloop_hook, stdin=stdio, stdout=stdio)
    stdio.prompt_end = pdb.prompt
    return pdb.trace_dispatch
'''
PIN_PDB_INIT_SUPER = "super().__init__(stdin=stdin, stdout=stdout, nosigint=True, readrc=False)"
PIN_REGISTRAR = '''
@hookimpl
async def on_write_stdout(self, context, event):
    assert context.run_arg
    stdout_info = StdoutInfo(run_no=context.run_arg.run_no, trace_no=event.trace_no, text=event.text, written_at=event.written_at)
    await context.pubsub.publish('stdout', stdout_info)
'''


def find_any_def(tree, name: str, cls: str | None = None, outer: str | None = None):
    """a (possibly async / nested) def, found exactly once"""
    scope = tree
    if cls is not None:
        scope = next((n for n in tree.body if isinstance(n, ast.ClassDef) and n.name == cls), None)
    if outer is not None:
        scope = next((n for n in tree.body if isinstance(n, ast.FunctionDef) and n.name == outer), None)
    if scope is None:
        raise Untranslatable(f'{cls or outer} not found')
    ds = [n for n in scope.body if isinstance(n, (ast.FunctionDef, ast.AsyncFunctionDef)) and n.name == name]
    if len(ds) != 1:
        raise Untranslatable(f'{name} not found exactly once in {cls or outer}')
    return ds[0]


def canon_any(node) -> str:
    import copy
    n = copy.deepcopy(node)
    n.body = strip_doc(n.body) or [ast.Pass()]
    n.returns = None
    for a in n.args.posonlyargs + n.args.args + n.args.kwonlyargs:
        a.annotation = None
    return ast.dump(n, annotate_fields=False)


def pin_any(node, expected_src: str, what: str):
    if canon_any(node) != canon_any(ast.parse(expected_src).body[0]):
        raise Untranslatable(f'{what} no longer has the modelled shape:\n  now: {ast.unparse(node)[:400]}')


def translate(repo: Path) -> str:
    repo = Path(repo)
    src_plugin = (repo / PEEK_PLUGIN).read_text()
    src_util = (repo / PEEK_UTIL).read_text()
    src_repeat = (repo / REPEAT).read_text()
    tp, tu, tr = ast.parse(src_plugin), ast.parse(src_util), ast.parse(src_repeat)
    parts = []

    # ---- ReadLinesByKey
    outer = find_def(tp, 'ReadLinesByKey')
    if outer.decorator_list or arg_names(outer) != ['callback']:
        fail(outer, 'ReadLinesByKey: signature changed')
    body = strip_doc(outer.body)
    if len(body) != 3:
        fail(outer, 'ReadLinesByKey: expected `buffer = defaultdict(str)`, one inner def, one return')
    init, inner, ret = body
    ok_init = (isinstance(init, ast.Assign) and len(init.targets) == 1 and isinstance(init.targets[0], ast.Name)
               and init.targets[0].id == 'buffer' and isinstance(init.value, ast.Call) and not init.value.keywords
               and len(init.value.args) == 1 and isinstance(init.value.args[0], ast.Name) and init.value.args[0].id == 'str')
    if ok_init:
        f = init.value.func
        if isinstance(f, ast.Subscript):
            f = f.value
        ok_init = isinstance(f, ast.Name) and f.id == 'defaultdict'
    if not ok_init:
        fail(init, 'ReadLinesByKey: buffer is not initialised as defaultdict(str)')
    if not (isinstance(inner, ast.FunctionDef) and not inner.decorator_list and arg_names(inner) == ['key', 's']):
        fail(inner, 'ReadLinesByKey: inner function is not `def f(key, s)`')
    if not (isinstance(ret, ast.Return) and isinstance(ret.value, ast.Name) and ret.value.id == inner.name):
        fail(ret, 'ReadLinesByKey: does not return the inner function')
    fn = Fn('read_lines_by_key', [('key', 'pykey'), ('s', 'text')], {'callback': None}, {}, True)
    parts.append(fn.emit(inner, f'{PEEK_PLUGIN}: ReadLinesByKey(callback) -> {inner.name}(key, s); '
                                'buffer = defaultdict(str) starts empty ([])'))

    # ---- AssignKey
    outer = find_def(tp, 'AssignKey')
    if outer.decorator_list or arg_names(outer) != ['key_factory', 'callback']:
        fail(outer, 'AssignKey: signature changed')
    body = strip_doc(outer.body)
    if len(body) != 2:
        fail(outer, 'AssignKey: expected one inner def and one return')
    inner, ret = body
    if not (isinstance(inner, ast.FunctionDef) and not inner.decorator_list and arg_names(inner) == ['s']):
        fail(inner, 'AssignKey: inner function is not `def f(s)`')
    if not (isinstance(ret, ast.Return) and isinstance(ret.value, ast.Name) and ret.value.id == inner.name):
        fail(ret, 'AssignKey: does not return the inner function')
    fn = Fn('assign_key', [('s', 'text')], {'callback': None}, {'key_factory': 'pykey'}, False)
    parts.append(fn.emit(inner, f'{PEEK_PLUGIN}: AssignKey(key_factory, callback) -> {inner.name}(s)'))

    # ---- peek_textio.write
    outer = find_def(tu, 'peek_textio')
    inners = [n for n in strip_doc(outer.body) if isinstance(n, ast.FunctionDef)]
    if len(inners) != 1 or inners[0].name != 'write' or arg_names(inners[0], True) != ['s'] or inners[0].decorator_list:
        fail(outer, 'peek_textio: expected exactly one inner `def write(s, /)`')
    import copy
    shell = copy.deepcopy(outer)
    for n in shell.body:
        if isinstance(n, ast.FunctionDef):
            n.body = [ast.Pass()]
    pin(shell, PIN_PEEK_TEXTIO, 'peek_textio')
    fn = Fn('peek_write', [('s', 'text')], {'callback': None, 'org_write': None}, {}, False)
    parts.append(fn.emit(inners[0], f'{PEEK_UTIL}: peek_textio(textio, callback) -> write(s); org_write = textio.write '
                                    '(the value returned by org_write is returned unchanged and not modelled)'))

    # ---- pinned wiring
    pin(find_def(tp, 'peek_stdout_by_key'), PIN_PEEK_STDOUT_BY_KEY, 'peek_stdout_by_key')
    pin(find_def(tu, 'peek_stdout'), PIN_PEEK_STDOUT, 'peek_stdout')
    pin(find_def(tp, 'context', 'PeekStdout'), PIN_CONTEXT, 'PeekStdout.context')
    pin(find_def(tp, '_key_factory', 'PeekStdout'), PIN_KEY_FACTORY, 'PeekStdout._key_factory')
    pin(find_def(tp, '_callback', 'PeekStdout'), PIN_CALLBACK, 'PeekStdout._callback')
    pin(find_def(tr, 'on_write_stdout', 'Repeater'), PIN_ON_WRITE_STDOUT, 'Repeater.on_write_stdout')

    # ---- the debugger's stream and the main-process registrar
    ts = ast.parse((repo / 'nextline/spawned/plugin/plugins/pdb_/stream.py').read_text())
    tf = ast.parse((repo / 'nextline/spawned/plugin/plugins/pdb_/factory.py').read_text())
    tc = ast.parse((repo / 'nextline/spawned/plugin/plugins/pdb_/custom.py').read_text())
    tg = ast.parse((repo / 'nextline/plugin/plugins/registrars/stdout.py').read_text())
    pin_any(find_any_def(ts, 'write', cls='StdInOut'), PIN_STDINOUT_WRITE, 'StdInOut.write')
    pin_any(find_any_def(tf, '_factory', outer='Factory'), PIN_PDB_FACTORY, 'pdb_/factory.py:Factory._factory')
    init = find_any_def(tc, '__init__', cls='CustomizedPdb')
    if not init.body or ast.dump(init.body[0], annotate_fields=False) != ast.dump(ast.parse(PIN_PDB_INIT_SUPER).body[0], annotate_fields=False):
        raise Untranslatable('CustomizedPdb.__init__ no longer passes its private stdin/stdout to Pdb first')
    pin_any(find_any_def(tg, 'on_write_stdout', cls='StdoutRegistrar'), PIN_REGISTRAR, 'StdoutRegistrar.on_write_stdout')

    header = (
        '(** GENERATED by translate/purefuns_peek.py -- do not edit.\n'
        f'    Transcription of ReadLinesByKey / AssignKey ({PEEK_PLUGIN})\n'
        f'    and of peek_textio.write ({PEEK_UTIL}).\n'
        '    `W` is the rest of the world (whatever the callbacks act on); a callback\n'
        '    f(a, b) is a state transformer `f a b : W -> W`.  Vocabulary: Stdout/Prim.v. *)\n'
        'From NL Require Import Stdout.Prim.\n'
        'Open Scope Z_scope.\n'
        '\n'
    )
    return header + '\n'.join(parts)


if __name__ == '__main__':
    import sys
    print(translate(Path(sys.argv[1] if len(sys.argv) > 1 else '/repo')))
