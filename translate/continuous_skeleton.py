"""Fail-closed translator: nextline/continuous.py + the call sites in nextline/main.py
-> Gen/ContinuousSkel.v  (checked by coq/theories/Life/ContTie.v, property C16)

A GENUINE TRANSLATION of every method of `Continue` and `Continuous` and of the methods of
`Nextline` that start/close/use the non-interactive mode into the statement AST of
coq/theories/Life/ContSyntax.v:

  * assignments to `self._n_requests` (`=`, `+=`, `-=`) with the arithmetic expression translated;
    assignments to `self._closed`, `self._run_started`, `Nextline._started/_closed` with the boolean
    expression translated (constants, comparisons of integer expressions, not/and/or, the tracked
    attributes, `_REQUESTING.get() is self`);
  * `await self._pubsub_enabled.publish(<bool expr>)`, `.aclose()`; register / unregister of the plugin;
    `_REQUESTING.set(plugin)` / `.reset(token)`; `yield`; bare `raise`; `return`;
  * the control structure: `if/else`, `try / except <Exception|BaseException> / finally`,
    `async with self._requested()`, `async with AsyncExitStack() as stack`,
    `await stack.enter_async_context(self._nextline.run_session())`;
  * calls of translated methods (`await self.disable()`, `await self._continuous.close()`, ...) and the awaits of
    `Imp` (`aopen/aclose/run/wait`), whose duration and outcome belong to the environment.

Ignored (the shared rule for ignored positions): docstrings, comments, `pass`, `logger = getLogger(__name__)`,
`logger.<level>(...)` whose arguments contain no call / walrus / await / yield / lambda and mention no `self`, `context`
or tracked local; type annotations.  PINNED by their exact text (ast.unparse): `self._nextline = nextline`,
`self._continuous = continuous`, `started = started or asyncio.Event()`; the statements of `Nextline.__init__`
other than the tracked assignments; the bodies and decorators of `Nextline.register / unregister / continuous_enabled /
subscribe_continuous_enabled / __aenter__ / __aexit__`.  The accessors `Continuous.enabled` (a property) and
`subscribe_enabled` and `Continuous.__aenter__/__aexit__` are translated like every other method.

Fail closed: any other statement (asserts included), expression, decorator, default argument value, *args/**kwargs,
handler class, extra method or class-level statement of the two classes, class bases/decorators (`Continue`,
`Continuous`, `Nextline`), any other module-level statement of continuous.py or main.py (re-binding or monkeypatching
a translated name included), `__eq__/__hash__/__bool__/__len__/__enter__/__exit__/__post_init__/__getattr__/...` in
`Nextline`, any other mention of `_continuous` / `_started` / `_closed` or store to a translated method name /
setattr / __dict__ in a method of `Nextline`: all raise SkelError, which `./check C16` reports as a broken tie
obligation.
"""
from __future__ import annotations

import ast
import sys
from pathlib import Path

OUTPUT = 'ContinuousSkel.v'
SRC = 'nextline/continuous.py'
SRC_MAIN = 'nextline/main.py'


class SkelError(Exception):
    pass


def norm(node) -> str:
    return ast.unparse(node).strip()


def is_self_attr(node, attr: str) -> bool:
    return (isinstance(node, ast.Attribute) and node.attr == attr
            and isinstance(node.value, ast.Name) and node.value.id == 'self')


def strip_doc(body):
    if body and isinstance(body[0], ast.Expr) and isinstance(body[0].value, ast.Constant) \
            and isinstance(body[0].value.value, str):
        return body[1:]
    return body


def seq(items: list[str]) -> str:
    items = [i for i in items if i is not None]
    if not items:
        return 'Skip'
    if len(items) == 1:
        return items[0]
    return f'(Seq {items[0]}\n {seq(items[1:])})'


CMP = {ast.Gt: 'CGt', ast.GtE: 'CGe', ast.Lt: 'CLt', ast.LtE: 'CLe', ast.Eq: 'CEq', ast.NotEq: 'CNe'}

# awaited calls -> statement, per class (normalised source of the call expression)
AWAIT_CALLS = {
    'Continuous': {
        'self._pubsub_enabled.aclose()': 'CloseItem',
        'self.disable()': '(CallM MDisable)',
        'self.start()': '(CallM MStart)',
        'self.close()': '(CallM MClose)',
        'self._nextline.run()': '(CallM MNlRun)',
        'stack.enter_async_context(self._nextline.run_session())': '(EnterCtxOf MNlRunSession)',
    },
    'Continue': {
        "context.nextline.send_pdb_command(command='continue', prompt_no=event.prompt_no, trace_no=event.trace_no)":
            'SendContinue',
        'self._continuous.disable()': '(CallM MDisable)',
    },
    'Nextline': {
        'self._continuous.start()': '(CallM MStart)',
        'self._continuous.close()': '(CallM MClose)',
        'self._continuous.run_and_continue()': '(CallM MRunAndContinue)',
        'self._continuous.run_continue_and_wait(started)': '(CallM MRunContinueAndWait)',
        'self.start()': '(CallM MNlStart)',
        'self._imp.aopen()': '(Await CImpOpen)',
        'self._imp.aclose()': '(Await CImpClose)',
        'self._imp.run()': '(Await CImpRun)',
        'self._imp.wait()': '(Await CImpWait)',
    },
}
# plain (not awaited) call statements
PLAIN_CALLS = {
    'Continuous': {
        'self._nextline.register(plugin=plugin)': '(Register PLocal)',
        'self._nextline.unregister(plugin=plugin)': '(Unregister PLocal)',
        '_REQUESTING.reset(token)': 'CtxReset',
        'started.set()': 'EventSet',
    },
    'Continue': {
        'context.nextline.unregister(plugin=self)': '(Unregister PSelf)',
    },
    'Nextline': {},
}
# assignments (normalised source) that are tracked as a fixed leaf / ignored (None)
ASSIGNS = {
    'Continuous': {
        'self._pubsub_enabled = PubSubItem[bool]()': 'NewItem',
        'plugin = Continue(continuous=self)': 'NewPlugin',
        'token = _REQUESTING.set(plugin)': 'CtxSet',
        'self._nextline = nextline': None,
    },
    'Continue': {
        'self._continuous = continuous': None,
    },
    'Nextline': {
        'started = started or asyncio.Event()': None,
    },
}
IGNORED_STMTS = {'logger = getLogger(__name__)', 'pass'}
LOG_LEVELS = {'debug', 'info', 'warning', 'error', 'exception', 'critical'}
TRACKED_NAMES = {'self', 'context', 'event', 'plugin', 'token', 'stack', 'started', 'nextline', 'continuous', '_REQUESTING'}


class Tr:
    """translator of the statements of one class"""

    def __init__(self, cls: str, where: str):
        self.cls = cls
        self.where = where

    def err(self, node, msg):
        raise SkelError(f'{self.where}:{getattr(node, "lineno", "?")}: {msg}')

    # ---- expressions
    def iexpr(self, e) -> str:
        if isinstance(e, ast.Constant) and type(e.value) is int:
            return f'(INum {e.value})' if e.value >= 0 else f'(INum ({e.value}))'
        if isinstance(e, ast.UnaryOp) and isinstance(e.op, ast.USub) and isinstance(e.operand, ast.Constant) \
                and type(e.operand.value) is int:
            return f'(INum (-{e.operand.value}))'
        if self.cls == 'Continuous' and is_self_attr(e, '_n_requests'):
            return 'ICounter'
        if isinstance(e, ast.BinOp) and isinstance(e.op, (ast.Add, ast.Sub)):
            op = 'IAdd' if isinstance(e.op, ast.Add) else 'ISub'
            return f'({op} {self.iexpr(e.left)} {self.iexpr(e.right)})'
        self.err(e, f'integer expression `{norm(e)}` not recognised')

    def is_iexpr(self, e) -> bool:
        try:
            self.iexpr(e)
            return True
        except SkelError:
            return False

    def bexpr(self, e) -> str:
        if isinstance(e, ast.Constant) and type(e.value) is bool:
            return f'(BConst {"true" if e.value else "false"})'
        if isinstance(e, ast.UnaryOp) and isinstance(e.op, ast.Not):
            return f'(BNot {self.bexpr(e.operand)})'
        if isinstance(e, ast.BoolOp):
            op = 'BAnd' if isinstance(e.op, ast.And) else 'BOr'
            xs = [self.bexpr(v) for v in e.values]
            out = xs[-1]
            for x in reversed(xs[:-1]):
                out = f'({op} {x} {out})'
            return out
        if isinstance(e, ast.Compare) and len(e.ops) == 1:
            if self.cls == 'Continue' and isinstance(e.ops[0], (ast.Is, ast.IsNot)):
                sides = {norm(e.left), norm(e.comparators[0])}
                if sides == {'_REQUESTING.get()', 'self'}:
                    return 'BRequestingIsSelf' if isinstance(e.ops[0], ast.Is) else '(BNot BRequestingIsSelf)'
            if type(e.ops[0]) in CMP:
                a, b = self.iexpr(e.left), self.iexpr(e.comparators[0])
                if isinstance(e.ops[0], ast.Lt):            # normal form: `a < b` is `b > a`, `a <= b` is `b >= a`
                    return f'(BCmp CGt {b} {a})'
                if isinstance(e.ops[0], ast.LtE):
                    return f'(BCmp CGe {b} {a})'
                return f'(BCmp {CMP[type(e.ops[0])]} {a} {b})'
        if self.cls == 'Continuous' and is_self_attr(e, '_closed'):
            return 'BClosed'
        if self.cls == 'Continue' and is_self_attr(e, '_run_started'):
            return 'BRunStarted'
        if self.cls == 'Nextline' and is_self_attr(e, '_started'):
            return 'BNlStarted'
        if self.cls == 'Nextline' and is_self_attr(e, '_closed'):
            return 'BNlClosed'
        if self.is_iexpr(e):        # truthiness of an integer
            return f'(BCmp CNe {self.iexpr(e)} (INum 0))'
        self.err(e, f'boolean expression `{norm(e)}` not recognised')

    # ---- statements
    def body(self, stmts) -> str:
        return seq([self.stmt(s) for s in strip_doc(stmts)])

    def stmt_is_logging(self, st) -> bool:
        """`logger = getLogger(__name__)` or a logging call whose arguments have no effect and mention no parameter
        other than by formatting plain names that are not tracked"""
        if norm(st) in IGNORED_STMTS:
            return True
        if isinstance(st, ast.Expr) and isinstance(st.value, ast.Call) and isinstance(st.value.func, ast.Attribute) \
                and isinstance(st.value.func.value, ast.Name) and st.value.func.value.id == 'logger':
            return self.stmt(st) is None
        return False

    def stmt(self, st) -> str | None:
        s = norm(st)
        if s in IGNORED_STMTS:
            return None
        if isinstance(st, ast.Expr) and isinstance(st.value, ast.Constant) and isinstance(st.value.value, str):
            return None                                         # a stray string literal
        if isinstance(st, ast.Expr) and isinstance(st.value, ast.Call) and isinstance(st.value.func, ast.Attribute) \
                and isinstance(st.value.func.value, ast.Name) and st.value.func.value.id == 'logger' \
                and st.value.func.attr in LOG_LEVELS:
            # the shared rule for ignored positions: the arguments contain no call, walrus, await, yield, lambda and
            # do not mention self / context / a tracked local or parameter
            for a in list(st.value.args) + [k.value for k in st.value.keywords]:
                for n in ast.walk(a):
                    if isinstance(n, (ast.Call, ast.Await, ast.Yield, ast.YieldFrom, ast.NamedExpr, ast.Lambda)):
                        self.err(st, f'logging call whose argument contains `{norm(n)}`')
                    if isinstance(n, ast.Name) and n.id in TRACKED_NAMES:
                        self.err(st, f'logging call whose argument mentions `{n.id}`')
            return None
        if isinstance(st, ast.If):
            return f'(If {self.bexpr(st.test)}\n {self.body(st.body)}\n {self.body(st.orelse)})'
        if isinstance(st, ast.Try):
            if st.orelse:
                self.err(st, 'try ... else')
            if len(st.handlers) > 1:
                self.err(st, 'try with more than one handler')
            hc, hb = 'None', 'Skip'
            if st.handlers:
                h = st.handlers[0]
                if h.type is None or norm(h.type) == 'BaseException':
                    hc = '(Some HBaseException)'
                elif norm(h.type) == 'Exception':
                    hc = '(Some HException)'
                else:
                    self.err(h, f'handler for `{norm(h.type)}` not recognised')
                hb = self.body(h.body)
            return f'(Try {self.body(st.body)}\n {hc} {hb}\n {self.body(st.finalbody)})'
        if isinstance(st, ast.AsyncWith):
            if len(st.items) != 1:
                self.err(st, 'async with of several items')
            it = st.items[0]
            ce = norm(it.context_expr)
            if self.cls == 'Continuous' and ce == 'self._requested()' and it.optional_vars is None:
                return f'(WithRequested {self.body(st.body)})'
            if self.cls == 'Continuous' and ce == 'AsyncExitStack()' and it.optional_vars is not None \
                    and norm(it.optional_vars) == 'stack':
                return f'(WithExitStack {self.body(st.body)})'
            self.err(st, f'`async with {ce}` not recognised')
        if isinstance(st, ast.Return):
            if st.value is None or norm(st.value) == 'self':
                return 'Return'
            if self.cls == 'Continuous' and norm(st.value) == 'self._pubsub_enabled.latest()':
                return 'ReturnLatest'
            if self.cls == 'Continuous' and norm(st.value) == 'self._pubsub_enabled.subscribe()':
                return 'ReturnSubscribe'
            self.err(st, f'`{s}` not recognised')
        if isinstance(st, ast.Raise):
            if st.exc is None and st.cause is None:
                return 'Raise'
            self.err(st, f'`{s}` not recognised')
        if isinstance(st, ast.Expr) and isinstance(st.value, ast.Yield):
            if st.value.value is None or norm(st.value.value) == 'self':
                return 'Yield'
            self.err(st, f'`{s}` not recognised')
        if isinstance(st, ast.AugAssign):
            if self.cls == 'Continuous' and is_self_attr(st.target, '_n_requests') and isinstance(st.op, (ast.Add, ast.Sub)):
                op = 'IAdd' if isinstance(st.op, ast.Add) else 'ISub'
                return f'(SetCounter ({op} ICounter {self.iexpr(st.value)}))'
            self.err(st, f'`{s}` not recognised')
        if isinstance(st, (ast.Assign, ast.AnnAssign)):
            if s in ASSIGNS[self.cls]:
                return ASSIGNS[self.cls][s]
            tgt = st.targets[0] if isinstance(st, ast.Assign) and len(st.targets) == 1 else \
                (st.target if isinstance(st, ast.AnnAssign) else None)
            val = st.value
            if tgt is not None and val is not None:
                if self.cls == 'Continuous' and is_self_attr(tgt, '_n_requests'):
                    return f'(SetCounter {self.iexpr(val)})'
                if self.cls == 'Continuous' and is_self_attr(tgt, '_closed'):
                    return f'(SetClosed {self.bexpr(val)})'
                if self.cls == 'Continue' and is_self_attr(tgt, '_run_started'):
                    return f'(SetRunStarted {self.bexpr(val)})'
                if self.cls == 'Nextline' and is_self_attr(tgt, '_started'):
                    return f'(SetNlStarted {self.bexpr(val)})'
                if self.cls == 'Nextline' and is_self_attr(tgt, '_closed'):
                    return f'(SetNlClosed {self.bexpr(val)})'
            self.err(st, f'assignment `{s}` not recognised')
        if isinstance(st, ast.Expr) and isinstance(st.value, ast.Await):
            c = st.value.value
            cs = norm(c)
            if cs in AWAIT_CALLS[self.cls]:
                return AWAIT_CALLS[self.cls][cs]
            if self.cls == 'Continuous' and isinstance(c, ast.Call) and norm(c.func) == 'self._pubsub_enabled.publish' \
                    and len(c.args) == 1 and not c.keywords:
                return f'(Publish {self.bexpr(c.args[0])})'
            self.err(st, f'`{s}` not recognised')
        if isinstance(st, ast.Expr) and isinstance(st.value, ast.Call):
            if s in PLAIN_CALLS[self.cls]:
                return PLAIN_CALLS[self.cls][s]
            self.err(st, f'`{s}` not recognised')
        self.err(st, f'statement `{s.splitlines()[0]}` not recognised')


def find_class(tree, name):
    xs = [n for n in tree.body if isinstance(n, ast.ClassDef) and n.name == name]
    if len(xs) != 1:
        raise SkelError(f'expected exactly one class {name}')
    return xs[0]


def methods(cls) -> dict:
    out = {}
    for n in cls.body:
        if isinstance(n, (ast.FunctionDef, ast.AsyncFunctionDef)):
            if n.name in out:
                raise SkelError(f'{cls.name}.{n.name} defined twice')
            out[n.name] = n
    return out


def decorators(fn) -> list[str]:
    return [norm(d) for d in fn.decorator_list]


def argnames(fn) -> list[str]:
    a = fn.args
    return [x.arg for x in a.posonlyargs + a.args + a.kwonlyargs]


def count_yields(fn) -> int:
    return sum(isinstance(n, (ast.Yield, ast.YieldFrom)) for n in ast.walk(fn))


# (class, python name) -> (Coq name, meth constructor, async?, decorators, arguments)
CONTINUOUS = [
    ('__init__', 'continuous_init', 'MInit', False, [], ['self', 'nextline']),
    ('start', 'continuous_start', 'MStart', True, [], ['self']),
    ('close', 'continuous_close', 'MClose', True, [], ['self']),
    ('run_and_continue', 'continuous_run_and_continue', 'MRunAndContinue', True, [], ['self']),
    ('run_continue_and_wait', 'continuous_run_continue_and_wait', 'MRunContinueAndWait', True, [], ['self', 'started']),
    ('_requested', 'continuous_requested', 'MRequested', True, ['asynccontextmanager'], ['self']),
    ('disable', 'continuous_disable', 'MDisable', True, [], ['self']),
    ('__aenter__', 'continuous_aenter', 'MAenter', True, [], ['self']),
    ('__aexit__', 'continuous_aexit', 'MAexit', True, [], ['self']),
    ('enabled', 'continuous_enabled', 'MEnabled', False, ['property'], ['self']),
    ('subscribe_enabled', 'continuous_subscribe_enabled', 'MSubscribeEnabled', False, [], ['self']),
]
# methods that may take *args / **kwargs (ignored by their bodies)
VARARGS_OK = {('Continuous', '__aexit__'): ('_', '__')}
# the only default argument value among the translated methods
DEFAULTS_OK = {('Nextline', 'run_continue_and_wait'): ['None']}
CONTINUE = [
    ('__init__', 'continue_init', 'MCInit', False, [], ['self', 'continuous']),
    ('on_start_run', 'continue_on_start_run', 'MOnStartRun', True, ['hookimpl'], ['self']),
    ('on_start_prompt', 'continue_on_start_prompt', 'MOnStartPrompt', True, ['hookimpl'], ['self', 'context', 'event']),
    ('on_finished', 'continue_on_finished', 'MOnFinished', True, ['hookimpl'], ['self', 'context']),
]
NEXTLINE = [
    ('start', 'nextline_start', 'MNlStart', True, [], ['self']),
    ('close', 'nextline_close', 'MNlClose', True, [], ['self']),
    ('run', 'nextline_run', 'MNlRun', True, [], ['self']),
    ('run_session', 'nextline_run_session', 'MNlRunSession', True, ['asynccontextmanager'], ['self']),
    ('run_and_continue', 'nextline_run_and_continue', 'MNlRunAndContinue', True, [], ['self']),
    ('run_continue_and_wait', 'nextline_run_continue_and_wait', 'MNlRunContinueAndWait', True, [], ['self', 'started']),
]
NEXTLINE_PINNED = {
    'register': 'return self._imp.register(plugin)',
    'unregister': 'return self._imp.unregister(plugin=plugin, name=name)',
    'continuous_enabled': 'return self._continuous.enabled',
    'subscribe_continuous_enabled': 'return self._continuous.subscribe_enabled()',
}
NEXTLINE_PINNED_DECOS = {'continuous_enabled': ['property']}
NEXTLINE_PINNED.update({
    '__aenter__': 'await self.start()\nreturn self',
    '__aexit__': 'await asyncio.wait_for(self.close(), timeout=self._timeout_on_exit)',
})
NEXTLINE_WORDS = ('_continuous', '_started', '_closed')
# statements of Nextline.__init__ besides the tracked ones (pins: compared after ast.unparse)
NEXTLINE_INIT_PINNED = {
    'self._init_options = InitOptions(statement=statement, run_no_start_from=run_no_start_from, '
    'trace_threads=trace_threads, trace_modules=trace_modules)',
    'self._timeout_on_exit = timeout_on_exit',
    'self._imp = Imp(nextline=self, init_options=self._init_options)',
}
FORBIDDEN_DUNDERS = {'__enter__', '__exit__', '__bool__', '__len__', '__eq__', '__hash__', '__post_init__', '__getattr__',
                     '__getattribute__', '__setattr__', '__init_subclass__', '__new__'}
TRANSLATED_NAMES = {'Nextline', 'Continuous', 'Continue', '_REQUESTING'}


def check_main_module(mtree) -> None:
    """module level of main.py: imports, docstring, the class; nothing may rebind or monkeypatch a translated name"""
    for n in mtree.body:
        if isinstance(n, (ast.Import, ast.ImportFrom)):
            for a in n.names:
                if (a.asname or a.name.split('.')[0]) in TRANSLATED_NAMES and not \
                        (isinstance(n, ast.ImportFrom) and n.module == 'continuous' and n.level == 1 and a.name == 'Continuous'
                         and a.asname is None):
                    raise SkelError(f'{SRC_MAIN}:{n.lineno}: import rebinding `{a.asname or a.name}`')
            continue
        if isinstance(n, ast.Expr) and isinstance(n.value, ast.Constant) and isinstance(n.value.value, str):
            continue
        if isinstance(n, ast.ClassDef) and n.name == 'Nextline':
            continue
        raise SkelError(f'{SRC_MAIN}:{n.lineno}: module-level statement `{norm(n).splitlines()[0]}` not recognised')


def translate_methods(cls_node, cls_name: str, table, src: str) -> list[tuple[str, str, str]]:
    ms = methods(cls_node)
    out = []
    for py, coq, con, is_async, decos, args in table:
        if py not in ms:
            raise SkelError(f'{src}: {cls_name}.{py} not found')
        fn = ms[py]
        where = f'{src}:{cls_name}.{py}'
        if isinstance(fn, ast.AsyncFunctionDef) != is_async:
            raise SkelError(f'{where}: expected {"async def" if is_async else "def"}')
        if decorators(fn) != decos:
            raise SkelError(f'{where}: decorators {decorators(fn)}, expected {decos}')
        va = (fn.args.vararg.arg if fn.args.vararg else None, fn.args.kwarg.arg if fn.args.kwarg else None)
        if argnames(fn) != args or va != VARARGS_OK.get((cls_name, py), (None, None)):
            raise SkelError(f'{where}: arguments {argnames(fn)} {va}, expected {args}')
        dfl = [norm(d) for d in fn.args.defaults + [d for d in fn.args.kw_defaults if d is not None]]
        if dfl != DEFAULTS_OK.get((cls_name, py), []):
            raise SkelError(f'{where}: default argument values {dfl}')
        ny = count_yields(fn)
        if ny != (1 if 'asynccontextmanager' in decos else 0):
            raise SkelError(f'{where}: {ny} yield expression(s)')
        out.append((coq, con, Tr(cls_name, where).body(fn.body)))
    return out


def skeleton(repo: Path) -> list[tuple[str, str, str]]:
    p = repo / SRC
    pm = repo / SRC_MAIN
    for q in (p, pm):
        if not q.exists():
            raise SkelError(f'{q} not found')
    tree = ast.parse(p.read_text())
    # ---- module level of continuous.py: imports, TYPE_CHECKING block, the ContextVar, the two classes
    n_var = 0
    for n in tree.body:
        if isinstance(n, (ast.Import, ast.ImportFrom)):
            continue
        if isinstance(n, ast.Expr) and isinstance(n.value, ast.Constant) and isinstance(n.value.value, str):
            continue
        if isinstance(n, ast.If) and norm(n.test) == 'TYPE_CHECKING' and not n.orelse \
                and all(isinstance(x, (ast.Import, ast.ImportFrom)) for x in n.body):
            continue
        if isinstance(n, ast.ClassDef) and n.name in ('Continue', 'Continuous'):
            if n.bases or n.keywords or n.decorator_list:
                raise SkelError(f'{SRC}: class {n.name} with bases/decorators')
            continue
        if isinstance(n, (ast.Assign, ast.AnnAssign)):
            tgt = n.targets[0] if isinstance(n, ast.Assign) and len(n.targets) == 1 else getattr(n, 'target', None)
            if tgt is not None and norm(tgt) == '_REQUESTING' and n.value is not None \
                    and norm(n.value) == "ContextVar('_REQUESTING', default=None)":
                n_var += 1
                continue
        raise SkelError(f'{SRC}:{n.lineno}: module-level statement `{norm(n).splitlines()[0]}` not recognised')
    if n_var != 1:
        raise SkelError(f"{SRC}: expected exactly one `_REQUESTING = ContextVar('_REQUESTING', default=None)`")
    res = []
    # ---- Continuous
    cont = find_class(tree, 'Continuous')
    res += translate_methods(cont, 'Continuous', CONTINUOUS, SRC)
    known = {t[0] for t in CONTINUOUS}
    for name, fn in methods(cont).items():
        if name not in known:
            raise SkelError(f'{SRC}: Continuous.{name}: method not modelled')
    for n in cont.body:
        if not isinstance(n, (ast.FunctionDef, ast.AsyncFunctionDef)) and not \
                (isinstance(n, ast.Expr) and isinstance(n.value, ast.Constant)):
            raise SkelError(f'{SRC}: Continuous: class-level statement `{norm(n).splitlines()[0]}`')
    # ---- Continue
    cnt = find_class(tree, 'Continue')
    res += translate_methods(cnt, 'Continue', CONTINUE, SRC)
    for name in methods(cnt):
        if name not in {t[0] for t in CONTINUE}:
            raise SkelError(f'{SRC}: Continue.{name}: method not modelled')
    for n in cnt.body:
        if not isinstance(n, (ast.FunctionDef, ast.AsyncFunctionDef)) and not \
                (isinstance(n, ast.Expr) and isinstance(n.value, ast.Constant)):
            raise SkelError(f'{SRC}: Continue: class-level statement `{norm(n).splitlines()[0]}`')
    # ---- Nextline (main.py)
    mtree = ast.parse(pm.read_text())
    check_main_module(mtree)
    nl = find_class(mtree, 'Nextline')
    if nl.bases or nl.keywords or nl.decorator_list:
        raise SkelError(f'{SRC_MAIN}: class Nextline with bases/decorators')
    for n in nl.body:
        if isinstance(n, (ast.FunctionDef, ast.AsyncFunctionDef)):
            if n.name in FORBIDDEN_DUNDERS:
                raise SkelError(f'{SRC_MAIN}: Nextline.{n.name}: not modelled')
            continue
        if isinstance(n, ast.Expr) and isinstance(n.value, ast.Constant) and isinstance(n.value.value, str):
            continue
        if isinstance(n, ast.AnnAssign) and n.value is None:
            continue
        raise SkelError(f'{SRC_MAIN}: Nextline: class-level statement `{norm(n).splitlines()[0]}`')
    res += translate_methods(nl, 'Nextline', NEXTLINE, SRC_MAIN)
    nms = methods(nl)
    # __init__: the tracked assignments only; nothing else there may mention the tracked attributes
    if '__init__' not in nms:
        raise SkelError(f'{SRC_MAIN}: Nextline.__init__ not found')
    init_items = []
    n_cont = 0
    tr = Tr('Nextline', f'{SRC_MAIN}:Nextline.__init__')
    for st in strip_doc(nms['__init__'].body):
        s = norm(st)
        if s == 'self._continuous = Continuous(self)':
            n_cont += 1
            continue
        if isinstance(st, ast.Assign) and len(st.targets) == 1 and \
                (is_self_attr(st.targets[0], '_started') or is_self_attr(st.targets[0], '_closed')):
            init_items.append(tr.stmt(st))
            continue
        if s in NEXTLINE_INIT_PINNED:
            continue
        if tr.stmt_is_logging(st):
            continue
        raise SkelError(f'{SRC_MAIN}:Nextline.__init__:{st.lineno}: statement `{s.splitlines()[0]}` not recognised')
    if n_cont != 1:
        raise SkelError(f'{SRC_MAIN}: Nextline.__init__: expected exactly one `self._continuous = Continuous(self)`')
    res.append(('nextline_init', 'MNlInit', seq(init_items)))
    translated = {t[0] for t in NEXTLINE} | {'__init__'}
    for name, fn in nms.items():
        if name in translated:
            continue
        if name in NEXTLINE_PINNED:
            b = '\n'.join(norm(x) for x in strip_doc(fn.body))
            if b != NEXTLINE_PINNED[name]:
                raise SkelError(f'{SRC_MAIN}: Nextline.{name}: body {b!r}, expected {NEXTLINE_PINNED[name]!r}')
            if decorators(fn) != NEXTLINE_PINNED_DECOS.get(name, []):
                raise SkelError(f'{SRC_MAIN}: Nextline.{name}: decorators {decorators(fn)}')
            continue
        for n in ast.walk(fn):
            if isinstance(n, ast.Attribute) and n.attr in NEXTLINE_WORDS:
                raise SkelError(f'{SRC_MAIN}: Nextline.{name} touches `{n.attr}` (not modelled)')
            if isinstance(n, ast.Attribute) and isinstance(n.ctx, (ast.Store, ast.Del)) and \
                    n.attr in translated | set(NEXTLINE_PINNED):
                raise SkelError(f'{SRC_MAIN}: Nextline.{name} rebinds `{n.attr}`')
            if isinstance(n, ast.Call) and norm(n.func) in ('setattr', 'delattr', 'vars') or \
                    (isinstance(n, ast.Attribute) and n.attr == '__dict__'):
                raise SkelError(f'{SRC_MAIN}: Nextline.{name} uses setattr/delattr/vars/__dict__')
    return res


def translate(repo: Path) -> str:
    sk = skeleton(Path(repo))
    L = [
        '(** GENERATED by translate/continuous_skeleton.py from',
        f'    {SRC} and {SRC_MAIN} (ast, CPython {sys.version_info[0]}.{sys.version_info[1]}) -- do not edit.',
        '    The methods of Continue, Continuous and the call sites in Nextline, translated into the',
        '    statement AST of Life/ContSyntax.v. *)',
        'From Coq Require Import List ZArith Bool.',
        'From NL Require Import Life.ContSyntax.',
        'Import ListNotations.',
        'Open Scope Z_scope.',
        '',
    ]
    for coq, _con, body in sk:
        L.append(f'Definition {coq} : stmt :=\n {body}.')
        L.append('')
    L.append('Definition resolve (m : meth) : stmt :=')
    L.append('  match m with')
    for coq, con, _ in sk:
        L.append(f'  | {con} => {coq}')
    L.append('  end.')
    L.append('')
    L.append("(** `_REQUESTING = ContextVar('_REQUESTING', default=None)` at module level *)")
    L.append('Definition requesting_default_none : bool := true.')
    L.append('')
    return '\n'.join(L)


if __name__ == '__main__':
    print(translate(Path(sys.argv[1] if len(sys.argv) > 1 else '/repo')))
