"""Fail-closed translator: the `filter` hook of the spawned child
   nextline/spawned/plugin/plugins/__init__.py  (registration order, per trace_modules)
   nextline/spawned/plugin/plugins/filter.py    (each filter's decision function, trylast markers)
   nextline/spawned/plugin/plugins/global_.py   (GlobalTraceFunc: truthy result = rejected)
   nextline/spawned/plugin/spec.py              (filter is a firstresult hook)
   nextline/spawned/plugin/plugins/_script.py   (the script module name)
-> coq/theories/Gen/ChildHookOrder.v

The three stateless filters are transcribed from their ast into functions of an observation of the
frame (obs: code name is '<lambda>', module is the script module, module matches the skip list).
The stateful FilerByModule.filter is modelled by hand in Bdb/Model.v; its ast is pinned here by a
digest, so any edit of it breaks the translator (and the check reports a broken tie)."""
from __future__ import annotations

import ast
import hashlib
from pathlib import Path

OUTPUT = 'ChildHookOrder.v'

# ast.dump digest of FilerByModule (whole class) the hand-written model in Bdb/Model.v was read from
FILER_BY_MODULE_DIGEST = None      # filled below (computed from the pinned text)

PINNED_FILER_BY_MODULE = '''
class FilerByModule:
    def __init__(self) -> None:
        self._modules_to_trace = set[str]()
        self._first_module_added = False
        self._entering_thread: Optional[Thread] = None
        self._traced_tasks_and_threads = set[Task | Thread]()
        self._logger = getLogger(__name__)

    @hookimpl
    def init(self, hook: PluginManager) -> None:
        self._hook = hook

    @hookimpl
    @contextmanager
    def context(self) -> Iterator[None]:
        self._entering_thread = threading.current_thread()
        msg = f'{self.__class__.__name__}: entering thread {self._entering_thread}'
        self._logger.info(msg)
        yield

    @hookimpl(trylast=True)
    def filter(self, trace_args: TraceArgs) -> bool | None:
        if not self._first_module_added:
            if self._entering_thread == threading.current_thread():
                self._add(trace_args)
                self._first_module_added = True
        task_or_thread = current_task_or_thread()
        if task_or_thread in self._traced_tasks_and_threads:
            return None
        if self._to_trace(trace_args):
            self._traced_tasks_and_threads.add(task_or_thread)
            return None
        return True

    @hookimpl
    @contextmanager
    def on_cmdloop(self) -> Generator[None, str, None]:
        trace_args = self._hook.hook.current_trace_args()
        self._add(trace_args)
        yield

    def _add(self, trace_args: TraceArgs) -> None:
        frame, _, _ = trace_args
        module_name = frame.f_globals.get('__name__')
        if module_name is None:
            return
        if module_name in self._modules_to_trace:
            return
        self._modules_to_trace.add(module_name)
        msg = f'{self.__class__.__name__}: added {module_name!r}'
        self._logger.info(msg)

    def _to_trace(self, trace_args: TraceArgs) -> bool:
        frame, _, _ = trace_args
        module_name = frame.f_globals.get('__name__')
        return match_any(module_name, self._modules_to_trace)
'''


class Unsupported(Exception):
    pass


def _strip_docstrings(node):
    for n in ast.walk(node):
        if isinstance(n, (ast.FunctionDef, ast.ClassDef, ast.AsyncFunctionDef)):
            if n.body and isinstance(n.body[0], ast.Expr) and isinstance(n.body[0].value, ast.Constant) and isinstance(n.body[0].value.value, str):
                n.body = n.body[1:] or [ast.Pass()]
    return node


def _digest(cls: ast.ClassDef) -> str:
    return hashlib.sha1(ast.dump(_strip_docstrings(cls)).encode()).hexdigest()


def _hookimpl_info(fn) -> tuple[bool, bool]:
    """(is hookimpl, trylast)"""
    for d in fn.decorator_list:
        if isinstance(d, ast.Name) and d.id == 'hookimpl':
            return True, False
        if isinstance(d, ast.Call) and isinstance(d.func, ast.Name) and d.func.id == 'hookimpl':
            kw = {k.arg: k.value for k in d.keywords}
            extra = set(kw) - {'trylast'}
            if extra or d.args:
                raise Unsupported(f'filter.py:{fn.lineno}: hookimpl options {sorted(extra)} are not modelled')
            tl = kw.get('trylast')
            if tl is not None and not (isinstance(tl, ast.Constant) and isinstance(tl.value, bool)):
                raise Unsupported(f'filter.py:{fn.lineno}: trylast is not a literal')
            return True, bool(tl.value) if tl is not None else False
    return False, False


def _register_order(src: str) -> tuple[list[str], list[str]]:
    """registration order of ALL plugins when run_arg.trace_modules is (False, True)"""
    tree = ast.parse(src)
    fn = [n for n in tree.body if isinstance(n, ast.FunctionDef) and n.name == 'register']
    if len(fn) != 1:
        raise Unsupported('plugins/__init__.py: expected exactly one def register')

    def reg_name(st):
        ok = (isinstance(st, ast.Expr) and isinstance(st.value, ast.Call) and isinstance(st.value.func, ast.Attribute)
              and st.value.func.attr == 'register' and isinstance(st.value.func.value, ast.Name) and st.value.func.value.id == 'hook'
              and len(st.value.args) == 1 and isinstance(st.value.args[0], ast.Name) and not st.value.keywords)
        if not ok:
            raise Unsupported(f'plugins/__init__.py:{st.lineno}: statement other than hook.register(<Name>)')
        return st.value.args[0].id

    off: list[str] = []
    on: list[str] = []
    seen_if = False
    for st in fn[0].body:
        if isinstance(st, ast.If):
            t = st.test
            if seen_if or not (isinstance(t, ast.Attribute) and t.attr == 'trace_modules' and isinstance(t.value, ast.Name) and t.value.id == 'run_arg'):
                raise Unsupported(f'plugins/__init__.py:{st.lineno}: condition other than `run_arg.trace_modules`')
            seen_if = True
            on += [reg_name(s) for s in st.body]
            off += [reg_name(s) for s in st.orelse]
        else:
            n = reg_name(st)
            on.append(n)
            off.append(n)
    for lst in (on, off):
        if len(set(lst)) != len(lst):
            raise Unsupported('a plugin is registered twice')
    return off, on


def _is(node, dump: str) -> bool:
    return ast.dump(node) == ast.dump(ast.parse(dump, mode='eval').body)


def _decision(cls: ast.ClassDef, fn: ast.FunctionDef) -> str:
    """Gallina term of type obs -> option bool for a stateless filter"""
    env: dict = {}          # local name -> observation kind: 'frame' | 'co_name' | 'module' | 'skipmatch'
    body = list(fn.body)
    if body and isinstance(body[0], ast.Expr) and isinstance(body[0].value, ast.Constant):
        body = body[1:]
    where = f'filter.py:{cls.name}.filter'

    def obs_of(e) -> str:
        """boolean observation denoted by expression e"""
        if isinstance(e, ast.Compare) and len(e.ops) == 1 and isinstance(e.ops[0], ast.Eq):
            l, r = e.left, e.comparators[0]
            for a, b in ((l, r), (r, l)):
                if isinstance(a, ast.Name) and env.get(a.id) == 'co_name' and isinstance(b, ast.Constant) and b.value == '<lambda>':
                    return 'o_lambda o'
                if isinstance(a, ast.Name) and env.get(a.id) == 'module' and _is(b, '_script.__name__'):
                    return 'o_script o'
            raise Unsupported(f'{where}:{e.lineno}: comparison not understood')
        if isinstance(e, ast.Name) and env.get(e.id) == 'skipmatch':
            return 'o_skip o'
        raise Unsupported(f'{where}:{e.lineno}: condition not understood')

    def ret(e) -> str:
        if isinstance(e, ast.Constant) and e.value in (True, False, None):
            return {True: 'Some true', False: 'Some false', None: 'None'}[e.value]
        if isinstance(e, ast.BoolOp) and isinstance(e.op, ast.Or) and len(e.values) == 2 and isinstance(e.values[1], ast.Constant) and e.values[1].value is None:
            return f'(if {obs_of(e.values[0])} then Some true else None)'        # `b or None` for a bool b
        raise Unsupported(f'{where}:{e.lineno}: return value not understood')

    def block(sts) -> str:
        if not sts:
            return 'None'               # falling off the end returns None
        st = sts[0]
        if isinstance(st, ast.Assign) and len(st.targets) == 1 and isinstance(st.targets[0], ast.Name):
            v = st.value
            name = st.targets[0].id
            if _is(v, 'trace_args[0]'):
                env[name] = 'frame'
            elif isinstance(v, ast.Attribute) and v.attr == 'co_name' and isinstance(v.value, ast.Attribute) and v.value.attr == 'f_code' \
                    and isinstance(v.value.value, ast.Name) and env.get(v.value.value.id) == 'frame':
                env[name] = 'co_name'
            elif isinstance(v, ast.Call) and isinstance(v.func, ast.Attribute) and v.func.attr == 'get' and isinstance(v.func.value, ast.Attribute) \
                    and v.func.value.attr == 'f_globals' and isinstance(v.func.value.value, ast.Name) and env.get(v.func.value.value.id) == 'frame' \
                    and len(v.args) == 1 and isinstance(v.args[0], ast.Constant) and v.args[0].value == '__name__':
                env[name] = 'module'
            elif isinstance(v, ast.Call) and _is(v.func, 'self._match_any_') and len(v.args) == 1 and isinstance(v.args[0], ast.Name) \
                    and env.get(v.args[0].id) == 'module':
                _check_match_any(cls)
                env[name] = 'skipmatch'
            else:
                raise Unsupported(f'{where}:{st.lineno}: assignment not understood')
            return block(sts[1:])
        if isinstance(st, ast.Return):
            if len(sts) != 1:
                raise Unsupported(f'{where}:{st.lineno}: code after return')
            return ret(st.value) if st.value is not None else 'None'
        if isinstance(st, ast.If) and not st.orelse:
            return f'(if {obs_of(st.test)} then {block(st.body)} else {block(sts[1:])})'
        raise Unsupported(f'{where}:{st.lineno}: statement {type(st).__name__} not understood')

    return block(body)


def _check_match_any(cls: ast.ClassDef) -> None:
    """self._match_any_ = lru_cache(partial(match_any, patterns=modules_to_skip)) in init(self, modules_to_skip)"""
    init = [f for f in cls.body if isinstance(f, ast.FunctionDef) and f.name == 'init']
    if len(init) != 1 or [a.arg for a in init[0].args.args] != ['self', 'modules_to_skip']:
        raise Unsupported('filter.py: FilterByModuleName.init(self, modules_to_skip)')
    want = ast.dump(ast.parse('self._match_any_ = lru_cache(partial(match_any, patterns=modules_to_skip))').body[0])
    if not any(ast.dump(st) == want for st in init[0].body):
        raise Unsupported('filter.py: _match_any_ is not lru_cache(partial(match_any, patterns=modules_to_skip))')


def info(repo: Path) -> dict:
    base = repo / 'nextline' / 'spawned' / 'plugin'
    off, on = _register_order((base / 'plugins' / '__init__.py').read_text())
    # which registered classes implement `filter`
    impl: dict = {}
    for p in sorted((base / 'plugins').rglob('*.py')):
        tree = ast.parse(p.read_text())
        for cls in tree.body:
            if not isinstance(cls, ast.ClassDef):
                continue
            for fn in cls.body:
                if isinstance(fn, ast.FunctionDef) and fn.name == 'filter':
                    is_impl, trylast = _hookimpl_info(fn)
                    if is_impl:
                        if p.name != 'filter.py':
                            raise Unsupported(f'{p}: a `filter` hook implementation outside filter.py')
                        impl[cls.name] = (cls, fn, trylast)
    for name in impl:
        if name not in on and name not in off:
            raise Unsupported(f'filter class {name} is never registered')
    # spec: firstresult
    spec = ast.parse((base / 'spec.py').read_text())
    fs = [n for n in spec.body if isinstance(n, ast.FunctionDef) and n.name == 'filter']
    if len(fs) != 1 or not any(ast.dump(d) == ast.dump(ast.parse('hookspec(firstresult=True)', mode='eval').body) for d in fs[0].decorator_list):
        raise Unsupported('spec.py: filter is not declared hookspec(firstresult=True)')
    # GlobalTraceFunc: a truthy filter result rejects
    g = ast.parse((base / 'plugins' / 'global_.py').read_text())
    gc = [n for n in g.body if isinstance(n, ast.ClassDef) and n.name == 'GlobalTraceFunc']
    if len(gc) != 1:
        raise Unsupported('global_.py: class GlobalTraceFunc')
    gf = [f for f in gc[0].body if isinstance(f, ast.FunctionDef) and f.name == 'global_trace_func']
    want = ast.parse('''
def global_trace_func(self, frame, event, arg):
    if self._hook.hook.filter(trace_args=(frame, event, arg)):
        return None
    self._hook.hook.filtered(trace_args=(frame, event, arg))
    return self._hook.hook.local_trace_func(frame=frame, event=event, arg=arg)
''').body[0]
    if len(gf) != 1 or [ast.dump(s) for s in gf[0].body] != [ast.dump(s) for s in want.body]:
        raise Unsupported('global_.py: GlobalTraceFunc.global_trace_func has changed')
    # the stateful filter is pinned
    decisions = {}
    for name, (cls, fn, trylast) in impl.items():
        if name == 'FilerByModule':
            pinned = [n for n in ast.parse(PINNED_FILER_BY_MODULE).body if isinstance(n, ast.ClassDef)][0]
            if _digest(cls) != _digest(pinned):
                raise Unsupported('filter.py: FilerByModule differs from the text the model in Bdb/Model.v was written from')
        else:
            decisions[name] = _decision(cls, fn)
    # script module name
    if not (base / 'plugins' / '_script.py').exists():
        raise Unsupported('_script.py not found')
    ftree = ast.parse((base / 'plugins' / 'filter.py').read_text())
    if not any(isinstance(n, ast.ImportFrom) and n.level == 1 and n.module is None and any(a.name == '_script' and a.asname is None for a in n.names)
               for n in ftree.body):
        raise Unsupported('filter.py: `from . import _script`')
    return {
        'off': [(n, impl[n][2]) for n in off if n in impl],
        'on': [(n, impl[n][2]) for n in on if n in impl],
        'decisions': decisions,
        'script_module': 'nextline.spawned.plugin.plugins._script',
        'all': sorted(impl),
    }


KNOWN = ['FilterLambda', 'FilterMainScript', 'FilterByModuleName', 'FilerByModule']


def translate(repo: Path) -> str:
    d = info(repo)
    for n in d['all']:
        if n not in KNOWN:
            raise Unsupported(f'unknown filter class {n}')
    for n in KNOWN:
        if n not in d['all']:
            raise Unsupported(f'filter class {n} not found')

    def regs(lst):
        return '[' + '; '.join(f'({n}, {"true" if tl else "false"})' for n, tl in lst) + ']'

    L = ['(** GENERATED by translate/hook_order_child.py from nextline/spawned/plugin/plugins/__init__.py,',
         '    filter.py, global_.py, spec.py -- do not edit. *)',
         'From Coq Require Import String List Bool.', 'Import ListNotations.', '',
         '(** classes implementing the firstresult hook `filter` *)',
         'Inductive fname := ' + ' | '.join(KNOWN) + '.', '',
         '(** what a stateless filter looks at: frame.f_code.co_name == "<lambda>",',
         '    frame.f_globals.get("__name__") == _script.__name__, match_any(module_name, modules_to_skip) *)',
         'Record obs := mkObs { o_lambda : bool; o_script : bool; o_skip : bool }.', '',
         '(** hook.register order of the filter plugins with their trylast marker, run_arg.trace_modules false / true *)',
         f'Definition reg_modules_off : list (fname * bool) := {regs(d["off"])}.',
         f'Definition reg_modules_on : list (fname * bool) := {regs(d["on"])}.', '',
         '(** the module name given to the script (plugins/_script.py: globals_ = {"__name__": __name__}) *)',
         f'Definition script_module : string := "{d["script_module"]}"%string.', '',
         '(** decision functions: Some true = reject, Some false = accept, None = pass to the next implementation *)']
    for n in KNOWN:
        if n in d['decisions']:
            L.append(f'Definition dec_{n} (o : obs) : option bool := {d["decisions"][n]}.')
    L.append('')
    return '\n'.join(L)


if __name__ == '__main__':
    print(translate(Path('/repo')))
