"""Fail-closed translator for the event relay (C10) -> Gen/RelaySkel.v

Translates with `ast` (no pinned source strings: expressions and statements are parsed by shape)

  nextline/plugin/plugins/session/session.py
      RunSession.run        -> session_prog      (position of _on_start_run / _on_end_run relative to the
                                                  `async with relay_events(...)` block, spawn, await of the process)
      _on_start_run/_on_end_run -> on_start_run_prog / on_end_run_prog (the hook each awaits)
      relay_events          -> relay_prog        (Timer, create_task(_monitor), try/yield/finally: in_finally, restart,
                                                  the drain loop with its condition / sleep(0) / timeout break,
                                                  sentinel put, await task -- in the order of the source)
      relay_events._monitor -> monitor_prog      (the loop: condition `(event := await to_thread(queue.get)) is not None`,
                                                  the hook awaited in the body, `if in_finally: timer.restart()`)
  nextline/plugin/plugins/session/monitor.py
      OnEvent.on_event_in_process -> dispatch    (event class -> the hook AWAITED for it)
  nextline/utils/timer.py   Timer                -> timer_init / timer_restart / timer_elapsed / timer_is_timeout
  nextline/utils/queue.py   wait_until_queue_empty -> wait_until_queue_empty_prog, wait_default_timeout
  nextline/spawned/__init__.py  set_queues, main -> set_queues_out_pos, child_main_prog
  nextline/spawned/**, nextline/utils/**         -> child_cancel_join_thread_calls (must stay 0: multiprocessing joins the
                                                  feeder thread of a Queue at exit unless cancel_join_thread() was called)

into terms of coq/theories/Relay/Syntax.v.  coq/theories/Relay/Tie.v interprets them.

Fail closed.  Inside a translated function every statement must be RECOGNISED (translated into a term) or be
  * a logging statement: `logger.<level>(...)`, `getLogger(..).<level>(...)`, `logger = getLogger(...)`, whose
    arguments contain no Call / NamedExpr / Await / Yield;
  * `pass`;
  * one of the statements listed, per function, in DROPPED_* below (compared after `ast.unparse`: a PIN of statements
    known to have no effect on the relay; any other statement -- in particular one with a call, or one that mentions
    `context`, `event`, a queue, the task or the timer -- is refused);
`assert <test without Call/Await>` is translated (SAssert / CAssert: it may raise), any other assert is refused.
Classes: bases, decorators, default arguments and members other than the expected ones are refused; so is module-level
code that is not an import, a def/class, a docstring or a plain literal assignment to a name that is not translated.
Anything refused raises RelayError and `./check C10` reports a broken tie obligation.
"""
from __future__ import annotations

import ast
import sys
from pathlib import Path

OUTPUT = 'RelaySkel.v'
SRC_SESSION = 'nextline/plugin/plugins/session/session.py'
SRC_MONITOR = 'nextline/plugin/plugins/session/monitor.py'
SRC_TIMER = 'nextline/utils/timer.py'
SRC_QUEUE = 'nextline/utils/queue.py'
SRC_SPAWNED = 'nextline/spawned/__init__.py'
SRC_RUNNER = 'nextline/spawned/runner.py'
CHILD_DIRS = ('nextline/spawned', 'nextline/utils')


class RelayError(Exception):
    pass


# statements known to have no effect on the relay; dropped (PINNED by their normalised text, per function)
DROPPED_SESSION = {
    'context.exited_process = None',
    "mp_context = mp.get_context('spawn')",
    'queue_in = cast(QueueIn, mp_context.Queue())',
    'context.send_command = SendCommand(queue_in)',
    'context.open_prompts.clear()',
    'if context.exited_process.returned is None:\n    context.exited_process.returned = RunResult()',
    'if context.exited_process.raised:\n    logger = getLogger(__name__)\n    logger.exception(context.exited_process.raised)',
}
DROPPED_HOOKFN = {
    'event = events.OnStartRun(started_at=process.process_created_at, run_no=run_arg.run_no, statement=run_arg.statement)',
    'run_result = process.returned or RunResult()',
    "event = events.OnEndRun(ended_at=process.process_exited_at, run_no=run_arg.run_no, returned=run_result.fmt_ret or json.dumps(None), "
    "raised=run_result.fmt_exc or '')",
}
DROPPED_RELAY: set = set()
DROPPED_CHILD = {'traceback.print_exc()'}
SRC_EVENTS = 'nextline/events.py'
TRANSLATED_NAMES = {'RunSession', 'relay_events', '_on_start_run', '_on_end_run', 'OnEvent', 'Timer', 'wait_until_queue_empty',
                    'set_queues', 'main', 'run', 'hookimpl', 'partial', 'cast', 'asyncio', 'spawned', 'events', 'Event'}

CONTROL = (ast.Await, ast.Yield, ast.YieldFrom, ast.Return, ast.Raise, ast.Break, ast.Continue, ast.FunctionDef,
           ast.AsyncFunctionDef, ast.ClassDef, ast.Lambda, ast.Global, ast.Nonlocal, ast.While, ast.For, ast.AsyncFor,
           ast.With, ast.AsyncWith, ast.Try, ast.Match, ast.Delete, ast.Import, ast.ImportFrom)


# ---------------------------------------------------------------- generic helpers

def norm(node) -> str:
    return ast.unparse(node).strip()


def where(fn: str, st) -> str:
    return f'{fn}:{getattr(st, "lineno", "?")}'


def strip_doc(body):
    if body and isinstance(body[0], ast.Expr) and isinstance(body[0].value, ast.Constant) and isinstance(body[0].value.value, str):
        return body[1:]
    return body


def idents(node) -> set[str]:
    out = set()
    for n in ast.walk(node):
        if isinstance(n, ast.Name):
            out.add(n.id)
        elif isinstance(n, ast.Attribute):
            out.add(n.attr)
        elif isinstance(n, ast.arg):
            out.add(n.arg)
        elif isinstance(n, ast.keyword) and n.arg:
            pass        # keyword NAMES of calls are not references
    return out


def has_control(node) -> bool:
    return any(isinstance(n, CONTROL) for n in ast.walk(node))


def _pure_args(call) -> bool:
    for a in list(call.args) + [k.value for k in call.keywords]:
        if any(isinstance(n, (ast.Call, ast.NamedExpr, ast.Await, ast.Yield, ast.YieldFrom, ast.Lambda)) for n in ast.walk(a)):
            return False
    return True


def _is_getlogger(n) -> bool:
    return isinstance(n, ast.Call) and is_name(n.func, 'getLogger') and _pure_args(n)


def is_logging(st) -> bool:
    """`logger.xxx(...)`, `getLogger(..).xxx(...)` or `logger = getLogger(...)`; arguments without calls"""
    if isinstance(st, ast.Expr) and isinstance(st.value, ast.Call):
        f = st.value.func
        if isinstance(f, ast.Attribute) and f.attr in ('debug', 'info', 'warning', 'error', 'exception', 'critical') \
                and (is_name(f.value, 'logger') or _is_getlogger(f.value)):
            return _pure_args(st.value)
        return False
    if isinstance(st, ast.Assign) and len(st.targets) == 1 and is_name(st.targets[0], 'logger'):
        return _is_getlogger(st.value)
    return False


def is_plain_assert(st) -> bool:
    return isinstance(st, ast.Assert) and st.msg is None and \
        not any(isinstance(n, (ast.Call, ast.Await, ast.Yield, ast.YieldFrom, ast.Lambda)) for n in ast.walk(st.test))


def ignorable(st, dropped: set) -> bool:
    return is_logging(st) or isinstance(st, ast.Pass) or norm(st) in dropped


def check_module_level(tree, rel: str) -> None:
    """imports, defs, classes, docstrings and literal assignments to names that are not translated: nothing that
    could rebind or patch a translated name"""
    for st in tree.body:
        if isinstance(st, (ast.Import, ast.ImportFrom, ast.ClassDef, ast.FunctionDef, ast.AsyncFunctionDef)):
            continue
        if isinstance(st, ast.Expr) and isinstance(st.value, ast.Constant) and isinstance(st.value.value, str):
            continue
        tgt = None
        if isinstance(st, ast.Assign) and len(st.targets) == 1:
            tgt, val = st.targets[0], st.value
        elif isinstance(st, ast.AnnAssign):
            tgt, val = st.target, st.value
        if isinstance(tgt, ast.Name) and tgt.id not in TRANSLATED_NAMES and \
                (val is None or not any(isinstance(n, (ast.Call, ast.NamedExpr, ast.Lambda, ast.Await)) for n in ast.walk(val))):
            continue
        raise RelayError(f'{rel}:{st.lineno}: module-level statement `{norm(st).splitlines()[0]}` not recognised')
    defs = [st.name for st in tree.body if isinstance(st, (ast.ClassDef, ast.FunctionDef, ast.AsyncFunctionDef))]
    for d in set(defs):
        if defs.count(d) > 1 and d in TRANSLATED_NAMES:
            raise RelayError(f'{rel}: `{d}` defined more than once')


def no_defaults(fn, what: str) -> None:
    if fn.args.defaults or any(d is not None for d in fn.args.kw_defaults):
        raise RelayError(f'{what}: default argument values')


def seq(items: list[str]) -> str:
    items = [i for i in items if i]
    if not items:
        return 'SSkip'
    if len(items) == 1:
        return items[0]
    return f'(SSeq {items[0]} {seq(items[1:])})'


def find(body, kind, name, what=''):
    xs = [n for n in body if isinstance(n, kind) and n.name == name]
    if len(xs) != 1:
        raise RelayError(f'{what}: expected exactly one {kind.__name__} `{name}`, found {len(xs)}')
    return xs[0]


def argnames(fn) -> list[str]:
    a = fn.args
    if a.vararg or a.kwarg or a.posonlyargs:
        raise RelayError(f'{fn.name}: *args/**kwargs/positional-only parameters')
    return [x.arg for x in a.args] + [x.arg for x in a.kwonlyargs]


def is_name(n, s: str) -> bool:
    return isinstance(n, ast.Name) and n.id == s


def is_attr_chain(n, chain: list[str]) -> bool:
    """n is a.b.c with chain == ['a','b','c']"""
    for part in reversed(chain[1:]):
        if not (isinstance(n, ast.Attribute) and n.attr == part):
            return False
        n = n.value
    return is_name(n, chain[0])


def is_call(n, chain: list[str]):
    return isinstance(n, ast.Call) and is_attr_chain(n.func, chain)


def is_const(n, v) -> bool:
    return isinstance(n, ast.Constant) and n.value is v


def tmo_of(n, fn: str, params: set[str] = frozenset()) -> str:
    if is_const(n, None):
        return 'TmoNone'
    if isinstance(n, ast.Constant) and type(n.value) is int and 0 <= n.value <= 3600:
        return f'(TmoSecs {n.value})'
    if isinstance(n, ast.Name) and n.id in params and n.id == 'timeout':
        return 'TmoArg'
    raise RelayError(f'{fn}: Timer timeout `{norm(n)}` is neither None nor a small integer literal nor the parameter `timeout`')


def timer_ctor(n, fn: str, params=frozenset()):
    """Timer(timeout=X) / Timer(X) -> tmo"""
    if not (isinstance(n, ast.Call) and is_name(n.func, 'Timer')):
        return None
    if len(n.args) + len(n.keywords) != 1:
        raise RelayError(f'{fn}: Timer(...) with other than one argument')
    if n.args:
        return tmo_of(n.args[0], fn, params)
    if n.keywords[0].arg != 'timeout':
        raise RelayError(f'{fn}: Timer({n.keywords[0].arg}=...)')
    return tmo_of(n.keywords[0].value, fn, params)


# ---------------------------------------------------------------- expressions of the relay

class RelayScope:
    def __init__(self, queue: str):
        self.queue = queue          # the name of the QueueOut parameter of relay_events


def is_to_thread(n, sc: RelayScope, meth: str, extra_none: bool):
    """asyncio.to_thread(queue.<meth>[, None])"""
    if not is_call(n, ['asyncio', 'to_thread']) or n.keywords:
        return False
    want = 2 if extra_none else 1
    if len(n.args) != want or not is_attr_chain(n.args[0], [sc.queue, meth]):
        return False
    return not extra_none or is_const(n.args[1], None)


def tr_vexp(n, sc: RelayScope, fn: str) -> str:
    if isinstance(n, ast.NamedExpr):
        if is_name(n.target, 'event') and isinstance(n.value, ast.Await) and is_to_thread(n.value.value, sc, 'get', False):
            return 'VGetEvent'
        raise RelayError(f'{fn}: walrus `{norm(n)}` is not `event := await asyncio.to_thread({sc.queue}.get)`')
    if is_name(n, 'event'):
        return 'VEvent'
    raise RelayError(f'{fn}: value expression `{norm(n)}` not recognised')


def tr_bexp(n, sc: RelayScope, fn: str) -> str:
    if isinstance(n, ast.UnaryOp) and isinstance(n.op, ast.Not):
        return f'(BNot {tr_bexp(n.operand, sc, fn)})'
    if isinstance(n, ast.Compare) and len(n.ops) == 1 and is_const(n.comparators[0], None):
        if isinstance(n.ops[0], ast.IsNot):
            return f'(BIsNotNone {tr_vexp(n.left, sc, fn)})'
        if isinstance(n.ops[0], ast.Is):
            return f'(BIsNone {tr_vexp(n.left, sc, fn)})'
    if isinstance(n, ast.Call) and not n.args and not n.keywords:
        if is_attr_chain(n.func, [sc.queue, 'empty']):
            return 'BQueueEmpty'
        if is_attr_chain(n.func, ['timer', 'is_timeout']):
            return 'BTimerIsTimeout'
    if is_name(n, 'in_finally'):
        return 'BInFinally'
    if isinstance(n, ast.Constant) and type(n.value) is bool:
        return f'(BConst {"true" if n.value else "false"})'
    raise RelayError(f'{fn}: condition `{norm(n)}` not recognised')


def hook_await(st, hook: str, event_kw: bool):
    """`await context.hook.ahook.<hook>(context=context, event=event)`"""
    if not (isinstance(st, ast.Expr) and isinstance(st.value, ast.Await)):
        return False
    c = st.value.value
    if not is_call(c, ['context', 'hook', 'ahook', hook]) or c.args:
        return False
    kws = {k.arg: k.value for k in c.keywords}
    if set(kws) != {'context', 'event'} or not is_name(kws['context'], 'context'):
        return False
    return is_name(kws['event'], 'event')


# ---------------------------------------------------------------- relay_events / _monitor

def tr_relay_body(body, sc: RelayScope, fn: str, st8: dict) -> str:
    out = []
    for st in strip_doc(body):
        out.append(tr_relay_stmt(st, sc, fn, st8))
    return seq(out)


def tr_relay_stmt(st, sc: RelayScope, fn: str, st8: dict) -> str:
    w = where(fn, st)
    inner = fn.endswith('_monitor')
    if isinstance(st, ast.Try):
        if st.handlers or st.orelse or not st.finalbody:
            raise RelayError(f'{w}: try statement other than try/finally')
        return f'(STry {tr_relay_body(st.body, sc, fn, st8)} {tr_relay_body(st.finalbody, sc, fn, st8)})'
    if isinstance(st, ast.While):
        if st.orelse:
            raise RelayError(f'{w}: while/else')
        return f'(SWhile {tr_bexp(st.test, sc, w)} {tr_relay_body(st.body, sc, fn, st8)})'
    if isinstance(st, ast.If):
        try:
            c = tr_bexp(st.test, sc, w)
        except RelayError:
            if ignorable(st, DROPPED_RELAY):
                return ''
            raise
        return f'(SIf {c} {tr_relay_body(st.body, sc, fn, st8)} {tr_relay_body(st.orelse, sc, fn, st8)})'
    if isinstance(st, ast.Break):
        return 'SBreak'
    if isinstance(st, ast.AsyncFunctionDef):
        if inner or st.name != '_monitor' or argnames(st) or st.decorator_list:
            raise RelayError(f'{w}: nested coroutine other than `async def _monitor()`')
        if 'monitor' in st8:
            raise RelayError(f'{w}: `_monitor` defined twice')
        if st8.get('created'):
            raise RelayError(f'{w}: `_monitor` defined after the task was created')
        st8['monitor'] = tr_relay_body(st.body, sc, fn + '._monitor', st8)
        return ''
    if isinstance(st, ast.Expr):
        v = st.value
        if isinstance(v, ast.Yield):
            if inner or v.value is not None:
                raise RelayError(f'{w}: unexpected `{norm(st)}`')
            return 'SYield'
        if isinstance(v, ast.Await):
            a = v.value
            if isinstance(a, ast.Call) and is_attr_chain(a.func, ['asyncio', 'sleep']) and len(a.args) == 1 and not a.keywords \
                    and isinstance(a.args[0], ast.Constant) and a.args[0].value == 0 and type(a.args[0].value) in (int, float):
                return 'SAwaitSleep0'
            if is_to_thread(a, sc, 'put', True):
                return 'SAwaitPutNone'
            if is_name(a, 'task'):
                return 'SAwaitMonitor'
            if hook_await(st, 'on_event_in_process', True):
                return '(SAwaitHook HOnEventInProcess)'
            raise RelayError(f'{w}: await `{norm(st)}` not recognised')
        if isinstance(v, ast.Call) and is_attr_chain(v.func, ['timer', 'restart']) and not v.args and not v.keywords:
            return 'STimerRestart'
    if isinstance(st, ast.Assign) and len(st.targets) == 1 and isinstance(st.targets[0], ast.Name):
        t = st.targets[0].id
        v = st.value
        if t == 'in_finally' and isinstance(v, ast.Constant) and type(v.value) is bool:
            if inner:
                raise RelayError(f'{w}: `in_finally` assigned inside _monitor (it would be a local there)')
            return f'(SSetInFinally {"true" if v.value else "false"})'
        if t == 'timer':
            tm = timer_ctor(v, w)
            if tm is None or inner:
                raise RelayError(f'{w}: `{norm(st)}` not recognised')
            return f'(STimerNew {tm})'
        if t == 'task':
            ok = (is_call(v, ['asyncio', 'create_task']) and len(v.args) == 1 and not v.keywords
                  and isinstance(v.args[0], ast.Call) and is_name(v.args[0].func, '_monitor')
                  and not v.args[0].args and not v.args[0].keywords)
            if not ok or inner:
                raise RelayError(f'{w}: `{norm(st)}` is not `task = asyncio.create_task(_monitor())`')
            if 'monitor' not in st8:
                raise RelayError(f'{w}: task created before `_monitor` is defined')
            if st8.get('created'):
                raise RelayError(f'{w}: the monitor task is created twice')
            st8['created'] = True
            return 'SCreateMonitor'
        if t == 'event' and isinstance(v, ast.Await) and is_to_thread(v.value, sc, 'get', False):
            return '(SAssignEvent VGetEvent)'
    if ignorable(st, DROPPED_RELAY):
        return ''
    raise RelayError(f'{w}: statement `{norm(st).splitlines()[0]}` not recognised')


# ---------------------------------------------------------------- RunSession.run

def partial_args(n, chain: list[str], fn: str) -> list:
    """partial(<chain>, a, b, ...) -> [a, b, ...]"""
    if not (isinstance(n, ast.Call) and is_name(n.func, 'partial') and n.args and is_attr_chain(n.args[0], chain)) or n.keywords:
        raise RelayError(f'{fn}: `{norm(n)}` is not partial({".".join(chain)}, ...)')
    return n.args[1:]


def tr_session_body(body, fn: str, st8: dict) -> str:
    return seq([tr_session_stmt(st, fn, st8) for st in strip_doc(body)])


def tr_session_stmt(st, fn: str, st8: dict) -> str:
    w = where(fn, st)
    if isinstance(st, ast.Try):
        if st.handlers or st.orelse or not st.finalbody:
            raise RelayError(f'{w}: try statement other than try/finally')
        return f'(STry {tr_session_body(st.body, fn, st8)} {tr_session_body(st.finalbody, fn, st8)})'
    if isinstance(st, ast.AsyncWith):
        ok = len(st.items) == 1 and st.items[0].optional_vars is None
        c = st.items[0].context_expr if ok else None
        ok = ok and isinstance(c, ast.Call) and is_name(c.func, 'relay_events') and not c.keywords and len(c.args) == 2 \
            and is_name(c.args[0], 'context') and is_name(c.args[1], 'queue_out')
        if not ok:
            raise RelayError(f'{w}: `async with` other than `async with relay_events(context, queue_out):`')
        if 'queue_out' not in st8:
            raise RelayError(f'{w}: relay_events entered before queue_out is created')
        return f'(SWithRelay {tr_session_body(st.body, fn, st8)})'
    if isinstance(st, ast.Expr):
        v = st.value
        if isinstance(v, ast.Yield):
            if v.value is not None:
                raise RelayError(f'{w}: `{norm(st)}`')
            return 'SYield'
        if isinstance(v, ast.Await):
            a = v.value
            if isinstance(a, ast.Call) and is_name(a.func, '_on_start_run') and not a.keywords and len(a.args) == 2:
                return 'SCallStartRun'
            if isinstance(a, ast.Call) and is_name(a.func, '_on_end_run') and not a.keywords and len(a.args) == 2:
                return 'SCallEndRun'
            raise RelayError(f'{w}: await `{norm(st)}` not recognised')
    if isinstance(st, ast.Assign) and len(st.targets) == 1:
        t, v = st.targets[0], st.value
        if is_name(t, 'queue_out'):
            q = v
            if isinstance(q, ast.Call) and is_name(q.func, 'cast') and len(q.args) == 2 and not q.keywords:
                q = q.args[1]
            if not (is_call(q, ['mp_context', 'Queue']) and not q.args and not q.keywords):
                raise RelayError(f'{w}: `{norm(st)}` is not `queue_out = [cast(QueueOut, ]mp_context.Queue()[)]`')
            if 'queue_out' in st8:
                raise RelayError(f'{w}: queue_out assigned twice')
            st8['queue_out'] = True
            return 'SNewQueueOut'
        if is_attr_chain(t, ['context', 'running_process']):
            if is_const(v, None):
                return 'SSetRunningNone'
            if isinstance(v, ast.Await) and isinstance(v.value, ast.Call) and is_name(v.value.func, 'run_in_process') and not v.value.args:
                kws = {k.arg: k.value for k in v.value.keywords}
                if 'func' not in kws or 'initializer' not in kws:
                    raise RelayError(f'{w}: run_in_process(...) without func=/initializer=')
                partial_args(kws['func'], ['spawned', 'main'], w)
                ia = partial_args(kws['initializer'], ['spawned', 'set_queues'], w)
                pos = [i for i, x in enumerate(ia) if is_name(x, 'queue_out')]
                if len(pos) != 1:
                    raise RelayError(f'{w}: queue_out is not passed exactly once to spawned.set_queues')
                st8['session_out_pos'] = pos[0]
                return 'SAwaitSpawn'
            raise RelayError(f'{w}: `{norm(st)}` not recognised')
        if is_attr_chain(t, ['context', 'exited_process']) and isinstance(v, ast.Await):
            if is_attr_chain(v.value, ['context', 'running_process']):
                return 'SAwaitProcess'
            raise RelayError(f'{w}: `{norm(st)}` not recognised')
    if is_plain_assert(st):
        return 'SAssert'
    if ignorable(st, DROPPED_SESSION):
        return ''
    raise RelayError(f'{w}: statement `{norm(st).splitlines()[0]}` not recognised')


def tr_hook_fn(fn_node, hook: str, ctor: str) -> str:
    """_on_start_run / _on_end_run: asserts, pinned construction of the event, exactly one awaited hook call"""
    out = []
    n = 0
    for st in strip_doc(fn_node.body):
        if hook_await(st, hook, True):
            out.append(f'(SAwaitHook {ctor})')
            n += 1
        elif is_plain_assert(st):
            out.append('SAssert')
        elif ignorable(st, DROPPED_HOOKFN):
            continue
        else:
            raise RelayError(f'{where(fn_node.name, st)}: statement `{norm(st).splitlines()[0]}` not recognised')
    if n != 1:
        raise RelayError(f'{fn_node.name}: expected exactly one `await context.hook.ahook.{hook}(context=context, event=event)`')
    return seq(out)


# ---------------------------------------------------------------- monitor.py: dispatch

KEY = '(event.trace_no, event.prompt_no)'


def dispatch_table(tree) -> list[tuple[str, list[str]]]:
    """every statement of on_event_in_process is translated or refused: before the match only `ahook = context.hook.ahook`;
    in a case only the open_prompts update and ONE awaited `ahook.<name>(context=context, event=event)`; `case _`: logging"""
    cls = find(tree.body, ast.ClassDef, 'OnEvent', SRC_MONITOR)
    if cls.bases or cls.keywords or cls.decorator_list:
        raise RelayError('OnEvent: bases/decorators')
    members = strip_doc(cls.body)
    if len(members) != 1 or not isinstance(members[0], ast.AsyncFunctionDef) or members[0].name != 'on_event_in_process':
        raise RelayError('OnEvent: members other than `async def on_event_in_process`')
    f = members[0]
    if argnames(f) != ['self', 'context', 'event'] or [norm(d) for d in f.decorator_list] != ['hookimpl']:
        raise RelayError('on_event_in_process: parameters/decorators')
    no_defaults(f, 'on_event_in_process')
    body = strip_doc(f.body)
    if len(body) != 2 or not is_assign_ahook(body[0]) or not isinstance(body[1], ast.Match):
        raise RelayError('on_event_in_process: body is not `ahook = context.hook.ahook; match event: ...`')
    m = body[1]
    if not is_name(m.subject, 'event'):
        raise RelayError('on_event_in_process: match subject is not `event`')
    table = []
    default_seen = False
    for c in m.cases:
        pat = c.pattern
        if c.guard is not None:
            raise RelayError(f'on_event_in_process:{pat.lineno}: guarded case')
        if default_seen:
            raise RelayError(f'on_event_in_process:{pat.lineno}: case after `case _`')
        if isinstance(pat, ast.MatchAs) and pat.pattern is None and pat.name is None:
            default_seen = True
            for x in c.body:
                if not is_logging(x):
                    raise RelayError(f'{where("on_event_in_process", x)}: statement in `case _` is not logging')
            continue
        if not (isinstance(pat, ast.MatchClass) and isinstance(pat.cls, ast.Attribute) and is_name(pat.cls.value, 'events')
                and not pat.patterns and not pat.kwd_patterns):
            raise RelayError(f'on_event_in_process:{pat.lineno}: case pattern `{norm(pat)}` not recognised')
        stmts = []
        for x in c.body:
            w = where('on_event_in_process', x)
            if isinstance(x, ast.Expr) and isinstance(x.value, ast.Await):
                a = x.value.value
                ok = isinstance(a, ast.Call) and isinstance(a.func, ast.Attribute) and is_name(a.func.value, 'ahook') and not a.args
                kws = {k.arg: k.value for k in a.keywords} if ok else {}
                ok = ok and set(kws) == {'context', 'event'} and is_name(kws['context'], 'context') and is_name(kws['event'], 'event')
                if not ok:
                    raise RelayError(f'{w}: await `{norm(x)}` not recognised')
                stmts.append(f'DAwaitHook "{a.func.attr}"')
            elif norm(x) == f'context.open_prompts.add({KEY})':
                stmts.append('DOpenAdd')
            elif norm(x) == f'context.open_prompts.discard({KEY})':
                stmts.append('DOpenDiscard')
            else:
                raise RelayError(f'{w}: statement `{norm(x).splitlines()[0]}` not recognised')
        table.append((pat.cls.attr, stmts))
    return table


def is_assign_ahook(st) -> bool:
    return (isinstance(st, ast.Assign) and len(st.targets) == 1 and is_name(st.targets[0], 'ahook')
            and is_attr_chain(st.value, ['context', 'hook', 'ahook']))


def event_classes(repo: Path) -> dict:
    """classes of nextline/events.py derived from Event; which of them the child constructs (nextline/spawned/**) and which
    the main process constructs itself in session.py"""
    t = parse(repo, SRC_EVENTS)
    classes = []
    for st in t.body:
        if isinstance(st, ast.ClassDef) and [norm(b) for b in st.bases] == ['Event']:
            classes.append(st.name)
    if not classes:
        raise RelayError(f'{SRC_EVENTS}: no event classes')

    def constructed(tree) -> set[str]:
        out = set()
        for n in ast.walk(tree):
            if isinstance(n, ast.Call):
                f = n.func
                nm = f.id if isinstance(f, ast.Name) else f.attr if isinstance(f, ast.Attribute) else None
                if nm in classes:
                    out.add(nm)
        return out

    child = set()
    for p in sorted((repo / 'nextline/spawned').rglob('*.py')):
        child |= constructed(ast.parse(p.read_text()))
    main = constructed(parse(repo, SRC_SESSION))
    return {'all': classes, 'child': [c for c in classes if c in child], 'main': [c for c in classes if c in main]}


# ---------------------------------------------------------------- Timer

def tr_texp(n, fn: str) -> str:
    if is_call(n, ['time', 'perf_counter']) and not n.args and not n.keywords:
        return 'TNow'
    if is_attr_chain(n, ['self', '_start']):
        return 'TStart'
    if is_attr_chain(n, ['self', '_timeout']):
        return 'TTimeout'
    if is_call(n, ['self', 'elapsed']) and not n.args and not n.keywords:
        return 'TElapsed'
    if isinstance(n, ast.BinOp) and isinstance(n.op, ast.Sub):
        return f'(TSub {tr_texp(n.left, fn)} {tr_texp(n.right, fn)})'
    raise RelayError(f'{fn}: expression `{norm(n)}` not recognised')


CMPS = {ast.Gt: 'CGt', ast.GtE: 'CGe', ast.Lt: 'CLt', ast.LtE: 'CLe'}


def tr_timer_method(fn_node, params: list[str]) -> str:
    name = f'Timer.{fn_node.name}'
    if argnames(fn_node) != params:
        raise RelayError(f'{name}: parameters {argnames(fn_node)}')
    no_defaults(fn_node, name)
    out = []
    for st in strip_doc(fn_node.body):
        w = where(name, st)
        if isinstance(st, ast.Assign) and len(st.targets) == 1:
            t = st.targets[0]
            if is_attr_chain(t, ['self', '_timeout']) and is_name(st.value, 'timeout') and 'timeout' in params:
                out.append('TSetTimeoutArg')
                continue
            if is_attr_chain(t, ['self', '_start']):
                out.append(f'(TSetStart {tr_texp(st.value, w)})')
                continue
        if isinstance(st, ast.If) and not st.orelse and len(st.body) == 1 and isinstance(st.body[0], ast.Return):
            t = st.test
            r = st.body[0].value
            if isinstance(t, ast.Compare) and len(t.ops) == 1 and isinstance(t.ops[0], ast.Is) and is_attr_chain(t.left, ['self', '_timeout']) \
                    and is_const(t.comparators[0], None) and isinstance(r, ast.Constant) and type(r.value) is bool:
                out.append(f'(TIfTimeoutNoneReturn {"true" if r.value else "false"})')
                continue
        if isinstance(st, ast.Return) and st.value is not None:
            v = st.value
            if isinstance(v, ast.Compare) and len(v.ops) == 1 and type(v.ops[0]) in CMPS:
                out.append(f'(TReturnCmp {CMPS[type(v.ops[0])]} {tr_texp(v.left, w)} {tr_texp(v.comparators[0], w)})')
                continue
            out.append(f'(TReturnExp {tr_texp(v, w)})')
            continue
        raise RelayError(f'{w}: statement `{norm(st)}` not recognised')
    return '[' + '; '.join(out) + ']'


def timer_defs(tree) -> dict:
    cls = find(tree.body, ast.ClassDef, 'Timer', SRC_TIMER)
    if cls.bases or cls.keywords or cls.decorator_list:
        raise RelayError('Timer: bases/decorators')
    want = {'__init__': ['self', 'timeout'], 'restart': ['self'], 'elapsed': ['self'], 'is_timeout': ['self']}
    res = {}
    for st in strip_doc(cls.body):
        if isinstance(st, ast.FunctionDef) and st.name in want and not st.decorator_list:
            if st.name in res:
                raise RelayError(f'Timer.{st.name} defined twice')
            res[st.name] = tr_timer_method(st, want[st.name])
        else:
            raise RelayError(f'Timer:{getattr(st, "lineno", "?")}: member `{norm(st).splitlines()[0]}` not recognised')
    for k in want:
        if k not in res:
            raise RelayError(f'Timer.{k} missing')
    return res


# ---------------------------------------------------------------- wait_until_queue_empty

def tr_wait_body(body, sc: RelayScope, fn: str, params: set[str]) -> str:
    out = []
    for st in strip_doc(body):
        w = where(fn, st)
        if isinstance(st, ast.While):
            if st.orelse:
                raise RelayError(f'{w}: while/else')
            out.append(f'(SWhile {tr_bexp(st.test, sc, w)} {tr_wait_body(st.body, sc, fn, params)})')
        elif isinstance(st, ast.If):
            out.append(f'(SIf {tr_bexp(st.test, sc, w)} {tr_wait_body(st.body, sc, fn, params)} {tr_wait_body(st.orelse, sc, fn, params)})')
        elif isinstance(st, ast.Raise):
            out.append('SRaise')
        elif isinstance(st, ast.Break):
            out.append('SBreak')
        elif isinstance(st, ast.Assign) and len(st.targets) == 1 and is_name(st.targets[0], 'timer') and timer_ctor(st.value, w, params) is not None:
            out.append(f'(STimerNew {timer_ctor(st.value, w, params)})')
        elif isinstance(st, ast.Expr) and is_call(st.value, ['time', 'sleep']) and len(st.value.args) == 1 and not st.value.keywords \
                and is_name(st.value.args[0], 'interval'):
            out.append('SSleepInterval')
        else:
            raise RelayError(f'{w}: statement `{norm(st).splitlines()[0]}` not recognised')
    return seq(out)


def wait_defs(tree) -> dict:
    f = find(tree.body, ast.FunctionDef, 'wait_until_queue_empty', SRC_QUEUE)
    names = argnames(f)
    if f.decorator_list:
        raise RelayError('wait_until_queue_empty: decorators')
    if names != ['queue', 'timeout', 'interval'] or f.args.kwonlyargs:
        raise RelayError(f'wait_until_queue_empty: parameters {names}')
    defaults = f.args.defaults
    if len(defaults) != 2:
        raise RelayError('wait_until_queue_empty: defaults')
    return {'prog': tr_wait_body(f.body, RelayScope('queue'), 'wait_until_queue_empty', set(names)),
            'default': tmo_of(defaults[0], 'wait_until_queue_empty default')}


# ---------------------------------------------------------------- spawned: set_queues, main

def child_defs(tree, runner_tree, wait_default: str) -> dict:
    res = {}
    # imports: `run` from .runner, wait_until_queue_empty from nextline.utils
    imp = {}
    for st in tree.body:
        if isinstance(st, ast.ImportFrom):
            for a in st.names:
                imp[a.asname or a.name] = ('.' * st.level + (st.module or ''), a.name)
    if imp.get('run') != ('.runner', 'run'):
        raise RelayError(f'spawned: `run` is {imp.get("run")}, not `from .runner import run`')
    if imp.get('wait_until_queue_empty') not in (('nextline.utils', 'wait_until_queue_empty'), ('nextline.utils.queue', 'wait_until_queue_empty')):
        raise RelayError(f'spawned: `wait_until_queue_empty` is {imp.get("wait_until_queue_empty")}')
    rr = find(runner_tree.body, ast.FunctionDef, 'run', SRC_RUNNER)
    if argnames(rr)[:3] != ['run_arg', 'queue_in', 'queue_out']:
        raise RelayError(f'runner.run: parameters {argnames(rr)}')
    # set_queues
    sq = find(tree.body, ast.FunctionDef, 'set_queues', SRC_SPAWNED)
    params = argnames(sq)
    no_defaults(sq, 'set_queues')
    if sq.decorator_list:
        raise RelayError('set_queues: decorators')
    pos = None
    for st in strip_doc(sq.body):
        if isinstance(st, ast.Global):
            continue
        if isinstance(st, ast.Assign) and len(st.targets) == 1 and isinstance(st.targets[0], ast.Name) and isinstance(st.value, ast.Name) \
                and st.value.id in params:
            if st.targets[0].id == '_queue_out':
                if pos is not None:
                    raise RelayError('set_queues: _queue_out assigned twice')
                pos = params.index(st.value.id)
            continue
        raise RelayError(f'{where("set_queues", st)}: statement `{norm(st)}` not recognised')
    if pos is None:
        raise RelayError('set_queues: _queue_out is not assigned')
    glob = [n for st in sq.body if isinstance(st, ast.Global) for n in st.names]
    if '_queue_out' not in glob:
        raise RelayError('set_queues: _queue_out is not declared global')
    res['set_pos'] = pos
    # main
    mn = find(tree.body, ast.FunctionDef, 'main', SRC_SPAWNED)
    if argnames(mn) != ['run_arg'] or mn.decorator_list:
        raise RelayError('spawned.main: parameters/decorators')
    no_defaults(mn, 'spawned.main')

    def body(stmts) -> list[str]:
        out = []
        for st in strip_doc(stmts):
            w = where('spawned.main', st)
            if isinstance(st, ast.Try):
                if st.orelse or st.finalbody or len(st.handlers) != 1:
                    raise RelayError(f'{w}: try statement other than try/except BaseException: ...; raise')
                h = st.handlers[0]
                ok = h.type is not None and norm(h.type) == 'BaseException' and h.body and isinstance(h.body[-1], ast.Raise) \
                    and h.body[-1].exc is None and all(ignorable(x, DROPPED_CHILD) for x in h.body[:-1])
                if not ok:
                    raise RelayError(f'{w}: the handler does not re-raise')
                out += body(st.body)
            elif isinstance(st, ast.Assign) and len(st.targets) == 1 and is_name(st.targets[0], 'ret') and isinstance(st.value, ast.Call) \
                    and is_name(st.value.func, 'run'):
                c = st.value
                if c.keywords or len(c.args) != 3 or not is_name(c.args[2], '_queue_out'):
                    raise RelayError(f'{w}: `{norm(st)}` does not pass _queue_out as the third argument of run()')
                out.append('CRunScript')
            elif isinstance(st, ast.Expr) and isinstance(st.value, ast.Call) and is_name(st.value.func, 'wait_until_queue_empty'):
                c = st.value
                kws = {k.arg: k.value for k in c.keywords}
                if c.args or not set(kws) <= {'queue', 'timeout'} or 'queue' not in kws or not is_name(kws['queue'], '_queue_out'):
                    raise RelayError(f'{w}: `{norm(st)}` is not wait_until_queue_empty(queue=_queue_out[, timeout=..])')
                t = tmo_of(kws['timeout'], w) if 'timeout' in kws else wait_default
                out.append(f'(CWaitQueueEmpty {t})')
            elif isinstance(st, ast.Return):
                if not is_name(st.value, 'ret'):
                    raise RelayError(f'{w}: `{norm(st)}` is not `return ret`')
                out.append('CReturn')
            elif is_plain_assert(st):
                out.append('CAssert')
            elif ignorable(st, DROPPED_CHILD):
                continue
            else:
                raise RelayError(f'{w}: statement `{norm(st).splitlines()[0]}` not recognised')
        return out

    res['main'] = '[' + '; '.join(body(mn.body)) + ']'
    return res


def count_cancel_join(repo: Path) -> int:
    n = 0
    for d in CHILD_DIRS:
        for p in sorted((repo / d).rglob('*.py')):
            try:
                t = ast.parse(p.read_text())
            except SyntaxError as e:
                raise RelayError(f'{p}: {e}')
            for node in ast.walk(t):
                if isinstance(node, ast.Attribute) and node.attr in ('cancel_join_thread', '_exit'):
                    n += 1
                if isinstance(node, ast.Constant) and isinstance(node.value, str) and node.value in ('cancel_join_thread', '_exit'):
                    n += 1      # getattr(q, 'cancel_join_thread')
    return n


# ---------------------------------------------------------------- all of it

def parse(repo: Path, rel: str):
    p = repo / rel
    if not p.exists():
        raise RelayError(f'{p} not found')
    return ast.parse(p.read_text())


def skeleton(repo: Path) -> dict:
    res = {}
    ts = parse(repo, SRC_SESSION)
    check_module_level(ts, SRC_SESSION)
    rs = find(ts.body, ast.ClassDef, 'RunSession', SRC_SESSION)
    if rs.bases or rs.keywords or rs.decorator_list or [type(x) for x in strip_doc(rs.body)] != [ast.AsyncFunctionDef]:
        raise RelayError('RunSession: bases/decorators/members other than `run`')
    run = find(rs.body, ast.AsyncFunctionDef, 'run', 'RunSession')
    no_defaults(run, 'RunSession.run')
    if [norm(d) for d in run.decorator_list] != ['hookimpl', 'contextlib.asynccontextmanager'] or argnames(run) != ['self', 'context']:
        raise RelayError('RunSession.run: decorators/parameters')
    st8: dict = {}
    res['session'] = tr_session_body(run.body, 'RunSession.run', st8)
    if 'session_out_pos' not in st8:
        raise RelayError('RunSession.run: the child is never spawned')
    res['session_out_pos'] = st8['session_out_pos']
    for nm, hook, ctor, key in (('_on_start_run', 'on_start_run', 'HOnStartRun', 'on_start'), ('_on_end_run', 'on_end_run', 'HOnEndRun', 'on_end')):
        f = find(ts.body, ast.AsyncFunctionDef, nm, SRC_SESSION)
        if f.decorator_list or argnames(f) != ['context', 'process']:
            raise RelayError(f'{nm}: decorators/parameters')
        no_defaults(f, nm)
        res[key] = tr_hook_fn(f, hook, ctor)
    rel = find(ts.body, ast.AsyncFunctionDef, 'relay_events', SRC_SESSION)
    if [norm(d) for d in rel.decorator_list] != ['contextlib.asynccontextmanager']:
        raise RelayError('relay_events: decorators')
    ra = argnames(rel)
    if len(ra) != 2 or ra[0] != 'context':
        raise RelayError(f'relay_events: parameters {ra}')
    no_defaults(rel, 'relay_events')
    st8r: dict = {}
    res['relay'] = tr_relay_body(rel.body, RelayScope(ra[1]), 'relay_events', st8r)
    if 'monitor' not in st8r or not st8r.get('created'):
        raise RelayError('relay_events: no `_monitor` task')
    res['monitor'] = st8r['monitor']
    for k in ('session', 'relay'):
        if res[k].count('SYield') != 1:
            raise RelayError(f'{k}: expected exactly one yield')
    if res['session'].count('SWithRelay') != 1:
        raise RelayError('RunSession.run: expected exactly one `async with relay_events(...)`')
    # no other user of relay_events / _on_*_run in the module
    for node in ts.body:
        if node in (rs, rel) or (isinstance(node, ast.AsyncFunctionDef) and node.name in ('_on_start_run', '_on_end_run')):
            continue
        bad = idents(node) & {'relay_events', '_on_start_run', '_on_end_run', 'on_event_in_process'}
        if bad and not isinstance(node, (ast.Import, ast.ImportFrom)):
            raise RelayError(f'{SRC_SESSION}:{node.lineno}: {sorted(bad)} used outside RunSession.run')
    for node in rs.body:
        if node is not run and idents(node) & {'relay_events', '_on_start_run', '_on_end_run'}:
            raise RelayError(f'RunSession:{node.lineno}: relay used outside run()')
    tm_ = parse(repo, SRC_MONITOR)
    check_module_level(tm_, SRC_MONITOR)
    res['dispatch'] = dispatch_table(tm_)
    res['events'] = event_classes(repo)
    tt_ = parse(repo, SRC_TIMER)
    check_module_level(tt_, SRC_TIMER)
    res['timer'] = timer_defs(tt_)
    tq_ = parse(repo, SRC_QUEUE)
    check_module_level(tq_, SRC_QUEUE)
    res['wait'] = wait_defs(tq_)
    tc_ = parse(repo, SRC_SPAWNED)
    check_module_level(tc_, SRC_SPAWNED)
    res['child'] = child_defs(tc_, parse(repo, SRC_RUNNER), res['wait']['default'])
    res['cancel_join'] = count_cancel_join(repo)
    return res


def translate(repo: Path) -> str:
    sk = skeleton(Path(repo))
    disp = '; '.join(f'("{c}", [{"; ".join(b)}])' for c, b in sk['dispatch'])

    def strs(xs):
        return '[' + '; '.join(f'"{x}"' for x in xs) + ']'
    L = [
        '(** GENERATED by translate/relay_skeleton.py (ast, CPython %d.%d) -- do not edit.' % sys.version_info[:2],
        f'    From {SRC_SESSION}, {SRC_MONITOR},',
        f'    {SRC_TIMER}, {SRC_QUEUE}, {SRC_SPAWNED}.',
        '    Terms of Relay/Syntax.v; interpreted and tied to Relay/Model.v by Relay/Tie.v. *)',
        'From Coq Require Import List String.',
        'From NL Require Import Relay.Syntax.',
        'Import ListNotations.',
        'Local Open Scope string_scope.',
        '',
        '(** RunSession.run *)',
        f'Definition session_prog : stmt :=\n  {sk["session"]}.',
        '',
        '(** _on_start_run / _on_end_run *)',
        f'Definition on_start_run_prog : stmt := {sk["on_start"]}.',
        f'Definition on_end_run_prog : stmt := {sk["on_end"]}.',
        '',
        '(** relay_events (an asynccontextmanager: the body of the `async with` runs at SYield) *)',
        f'Definition relay_prog : stmt :=\n  {sk["relay"]}.',
        '',
        '(** relay_events._monitor *)',
        f'Definition monitor_prog : stmt :=\n  {sk["monitor"]}.',
        '',
        '(** OnEvent.on_event_in_process: `ahook = context.hook.ahook; match event:` -- per `case events.X():` its statements *)',
        f'Definition dispatch : list (string * list dstmt) :=\n  [{disp}].',
        f'(** {SRC_EVENTS}: the subclasses of Event; those constructed under nextline/spawned; those constructed in session.py *)',
        f'Definition event_classes : list string := {strs(sk["events"]["all"])}.',
        f'Definition child_event_classes : list string := {strs(sk["events"]["child"])}.',
        f'Definition main_event_classes : list string := {strs(sk["events"]["main"])}.',
        '',
        '(** Timer *)',
        f'Definition timer_init : list tstmt := {sk["timer"]["__init__"]}.',
        f'Definition timer_restart : list tstmt := {sk["timer"]["restart"]}.',
        f'Definition timer_elapsed : list tstmt := {sk["timer"]["elapsed"]}.',
        f'Definition timer_is_timeout : list tstmt := {sk["timer"]["is_timeout"]}.',
        '',
        '(** wait_until_queue_empty(queue, timeout=<default>, interval) *)',
        f'Definition wait_until_queue_empty_prog : stmt :=\n  {sk["wait"]["prog"]}.',
        f'Definition wait_default_timeout : tmo := {sk["wait"]["default"]}.',
        '',
        '(** the child: spawned.set_queues(queue_in, queue_out), spawned.main(run_arg) *)',
        f'Definition set_queues_out_pos : nat := {sk["child"]["set_pos"]}.     (* index of the parameter stored in _queue_out *)',
        f'Definition session_out_pos : nat := {sk["session_out_pos"]}.        (* index at which RunSession.run passes the queue it relays from *)',
        f'Definition child_main_prog : list cstmt := {sk["child"]["main"]}.',
        f'Definition child_cancel_join_thread_calls : nat := {sk["cancel_join"]}.   (* cancel_join_thread / os._exit in {", ".join(CHILD_DIRS)} *)',
        '',
    ]
    return '\n'.join(L)


if __name__ == '__main__':
    print(translate(Path(sys.argv[1] if len(sys.argv) > 1 else '/repo')))
