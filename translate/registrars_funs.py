"""Fail-closed translator: the hook implementations of the main-process registrars
   nextline/plugin/plugins/registrars/*.py  (+ the dataclasses of nextline/types.py they build,
   + the dispatch table of plugins/session/monitor.py)
-> coq/theories/Gen/RegistrarsFuns.v     (syntax: Registrars/Syntax.v; semantics and the
   obligations that tie it to Registrars/Model.v: Registrars/Tie.v)

GENUINE TRANSLATION: every `@hookimpl` method of every class becomes a statement AST over the
class's tracked attributes (those assigned in __init__: a value, a dict, a set), the hook's
parameters and its locals.  Translated: assignments, `self.a = e`, `self.a[k] = v`,
dict `.get(k[, d])` / `[k]` / `.pop(k[, d])` / `.popitem()` / `.clear()`, set `.add/.remove/
.discard/.pop()/.clear()`, `k in self.a`, truth value of a container, tuple `+ (x,)`,
`list()` / `tuple()` (a list and a tuple are DIFFERENT values), local `list.remove(x)`, `== != is / is not / not`, f-string topic keys
(`f'prompt_info_{n}'`), dataclass constructors (keywords, defaults taken from types.py, fields in
definition order) and `dataclasses.replace`, `await context.pubsub.publish(k, v)` /
`.end(k)`, `if / while / try-except / return / assert` (asserts that mention self),
`context.run_arg.run_no`, `len()`, `tuple(x for x in s if c)`.  Helper methods of the class (not
hook implementations; plain or @staticmethod) are INLINED at their calls `self._h(...)` /
`await self._h(context, ...)` (arguments must be names / attributes / constants).
`async with self._lock:` is its body (locks ignored); NewType
wrappers (`PromptNo(-1)`) are the identity.

NOT TRANSLATED.  Dropped silently: docstrings, `pass`, `self._logger.<level>(...)` calls whose arguments
contain no call / walrus / await / yield.  PINNED AS TEXT (Gen: `untranslated`, compared in
Registrars/Tie.v with the text the tie was written for, so any edit of them breaks an obligation):
asserts that do not mention self (asserts that do are translated as a raising branch); the values given
for the dataclass fields IGNORED_FIELDS (time stamps; script/result/exception of RunInfo -- the model
Registrars/Model.v does not have them; they must not mention self / await / walrus); statements that
mention neither self nor context (other than context.run_arg) nor pubsub / hook nor
await/return/raise/yield, that store only into local names and call nothing rooted at a tracked
name -- the names they bind become POISONED: any later use of one in a tracked position raises.

REFUSED (fail closed): base classes / metaclass / class decorators, class-level statements other than
docstrings and methods (class-level defaults), decorators other than @hookimpl (hooks) / @staticmethod
(helpers), default / keyword-only / star arguments, special methods other than __init__, methods that
are neither hook implementations nor helpers called by one, synchronous hook implementations,
module-level statements other than import / class (and anything but import / __all__ in
registrars/__init__.py), registrar classes that are not registered; in monitor.py anything but
`ahook = context.hook.ahook` followed by `match event:` with unguarded class cases whose body is the
open-prompt bookkeeping + one `await ahook.<hook>(context=context, event=event)` and a default case that
only logs.

Everything else raises Unsupported (= a broken tie obligation of ./check C11)."""
from __future__ import annotations

import ast
import copy
from pathlib import Path

from .hook_order import _dispatch, _is_hookimpl, _register_order

OUTPUT = 'RegistrarsFuns.v'

IGNORED_FIELDS = {'started_at', 'ended_at', 'written_at', 'script', 'result', 'exception'}
EXNS = {'KeyError', 'ValueError', 'AssertionError'}


class Unsupported(Exception):
    pass


# ------------------------------------------------------------------ Coq text helpers

def _s(x: str) -> str:
    return '"' + x.replace('"', '""') + '"'


def _z(n: int) -> str:
    return f'({n})%Z' if n < 0 else f'{n}%Z'


def _l(xs) -> str:
    return '[' + '; '.join(xs) + ']'


def _opt(x) -> str:
    return 'None' if x is None else f'(Some ({x}))'


# ------------------------------------------------------------------ nextline/types.py

def _types_info(path: Path):
    """dataclasses: name -> [(field, default ast or None)]; newtypes: set of names"""
    tree = ast.parse(path.read_text())
    dcs, newtypes = {}, set()
    for n in tree.body:
        if isinstance(n, ast.Assign) and isinstance(n.value, ast.Call) and isinstance(n.value.func, ast.Name) \
                and n.value.func.id == 'NewType' and len(n.targets) == 1 and isinstance(n.targets[0], ast.Name):
            newtypes.add(n.targets[0].id)
        if isinstance(n, ast.ClassDef) and any('dataclass' in ast.unparse(d) for d in n.decorator_list):
            fields = []
            for b in n.body:
                if isinstance(b, ast.AnnAssign) and isinstance(b.target, ast.Name):
                    fields.append((b.target.id, b.value))
                elif isinstance(b, ast.Expr) and isinstance(b.value, ast.Constant):
                    continue
                elif isinstance(b, ast.Pass):
                    continue
                else:
                    fields = None       # a dataclass with methods etc.: not one the registrars may build
                    break
            if fields is not None:
                dcs[n.name] = fields
    return dcs, newtypes


# ------------------------------------------------------------------ one class

def _is_self_attr(n) -> bool:
    return isinstance(n, ast.Attribute) and isinstance(n.value, ast.Name) and n.value.id == 'self'


def _init_kind(v, where: str) -> str:
    u = ast.unparse(v)
    if isinstance(v, ast.Tuple) and not v.elts:
        return 'val'
    if isinstance(v, ast.Constant) and v.value is None:
        return 'val'
    if isinstance(v, ast.Dict) and not v.keys:
        return 'dict'
    if isinstance(v, ast.Call) and not v.args and not v.keywords:
        f = v.func
        base = f.value if isinstance(f, ast.Subscript) else f
        if isinstance(base, ast.Name) and base.id in ('dict', 'set'):
            return base.id
        if u in ('asyncio.Lock()', 'Lock()'):
            return 'lock'
    if isinstance(v, ast.Call) and isinstance(v.func, ast.Name) and v.func.id == 'getLogger':
        return 'logger'
    raise Unsupported(f'{where}: initial value of an attribute: {u}')


class _Fn:
    """translation of one hook implementation"""

    def __init__(self, where, attrs, dcs, newtypes, params, helpers=None):
        self.where = where
        self.helpers = helpers or {}
        self.depth = 0
        self.pins: list[str] = []            # text of what is NOT translated (pinned in Registrars/Tie.v)
        self.used_helpers: set[str] = set()
        self.attrs = attrs
        self.dcs = dcs
        self.newtypes = newtypes
        self.params = set(params)
        self.locals: set[str] = set()          # bound by a translated assignment
        self.poisoned: set[str] = set()
        self.list_locals: set[str] = set()     # locals bound by `x = list(...)`

    def fail(self, n, what):
        raise Unsupported(f'{self.where}:{getattr(n, "lineno", "?")}: {what}: {ast.unparse(n)[:90]}')

    # ---- classification
    def attr_kind(self, n):
        """n = self.<a> -> kind or None"""
        if _is_self_attr(n):
            if n.attr not in self.attrs:
                self.fail(n, 'attribute not initialised in __init__')
            return self.attrs[n.attr]
        return None

    def untracked(self, st) -> bool:
        tracked_names = self.params | (self.locals - self.poisoned)
        # `context` may occur in an untracked statement only as context.run_arg[.x]
        ctx_ok = {id(n.value) for n in ast.walk(st)
                  if isinstance(n, ast.Attribute) and isinstance(n.value, ast.Name) and n.value.id == 'context' and n.attr == 'run_arg'}
        for n in ast.walk(st):
            if isinstance(n, (ast.Await, ast.Yield, ast.YieldFrom, ast.Return, ast.Raise, ast.Break, ast.Continue,
                              ast.FunctionDef, ast.AsyncFunctionDef, ast.Lambda, ast.ClassDef, ast.Global, ast.Nonlocal,
                              ast.Delete, ast.Import, ast.ImportFrom, ast.NamedExpr, ast.AsyncWith, ast.AsyncFor)):
                return False
            if isinstance(n, ast.Name) and n.id == 'self':
                return False
            if isinstance(n, ast.Attribute) and n.attr in ('pubsub', 'hook', 'ahook', 'awith'):
                return False
            if isinstance(n, ast.Name) and n.id == 'context' and id(n) not in ctx_ok:
                return False
            if isinstance(n, ast.Call):
                r = n.func
                while isinstance(r, (ast.Attribute, ast.Subscript, ast.Call)):
                    r = r.func if isinstance(r, ast.Call) else r.value
                through_ignored = any(isinstance(x, ast.Attribute) and x.attr in IGNORED_FIELDS for x in ast.walk(n.func))
                if isinstance(r, ast.Name) and r.id in tracked_names and not through_ignored:
                    return False
            if isinstance(n, (ast.Attribute, ast.Subscript)) and isinstance(n.ctx, (ast.Store, ast.Del)):
                return False
        return True

    def poison(self, st):
        for n in ast.walk(st):
            if isinstance(n, ast.Name) and isinstance(n.ctx, ast.Store):
                self.poisoned.add(n.id)
                self.list_locals.discard(n.id)

    # ---- expressions
    def ex(self, n) -> str:
        if isinstance(n, ast.Constant):
            v = n.value
            if v is None:
                return 'EConst VNone'
            if isinstance(v, bool):
                return f'EConst (VBool {"true" if v else "false"})'
            if isinstance(v, int):
                return f'EConst (VInt {_z(v)})'
            if isinstance(v, str):
                return f'EConst (VStr {_s(v)})'
            self.fail(n, 'constant')
        if isinstance(n, ast.UnaryOp) and isinstance(n.op, ast.USub) and isinstance(n.operand, ast.Constant) \
                and isinstance(n.operand.value, int) and not isinstance(n.operand.value, bool):
            return f'EConst (VInt {_z(-n.operand.value)})'
        if isinstance(n, ast.UnaryOp) and isinstance(n.op, ast.Not):
            return f'ENot ({self.cond(n.operand)})'
        if isinstance(n, ast.Name):
            if n.id in self.poisoned:
                self.fail(n, 'use of a local bound by an untracked statement')
            if n.id in self.params or n.id in self.locals:
                return f'EVar {_s(n.id)}'
            self.fail(n, 'name that is neither a parameter nor a translated local')
        if isinstance(n, ast.Attribute):
            if ast.unparse(n) == 'context.run_arg.run_no':
                return 'ERunNo'
            k = self.attr_kind(n)
            if k is not None:
                if k == 'val':
                    return f'ESelf {_s(n.attr)}'
                self.fail(n, f'{k} attribute used as a value')
            if n.attr in IGNORED_FIELDS:
                self.fail(n, 'read of an untracked field')
            return f'EGetAttr ({self.ex(n.value)}) {_s(n.attr)}'
        if isinstance(n, ast.Call):
            f = n.func
            if isinstance(f, ast.Name) and f.id in self.newtypes and len(n.args) == 1 and not n.keywords:
                return self.ex(n.args[0])
            if isinstance(f, ast.Name) and f.id in ('list', 'tuple') and len(n.args) == 1 and not n.keywords:
                c = 'EListOf' if f.id == 'list' else 'ETupleOf'
                a = n.args[0]
                return f'{c} ({self.filt(a) if isinstance(a, ast.GeneratorExp) else self.ex(a)})'
            if isinstance(f, ast.Name) and f.id in self.dcs:
                return self.new(n)
            if isinstance(f, ast.Name) and f.id == 'len' and len(n.args) == 1 and not n.keywords:
                return f'ELen ({self.ex(n.args[0])})'
            if _is_self_attr(f) and f.attr in self.helpers:
                self.used_helpers.add(f.attr)
                body = self.inline(n, self.helpers[f.attr])
                if len(body) == 1 and isinstance(body[0], ast.Return) and body[0].value is not None:
                    self.depth += 1
                    try:
                        return self.ex(body[0].value)
                    finally:
                        self.depth -= 1
                self.fail(n, 'helper used as an expression is not a single `return <expr>`')
            if ast.unparse(f) in ('dataclasses.replace', 'replace') and len(n.args) == 1:
                if any(k.arg is None for k in n.keywords):
                    self.fail(n, '** in replace')
                self.pin_ignored_fields('replace', n.keywords)
                fs = [f'({_s(k.arg)}, {self.ex(k.value)})' for k in n.keywords if k.arg not in IGNORED_FIELDS]
                return f'EReplace ({self.ex(n.args[0])}) {_l(fs)}'
            if isinstance(f, ast.Attribute) and f.attr == 'get' and self.attr_kind(f.value) == 'dict' \
                    and len(n.args) in (1, 2) and not n.keywords:
                d = self.ex(n.args[1]) if len(n.args) == 2 else 'EConst VNone'
                return f'EDictGet {_s(f.value.attr)} ({self.ex(n.args[0])}) ({d})'
            self.fail(n, 'call')
        if isinstance(n, ast.Subscript) and isinstance(n.ctx, ast.Load) and self.attr_kind(n.value) == 'dict':
            return f'EDictIdx {_s(n.value.attr)} ({self.ex(n.slice)})'
        if isinstance(n, ast.Tuple) and not n.elts:
            return 'EConst (VTup [])'
        if isinstance(n, ast.Tuple) and len(n.elts) == 1 and isinstance(n.ctx, ast.Load):
            return f'ETuple1 ({self.ex(n.elts[0])})'
        if isinstance(n, ast.BinOp) and isinstance(n.op, ast.Add):
            return f'EConcat ({self.ex(n.left)}) ({self.ex(n.right)})'
        if isinstance(n, ast.Compare) and len(n.ops) == 1:
            op, a, b = n.ops[0], n.left, n.comparators[0]
            tab = {ast.Eq: 'EEq', ast.NotEq: 'ENe', ast.Is: 'EIs', ast.IsNot: 'EIsNot'}
            if type(op) in tab:
                return f'{tab[type(op)]} ({self.ex(a)}) ({self.ex(b)})'
            if isinstance(op, (ast.In, ast.NotIn)) and self.attr_kind(b) in ('dict', 'set'):
                t = f'EIn ({self.ex(a)}) {_s(b.attr)}'
                return t if isinstance(op, ast.In) else f'ENot ({t})'
            self.fail(n, 'comparison')
        if isinstance(n, ast.ListComp):
            return self.filt(n)
        if isinstance(n, ast.JoinedStr):
            vs = n.values
            if len(vs) == 2 and isinstance(vs[0], ast.Constant) and isinstance(vs[0].value, str) \
                    and isinstance(vs[1], ast.FormattedValue) and vs[1].conversion == -1 and vs[1].format_spec is None:
                return f'EFKey {_s(vs[0].value)} ({self.ex(vs[1].value)})'
            self.fail(n, 'f-string that is not a constant prefix followed by one plain field')
        self.fail(n, 'expression')

    def new(self, n) -> str:
        cls = n.func.id
        if n.args or any(k.arg is None for k in n.keywords):
            self.fail(n, 'dataclass constructor with positional / ** arguments')
        given = {k.arg: k.value for k in n.keywords}
        names = [f for f, _ in self.dcs[cls]]
        for g in given:
            if g not in names:
                self.fail(n, f'{cls} has no field {g}')
        self.pin_ignored_fields(cls, n.keywords)
        out = []
        for f, default in self.dcs[cls]:
            if f in IGNORED_FIELDS:
                continue
            if f in given:
                out.append(f'({_s(f)}, {self.ex(given[f])})')
            elif default is not None:
                out.append(f'({_s(f)}, {self.ex(default)})')
            else:
                self.fail(n, f'{cls}: required field {f} not given')
        return f'ENew {_s(cls)} {_l(out)}'

    def inline(self, call, helper) -> list:
        """body of the helper method with the parameters replaced by the (simple) arguments of
        the call and its own locals renamed `<helper>.<name>`"""
        if self.depth > 3:
            self.fail(call, 'helper calls nested too deeply')
        a = helper.args
        if a.vararg or a.kwarg or a.kwonlyargs or a.posonlyargs or a.defaults or call.keywords:
            self.fail(call, 'signature / keywords of a helper call')
        names = [x.arg for x in a.args]
        static = any(isinstance(d, ast.Name) and d.id == 'staticmethod' for d in helper.decorator_list)
        if not static:
            if not names or names[0] != 'self':
                self.fail(call, 'helper without self')
            names = names[1:]
        if len(names) != len(call.args):
            self.fail(call, 'number of arguments of a helper call')
        mapping = {}
        for pname, arg in zip(names, call.args):
            if pname == 'context':
                if not (isinstance(arg, ast.Name) and arg.id == 'context'):
                    self.fail(call, 'context parameter of a helper not given the context')
                continue
            r = arg
            while isinstance(r, ast.Attribute):
                r = r.value
            if not isinstance(r, (ast.Name, ast.Constant)) or (isinstance(r, ast.Name) and r.id in ('self', 'context')):
                self.fail(call, 'argument of a helper call that is not a name / attribute / constant')
            mapping[pname] = arg
        body = [copy.deepcopy(b) for b in helper.body]
        if body and isinstance(body[0], ast.Expr) and isinstance(body[0].value, ast.Constant) and isinstance(body[0].value.value, str):
            body = body[1:]
        assigned = {n.id for b in body for n in ast.walk(b) if isinstance(n, ast.Name) and isinstance(n.ctx, ast.Store)}
        if assigned & (set(mapping) | {'context', 'self'}):
            self.fail(call, 'helper assigns to one of its parameters')
        rename = {x: f'{helper.name}.{x}' for x in assigned}

        class T(ast.NodeTransformer):
            def visit_Name(_, n):
                if n.id in mapping and isinstance(n.ctx, ast.Load):
                    return copy.deepcopy(mapping[n.id])
                if n.id in rename:
                    return ast.copy_location(ast.Name(id=rename[n.id], ctx=n.ctx), n)
                return n
        return [ast.fix_missing_locations(T().visit(b)) for b in body]

    def filt(self, n) -> str:
        """[x for x in s if c]  /  the generator (x for x in s if c) directly inside tuple() / list()"""
        if len(n.generators) == 1:
            g = n.generators[0]
            if not g.is_async and isinstance(g.target, ast.Name) and len(g.ifs) == 1 \
                    and isinstance(n.elt, ast.Name) and n.elt.id == g.target.id:
                x = g.target.id
                if x in self.params or x in self.locals or x in self.poisoned:
                    self.fail(n, 'comprehension variable shadows a name')
                src = self.ex(g.iter)
                self.locals.add(x)
                try:
                    c = self.cond(g.ifs[0])
                finally:
                    self.locals.discard(x)
                return f'EFilter {_s(x)} ({src}) ({c})'
        self.fail(n, 'comprehension that is not `x for x in <seq> if <cond>`')

    def cond(self, n) -> str:
        k = self.attr_kind(n) if _is_self_attr(n) else None
        if k in ('dict', 'set'):
            return f'ENonEmpty {_s(n.attr)}'
        return self.ex(n)

    # ---- statements
    def block(self, body, ind) -> str:
        out = []
        for st in body:
            out += self.st(st, ind + 2)
        if not out:
            return 'SSkip'
        pad = ' ' * (ind + 2)
        return 'seq [\n' + ';\n'.join(pad + x for x in out) + ']'

    def bind(self, x: str, is_list=False):
        self.locals.add(x)
        self.poisoned.discard(x)
        if is_list:
            self.list_locals.add(x)
        else:
            self.list_locals.discard(x)

    def skip_or_fail(self, st, err):
        """a statement that is not translated: only if it cannot touch anything tracked; its text is
        PINNED (Gen: untranslated; Registrars/Tie.v compares it with the text the tie was made for)
        and the names it binds are poisoned"""
        if self.untracked(st):
            self.poison(st)
            self.pins.append(ast.unparse(st))
            return []
        raise err

    def pin_ignored_fields(self, what: str, keywords):
        for k in sorted((k for k in keywords if k.arg in IGNORED_FIELDS), key=lambda k: k.arg):
            for n in ast.walk(k.value):
                if isinstance(n, (ast.NamedExpr, ast.Await, ast.Yield, ast.YieldFrom, ast.Lambda)) or \
                        (isinstance(n, ast.Name) and n.id == 'self'):
                    self.fail(k.value, 'value of an untracked field')
            self.pins.append(f'{what}: {k.arg}={ast.unparse(k.value)}')

    def logger_call_ok(self, v) -> bool:
        """logger.<level>(...) whose arguments contain no call / walrus / await / yield"""
        if not (isinstance(v, ast.Call) and isinstance(v.func, ast.Attribute)
                and v.func.attr in ('debug', 'info', 'warning', 'error', 'exception', 'critical')):
            return False
        for a in list(v.args) + [k.value for k in v.keywords]:
            for n in ast.walk(a):
                if isinstance(n, (ast.Call, ast.NamedExpr, ast.Await, ast.Yield, ast.YieldFrom, ast.Lambda)):
                    return False
        return True

    def effect_call(self, v):
        """v = self.<a>.<m>(args): (attr, kind, method, args) or None"""
        if isinstance(v, ast.Call) and isinstance(v.func, ast.Attribute) and _is_self_attr(v.func.value) and not v.keywords:
            a = v.func.value
            return a.attr, self.attr_kind(a), v.func.attr, v.args
        return None

    def st(self, st, ind) -> list[str]:
        if isinstance(st, ast.Pass):
            return []
        if isinstance(st, ast.Expr):
            v = st.value
            if isinstance(v, ast.Constant) and isinstance(v.value, str):
                return []
            hc = v.value if isinstance(v, ast.Await) else v
            if isinstance(hc, ast.Call) and _is_self_attr(hc.func) and hc.func.attr in self.helpers:
                h = self.helpers[hc.func.attr]
                self.used_helpers.add(hc.func.attr)
                if isinstance(h, ast.AsyncFunctionDef) != isinstance(v, ast.Await):
                    self.fail(st, 'await / async mismatch of a helper call')
                body = self.inline(hc, h)
                if any(isinstance(n, ast.Return) for b in body for n in ast.walk(b)):
                    self.fail(st, 'helper called as a statement contains return')
                out = []
                self.depth += 1
                try:
                    for b in body:
                        out += self.st(b, ind)
                finally:
                    self.depth -= 1
                return out
            if isinstance(v, ast.Await):
                c = v.value
                if isinstance(c, ast.Call) and isinstance(c.func, ast.Attribute) and ast.unparse(c.func.value) == 'context.pubsub' \
                        and not c.keywords:
                    if c.func.attr == 'publish' and len(c.args) == 2:
                        return [f'SPublish ({self.ex(c.args[0])}) ({self.ex(c.args[1])})']
                    if c.func.attr == 'end' and len(c.args) == 1:
                        return [f'SEnd ({self.ex(c.args[0])})']
                self.fail(st, 'await')
            ec = self.effect_call(v)
            if ec is not None:
                a, k, m, args = ec
                if k == 'logger':
                    if not self.logger_call_ok(v):
                        self.fail(st, 'logger call with a call / walrus / await in its arguments')
                    return []
                if m == 'clear' and k in ('dict', 'set') and not args:
                    return [f'SClear {_s(a)}']
                if k == 'dict' and m == 'pop' and len(args) in (1, 2):
                    d = self.ex(args[1]) if len(args) == 2 else None
                    return [f'SDictPop None {_s(a)} ({self.ex(args[0])}) {_opt(d)}']
                if k == 'set' and m in ('add', 'remove', 'discard') and len(args) == 1:
                    c = {'add': 'SSetAdd', 'remove': 'SSetRemove', 'discard': 'SSetDiscard'}[m]
                    return [f'{c} {_s(a)} ({self.ex(args[0])})']
                self.fail(st, f'method {m} of a {k} attribute')
            if isinstance(v, ast.Call) and isinstance(v.func, ast.Attribute) and isinstance(v.func.value, ast.Name) \
                    and v.func.value.id in self.list_locals and v.func.attr == 'remove' and len(v.args) == 1 and not v.keywords:
                return [f'SListRemove {_s(v.func.value.id)} ({self.ex(v.args[0])})']
            return self.skip_or_fail(st, Unsupported(f'{self.where}:{st.lineno}: expression statement: {ast.unparse(st)[:90]}'))
        if isinstance(st, ast.AnnAssign):
            if st.value is None:
                return []
            return self.assign(st, st.target, st.value)
        if isinstance(st, ast.Assign):
            if len(st.targets) != 1:
                self.fail(st, 'chained assignment')
            return self.assign(st, st.targets[0], st.value)
        if isinstance(st, ast.If):
            try:
                c = self.cond(st.test)
                a = self.block(st.body, ind)
                b = self.block(st.orelse, ind)
            except Unsupported as e:
                return self.skip_or_fail(st, e)
            return [f'SIf ({c})\n{" " * (ind + 2)}({a})\n{" " * (ind + 2)}({b})']
        if isinstance(st, ast.While):
            if st.orelse:
                self.fail(st, 'while-else')
            return [f'SWhile ({self.cond(st.test)})\n{" " * (ind + 2)}({self.block(st.body, ind)})']
        if isinstance(st, ast.Try):
            if st.orelse or st.finalbody or len(st.handlers) != 1:
                self.fail(st, 'try with else / finally / several handlers')
            h = st.handlers[0]
            if not (isinstance(h.type, ast.Name) and h.type.id in EXNS and h.name is None):
                self.fail(st, 'except clause')
            return [f'STry ({self.block(st.body, ind)}) {h.type.id}\n{" " * (ind + 2)}({self.block(h.body, ind)})']
        if isinstance(st, ast.Return):
            if st.value is not None and not (isinstance(st.value, ast.Constant) and st.value.value is None):
                self.fail(st, 'return of a value')
            return ['SReturn']
        if isinstance(st, ast.Assert):
            # never dropped: translated as a raising branch when it mentions self, otherwise its text is pinned
            # (an assert about the context / the time stamps of an event: assumed to hold, see Tie.v)
            if any(isinstance(n, ast.Name) and n.id == 'self' for n in ast.walk(st)):
                if st.msg is not None:
                    self.fail(st, 'assert with a message')
                return [f'SAssert ({self.cond(st.test)})']
            for n in ast.walk(st):
                if isinstance(n, (ast.Call, ast.NamedExpr, ast.Await, ast.Yield, ast.YieldFrom, ast.Lambda)):
                    self.fail(st, 'assert with a call / walrus / await')
            self.pins.append(ast.unparse(st))
            return []
        if isinstance(st, ast.AsyncWith):
            if len(st.items) == 1 and st.items[0].optional_vars is None and _is_self_attr(st.items[0].context_expr) \
                    and self.attr_kind(st.items[0].context_expr) == 'lock':
                out = []
                for s in st.body:
                    out += self.st(s, ind)
                return out
            self.fail(st, 'async with')
        return self.skip_or_fail(st, Unsupported(f'{self.where}:{st.lineno}: statement: {ast.unparse(st)[:90]}'))

    def assign(self, st, target, value) -> list[str]:
        if isinstance(target, ast.Name):
            x = target.id
            if x in self.params:
                self.fail(st, 'assignment to a parameter')
            ec = self.effect_call(value)
            if ec is not None:
                a, k, m, args = ec
                if k == 'dict' and m == 'pop' and len(args) in (1, 2):
                    d = self.ex(args[1]) if len(args) == 2 else None
                    r = [f'SDictPop (Some {_s(x)}) {_s(a)} ({self.ex(args[0])}) {_opt(d)}']
                    self.bind(x)
                    return r
                if k == 'set' and m == 'pop' and not args:
                    self.bind(x)
                    return [f'SSetPop {_s(x)} {_s(a)}']
                if not (k == 'dict' and m == 'get'):
                    self.fail(st, f'method {m} of a {k} attribute')
            try:
                e = self.ex(value)
            except Unsupported as err:
                return self.skip_or_fail(st, err)
            is_list = isinstance(value, ast.Call) and isinstance(value.func, ast.Name) and value.func.id == 'list'
            self.bind(x, is_list)
            return [f'SAssign {_s(x)} ({e})']
        if _is_self_attr(target):
            k = self.attr_kind(target)
            if k in ('lock', 'logger'):
                if _init_kind(value, self.where) != k:
                    self.fail(st, f'{k} attribute assigned something else')
                return []
            if k in ('dict', 'set'):
                if _init_kind(value, self.where) != k:
                    self.fail(st, f'{k} attribute rebound to something that is not an empty {k}')
                return [f'SClear {_s(target.attr)}']
            return [f'SSetSelf {_s(target.attr)} ({self.ex(value)})']
        if isinstance(target, ast.Subscript) and self.attr_kind(target.value) == 'dict':
            return [f'SDictSet {_s(target.value.attr)} ({self.ex(target.slice)}) ({self.ex(value)})']
        if isinstance(target, ast.Tuple) and len(target.elts) == 2 and all(isinstance(t, ast.Name) for t in target.elts):
            ec = self.effect_call(value)
            if ec is not None and ec[1] == 'dict' and ec[2] == 'popitem' and not ec[3]:
                xs = [t.id for t in target.elts]
                for x in xs:
                    if x in self.params:
                        self.fail(st, 'assignment to a parameter')
                    self.bind(x)
                return [f'SPopItem {_s(xs[0])} {_s(xs[1])} {_s(ec[0])}']
        return self.skip_or_fail(st, Unsupported(f'{self.where}:{st.lineno}: assignment: {ast.unparse(st)[:90]}'))


def _class(cls: ast.ClassDef, fname: str, dcs, newtypes):
    """-> (attrs: [(name, kind)], hooks: [(name, params, body text)])"""
    where = f'{fname}:{cls.name}'
    if cls.bases or cls.keywords or cls.decorator_list:
        raise Unsupported(f'{where}: base classes / metaclass / class decorators (inherited hook implementations '
                          f'and attributes would not be seen): {ast.unparse(cls).splitlines()[0]}')
    attrs: dict = {}
    methods = []
    for b in cls.body:
        if isinstance(b, ast.Expr) and isinstance(b.value, ast.Constant) and isinstance(b.value.value, str):
            continue
        if isinstance(b, (ast.FunctionDef, ast.AsyncFunctionDef)):
            methods.append(b)
            continue
        raise Unsupported(f'{where}:{b.lineno}: class-level statement: {ast.unparse(b)[:80]}')
    # attributes: __init__ (all kinds) and `self.x = asyncio.Lock()` anywhere
    for m in methods:
        if m.name == '__init__':
            if isinstance(m, ast.AsyncFunctionDef) or [a.arg for a in m.args.args] != ['self']:
                raise Unsupported(f'{where}: __init__ signature')
            for st in m.body:
                if isinstance(st, ast.Expr) and isinstance(st.value, ast.Constant):
                    continue
                if isinstance(st, ast.Assign) and len(st.targets) == 1:
                    t, v = st.targets[0], st.value
                elif isinstance(st, ast.AnnAssign) and st.value is not None:
                    t, v = st.target, st.value
                else:
                    raise Unsupported(f'{where}:{st.lineno}: __init__ statement: {ast.unparse(st)[:80]}')
                if not _is_self_attr(t):
                    raise Unsupported(f'{where}:{st.lineno}: __init__ statement: {ast.unparse(st)[:80]}')
                attrs[t.attr] = _init_kind(v, where)
    for m in methods:
        if m.name == '__init__':
            continue
        for n in ast.walk(m):
            if isinstance(n, (ast.Assign, ast.AnnAssign)):
                ts = n.targets if isinstance(n, ast.Assign) else [n.target]
                for t in ts:
                    if _is_self_attr(t) and t.attr not in attrs and n.value is not None:
                        try:
                            k = _init_kind(n.value, where)
                        except Unsupported:
                            k = None
                        if k != 'lock':
                            raise Unsupported(f'{where}:{n.lineno}: attribute {t.attr} is not initialised in __init__')
                        attrs[t.attr] = 'lock'
    seen = set()
    for m in methods:
        if m.name in seen:
            raise Unsupported(f'{where}:{m.lineno}: method {m.name} defined twice')
        seen.add(m.name)
        if m.name.startswith('__') and m.name.endswith('__') and m.name != '__init__':
            raise Unsupported(f'{where}:{m.lineno}: special method {m.name} is not translated')
    helpers = {}
    for m in methods:
        if m.name == '__init__' or any(_is_hookimpl(d) for d in m.decorator_list):
            continue
        if not all(isinstance(d, ast.Name) and d.id == 'staticmethod' for d in m.decorator_list):
            raise Unsupported(f'{where}:{m.lineno}: decorators of the helper method {m.name}')
        helpers[m.name] = m
    hooks = []
    used_helpers: set = set()
    for m in methods:
        if m.name == '__init__':
            continue
        impl = [d for d in m.decorator_list if _is_hookimpl(d)]
        if not impl:
            continue            # a helper: inlined at its calls
        if len(m.decorator_list) != 1 or not isinstance(m.decorator_list[0], ast.Name):
            raise Unsupported(f'{where}:{m.lineno}: decorators of {m.name}')
        if not isinstance(m, ast.AsyncFunctionDef):
            raise Unsupported(f'{where}:{m.lineno}: synchronous hook implementation {m.name}')
        a = m.args
        if a.vararg or a.kwarg or a.kwonlyargs or a.posonlyargs or a.defaults:
            raise Unsupported(f'{where}:{m.lineno}: signature of {m.name}')
        names = [x.arg for x in a.args]
        if not names or names[0] != 'self':
            raise Unsupported(f'{where}:{m.lineno}: signature of {m.name}')
        params = [x for x in names[1:] if x != 'context']
        fn = _Fn(f'{where}.{m.name}', attrs, dcs, newtypes, params, helpers)
        body = fn.block(m.body, 2)
        hooks.append((m.name, params, body, fn.pins))
        used_helpers |= fn.used_helpers
    unused = sorted(set(helpers) - used_helpers)
    if unused:
        raise Unsupported(f'{where}: methods that are neither hook implementations nor helpers called by one: {unused}')
    # only the attributes some hook implementation mentions are part of the state
    used = set()
    for m in methods:
        if m.name != '__init__':
            used |= {n.attr for n in ast.walk(m) if _is_self_attr(n)}
    kinds = {'val': 'KVal', 'dict': 'KDict', 'set': 'KSet'}
    alist = [(a, kinds[k]) for a, k in attrs.items() if k in kinds and a in used]
    return alist, hooks


def _monitor_strict(path: Path) -> None:
    """OnEvent: no bases, one method; on_event_in_process is exactly `ahook = context.hook.ahook` followed by the
    `match event:` (hook_order._dispatch checks the cases); the default case only logs"""
    tree = ast.parse(path.read_text())
    for n in tree.body:
        if isinstance(n, (ast.Import, ast.ImportFrom)) or (isinstance(n, ast.Expr) and isinstance(n.value, ast.Constant)):
            continue
        if isinstance(n, ast.ClassDef) and n.name == 'OnEvent':
            if n.bases or n.keywords or n.decorator_list:
                raise Unsupported('monitor.py: OnEvent has bases / decorators')
            body = [b for b in n.body if not (isinstance(b, ast.Expr) and isinstance(b.value, ast.Constant))]
            if len(body) != 1 or not isinstance(body[0], ast.AsyncFunctionDef) or body[0].name != 'on_event_in_process':
                raise Unsupported('monitor.py: OnEvent has members other than on_event_in_process')
            fn = body[0]
            if [ast.unparse(d) for d in fn.decorator_list] != ['hookimpl'] or [a.arg for a in fn.args.args] != ['self', 'context', 'event'] \
                    or fn.args.defaults or fn.args.vararg or fn.args.kwarg or fn.args.kwonlyargs:
                raise Unsupported('monitor.py: decorators / signature of on_event_in_process')
            sts = [b for b in fn.body if not (isinstance(b, ast.Expr) and isinstance(b.value, ast.Constant))]
            if len(sts) != 2 or ast.unparse(sts[0]) != 'ahook = context.hook.ahook' or not isinstance(sts[1], ast.Match) \
                    or ast.unparse(sts[1].subject) != 'event':
                raise Unsupported('monitor.py: on_event_in_process is not `ahook = context.hook.ahook; match event: ...`')
            for case in sts[1].cases:
                if isinstance(case.pattern, ast.MatchAs) and case.pattern.pattern is None:
                    if case.guard is not None or case.pattern.name is not None:
                        raise Unsupported('monitor.py: default case')
                    for b in case.body:
                        u = ast.unparse(b)
                        if u != 'logger = getLogger(__name__)' and not u.startswith('logger.warning('):
                            raise Unsupported(f'monitor.py:{b.lineno}: default case does more than log: {u[:80]}')
                        if u.startswith('logger.warning(') and any(isinstance(x, (ast.Call, ast.NamedExpr, ast.Await)) for a in b.value.args for x in ast.walk(a)):
                            raise Unsupported(f'monitor.py:{b.lineno}: call in the arguments of the log call')
            continue
        raise Unsupported(f'monitor.py:{n.lineno}: module-level statement: {ast.unparse(n)[:80]}')


def translate(repo: Path) -> str:
    base = repo / 'nextline' / 'plugin' / 'plugins'
    dcs, newtypes = _types_info(repo / 'nextline' / 'types.py')
    order = _register_order((base / '__init__.py').read_text())
    classes: dict = {}
    for p in sorted((base / 'registrars').glob('*.py')):
        if p.name == '__init__.py':
            continue
        tree = ast.parse(p.read_text())
        for n in tree.body:
            if isinstance(n, ast.ClassDef):
                if n.name in classes:
                    raise Unsupported(f'class {n.name} defined twice')
                classes[n.name] = _class(n, p.name, dcs, newtypes)
            elif isinstance(n, (ast.Import, ast.ImportFrom)):
                continue
            elif isinstance(n, ast.Expr) and isinstance(n.value, ast.Constant) and isinstance(n.value.value, str):
                continue
            else:
                raise Unsupported(f'{p.name}:{n.lineno}: module-level statement other than import / class: {ast.unparse(n)[:80]}')
    # registrars/__init__.py: imports and __all__ only (no re-binding / patching of a translated class)
    for n in ast.parse((base / 'registrars' / '__init__.py').read_text()).body:
        ok = isinstance(n, (ast.Import, ast.ImportFrom)) or \
            (isinstance(n, ast.Expr) and isinstance(n.value, ast.Constant) and isinstance(n.value.value, str)) or \
            (isinstance(n, ast.Assign) and len(n.targets) == 1 and isinstance(n.targets[0], ast.Name) and n.targets[0].id == '__all__'
             and isinstance(n.value, (ast.List, ast.Tuple)) and all(isinstance(e, ast.Constant) for e in n.value.elts))
        if not ok:
            raise Unsupported(f'registrars/__init__.py:{n.lineno}: statement other than import / __all__: {ast.unparse(n)[:80]}')
    unregistered = [c for c in classes if c not in order]
    if unregistered:
        raise Unsupported(f'registrar classes that are not registered: {unregistered}')
    _monitor_strict(base / 'session' / 'monitor.py')
    disp = _dispatch(base / 'session' / 'monitor.py')
    used_dcs = sorted(c for c in dcs if any(f'ENew {_s(c)} ' in body for _, hs in classes.values() for _, _, body, _ in hs))

    out = ['(** GENERATED by translate/registrars_funs.py from nextline/plugin/plugins/registrars/*.py,',
           '    nextline/types.py and plugins/session/monitor.py -- do not edit.',
           '    One statement AST (Registrars/Syntax.v) per hook implementation; semantics and the',
           '    obligations against Registrars/Model.v: Registrars/Tie.v. *)',
           'From NL Require Import Registrars.Syntax.', 'Open Scope string_scope.', '']
    regs = []
    allpins = []
    for c in order:
        if c not in classes:
            continue
        alist, hooks = classes[c]
        hnames = []
        for name, params, body, pins in hooks:
            if pins:
                allpins.append((f'{c}.{name}', pins))
            d = f'{c}__{name}'
            hnames.append(d)
            out.append(f'Definition {d} : hookimpl :=\n  mkHook {_s(name)} {_l(_s(p) for p in params)}\n  ({body}).\n')
        out.append(f'Definition {c} : registrar :=\n  mkReg {_s(c)} {_l(f"({_s(a)}, {k})" for a, k in alist)}\n    {_l(hnames)}.\n')
        regs.append(c)
    out.append('(** in the order of the hook.register(...) calls *)')
    out.append(f'Definition registrars : list registrar :=\n  {_l(regs)}.\n')
    out.append('(** tracked fields (definition order) of the dataclasses of nextline/types.py that the registrars build *)')
    out.append('Definition dataclass_fields : list (string * list string) :=\n  ' +
               _l(f'({_s(c)}, {_l(_s(f) for f, _ in dcs[c] if f not in IGNORED_FIELDS)})' for c in used_dcs).replace('); (', ');\n   (') + '.\n')
    out.append('(** NOT TRANSLATED: the text of every statement / assert / value of an untracked field that the')
    out.append('    translator left out of the bodies above (none of them mentions self, pubsub, await; the names')
    out.append('    they bind are never used in a translated position).  Pinned in Registrars/Tie.v. *)')
    out.append('Definition untranslated : list (string * list string) :=\n  ' +
               _l(f'({_s(h)}, {_l(_s(" ".join(x.split())) for x in pins)})' for h, pins in allpins).replace('); (', ');\n   (') + '.\n')
    out.append('(** OnEvent.on_event_in_process: event class -> hook *)')
    out.append('Definition funs_dispatch : list (string * string) :=\n  ' +
               _l(f'({_s(a)}, {_s(b)})' for a, b in disp).replace('); (', ');\n   (') + '.\n')
    return '\n'.join(out)


if __name__ == '__main__':
    import sys
    print(translate(Path(sys.argv[1] if len(sys.argv) > 1 else '/repo')))
