"""Fail-closed translator (genuine transcription into Gallina):

    nextline/plugin/plugins/argument.py   RunArgComposer.init / start / reset / compose_run_arg
    nextline/count.py                     RunNoCounter (+ CastedCounter, itertools.count)
    nextline/types.py                     InitOptions / ResetOptions / RunInfo (fields, types, defaults), RunNo
    nextline/spawned/types.py             RunArg (fields, types)
    nextline/main.py                      Nextline.__init__ / Nextline.reset: the InitOptions(...) / ResetOptions(...)
                                          built from the arguments, and the defaults of these arguments
    nextline/plugin/plugins/registrars/   run_no.py, run_info.py (on_initialize_run), script.py (on_change_script):
                                          what is published, computed from which value
  ->  coq/theories/Gen/ArgComposer.v   (obligations: coq/theories/Life/ArgTie.v)

How Python is rendered.
  * the tracked attributes `_run_no_count _statement _filename _trace_threads _trace_modules` are the fields of the
    record [Composer]; a method is a function of `self : Composer`; `self._x = e` is a functional update;
  * a statement (str | Path | code | callable) is an opaque id in Z (so its truth value is NOT available: an
    expression that needs it is refused); int -> Z, bool -> bool, str -> string, Optional[T] -> option T;
  * a counter object built by `RunNoCounter(e)` is the next value `itertools.count` will return (its step must be
    a constant); calling it returns a value and advances it ([RunNoCounter_call]);
  * expressions are translated with Python's semantics: `x is None / is not None` (with narrowing of the tested
    name / attribute path / walrus target in the branch), `a or b` / `a and b` (VALUE of the operand selected by the
    truth value of `a`: None, False, 0, '' are false), `not`, `a if t else b`, ==, !=, <, <=, >, >=, + - *, walrus;
  * `if` statements keep their position: the statements after an `if` become a local continuation `k`;
  * `await context.hook.ahook.on_change_script(...)` inside an async method is a suspension: the method returns
    [Await self (OnChangeScript script filename) k], `k` being the rest of the method applied to the composer as it
    is when the hook call returns; the end of the method is [Ret self].
Ignored (the shared rule): docstrings, `pass`, bare annotations of a local, `logger.<level>(...)` / `logger = getLogger(..)`
whose arguments contain no Call / walrus / await / yield / lambda / comprehension; comments.  `__repr__`/`__str__` of
RunArgComposer are not translated but must be inert (no store, no counter call).  NOT ignored: `assert` -- in start / reset it
is a branch ending in [Raise self], in the registrars a branch ending in [None], elsewhere refused.
Nextline.__init__ / Nextline.reset (main.py) are translated as statement lists: the generated function is the record handed
to Imp(...) / Imp.reset(...); stores through a record, `if`, loops, `try` there are refused.
Everything else in a tracked position raises [Unsupported] (= a broken tie obligation): other statements (`try`, `with`,
`raise`, loops), other calls, assignments to other attributes of self, other methods in RunArgComposer (`__post_init__`,
`__bool__`, ...), methods / bases / unusual decorators on the translated dataclasses, module-level re-binding of a translated
name, locals assigned under an `if` and used after it, side effects under a
short-circuit."""
from __future__ import annotations

import ast
from pathlib import Path

OUTPUT = 'ArgComposer.v'


class Unsupported(Exception):
    pass


# ---------------------------------------------------------------- types
INT, BOOL, STR, STMT, NONE, COUNTER, CONTEXT = 'int', 'bool', 'str', 'stmt', 'none', 'counter', 'context'


def Opt(t):
    return ('opt', t)


def Rec(n):
    return ('rec', n)


def is_opt(t):
    return isinstance(t, tuple) and t[0] == 'opt'


def is_rec(t):
    return isinstance(t, tuple) and t[0] == 'rec'


def coq_type(t) -> str:
    if t in (INT, STMT, COUNTER):
        return 'Z'
    if t == BOOL:
        return 'bool'
    if t == STR:
        return 'string'
    if is_opt(t):
        return f'(option {coq_type(t[1])})'
    if is_rec(t):
        return {'Context': 'HookContext'}.get(t[1], t[1])      # `Context` is a Coq vernacular
    raise Unsupported(f'no Coq type for {t}')


def show(t) -> str:
    return f'Optional[{show(t[1])}]' if is_opt(t) else (t[1] if is_rec(t) else str(t))


RESERVED = {'fun', 'end', 'match', 'let', 'fix', 'cofix', 'forall', 'exists', 'Type', 'Set', 'Prop', 'with', 'then', 'at',
            'using', 'where', 'struct', 'self', 'k', 'v', 'Some', 'None', 'true', 'false', 'Ret', 'Await', 'fst', 'snd'}

TRACKED = [('_run_no_count', COUNTER), ('_statement', STMT), ('_filename', STR), ('_trace_threads', BOOL), ('_trace_modules', BOOL)]
TRACKED_T = dict(TRACKED)
OPTION_FIELDS = ['statement', 'run_no_start_from', 'trace_threads', 'trace_modules']       # canonical order of *_kw builders
RUNARG_FIELDS = ['run_no', 'statement', 'filename', 'trace_threads', 'trace_modules']
PREFIX = {'InitOptions': 'io_', 'ResetOptions': 'ro_', 'RunArg': 'rg_', 'RunInfo': 'ri_', 'Context': 'cx_'}
LOG_METHODS = {'debug', 'info', 'warning', 'error', 'exception', 'critical', 'log'}
LOGGER_NAMES = {'logger', 'log', '_logger'}       # a local of this name is only ever a logger (any other assignment to it is refused)


def cstr(s: str) -> str:
    if not s.isascii() or any(ord(c) < 32 for c in s):
        raise Unsupported(f'string literal {s!r}')
    return '"' + s.replace('"', '""') + '"%string'


def cint(n: int) -> str:
    return f'({n})' if n < 0 else str(n)


def docless(body):
    if body and isinstance(body[0], ast.Expr) and isinstance(body[0].value, ast.Constant) and isinstance(body[0].value.value, str):
        return body[1:]
    return body


class Env:
    """names in scope.  vars: python local -> (Gallina term, type); narrow: source text of a tested expression ->
    (Gallina term, type) inside the branch where the test succeeded; store: attribute store of a method that
    CREATES the attributes (init) instead of the record variable `self`."""

    def __init__(self, vars=None, narrow=None, store=None, has_self=False):
        self.vars = dict(vars or {})
        self.narrow = dict(narrow or {})
        self.store = store
        self.has_self = has_self

    def copy(self):
        return Env(self.vars, self.narrow, self.store, self.has_self)


class Translator:
    def __init__(self, repo: Path):
        self.repo = repo
        self.n = 0
        self.records: dict[str, list] = {}       # name -> [(field, type, default term | None)]
        self.globals: dict[str, tuple] = {}      # module constants of argument.py
        self.counter_default = None
        self.where = '?'

    # ------------------------------------------------------------ helpers
    def fresh(self, base='v'):
        self.n += 1
        return f'{base}{self.n}'

    def bad(self, node, msg):
        ln = getattr(node, 'lineno', '?')
        raise Unsupported(f'{self.where}:{ln}: {msg}: `{ast.unparse(node)[:120]}`' if isinstance(node, ast.AST) else f'{self.where}: {msg}')

    @staticmethod
    def lname(name: str) -> str:
        return name + '_' if name in RESERVED or name.startswith('k') and name[1:].isdigit() or name.startswith('v') and name[1:].isdigit() else name

    def truthy(self, t, term, node=None) -> str:
        if t == BOOL:
            return term
        if t == INT:
            return f'(negb (Z.eqb {term} 0))'
        if t == STR:
            return f'(negb (String.eqb {term} ""%string))'
        if t == NONE:
            return 'false'
        if is_opt(t):
            v = self.fresh()
            return f'(match {term} with Some {v} => {self.truthy(t[1], v, node)} | None => false end)'
        if is_rec(t) and t[1] in self.records and t[1] != 'Context':
            return 'true'      # instance of a dataclass translated here: no __bool__ / __len__ (methods are refused)
        self.bad(node, f'the truth value of a value of type {show(t)} is not modelled')

    def eqb(self, t, a, b, node=None) -> str:
        if t in (INT, STMT):
            return f'(Z.eqb {a} {b})'
        if t == BOOL:
            return f'(Bool.eqb {a} {b})'
        if t == STR:
            return f'(String.eqb {a} {b})'
        if is_opt(t):
            x, y = self.fresh(), self.fresh()
            return (f'(match {a}, {b} with Some {x}, Some {y} => {self.eqb(t[1], x, y, node)} | None, None => true | _, _ => false end)')
        self.bad(node, f'== on {show(t)}')

    def coerce(self, term, t, want, node):
        """a value of type t used where `want` is declared"""
        if t == want:
            return term
        if is_opt(want) and t == NONE:
            return 'None'
        if is_opt(want) and t == want[1]:
            return f'(Some {term})'
        if want == COUNTER and t == COUNTER:
            return term
        self.bad(node, f'a value of type {show(t)} where {show(want)} is expected')

    # ------------------------------------------------------------ annotations / dataclasses
    def ann(self, a, node=None):
        if isinstance(a, ast.Name):
            m = {'int': INT, 'bool': BOOL, 'str': STR, 'Statement': STMT, 'RunNo': INT}
            if a.id in m:
                return m[a.id]
        if isinstance(a, ast.Subscript) and isinstance(a.value, ast.Name) and a.value.id == 'Optional':
            return Opt(self.ann(a.slice, node))
        if isinstance(a, ast.BinOp) and isinstance(a.op, ast.BitOr):
            if isinstance(a.right, ast.Constant) and a.right.value is None:
                return Opt(self.ann(a.left, node))
            if isinstance(a.left, ast.Constant) and a.left.value is None:
                return Opt(self.ann(a.right, node))
        self.bad(a, 'type annotation not understood')

    def const(self, e):
        if isinstance(e, ast.Constant):
            v = e.value
            if v is None:
                return 'None', NONE
            if v is True or v is False:
                return ('true' if v else 'false'), BOOL
            if isinstance(v, int):
                return cint(v), INT
            if isinstance(v, str):
                return cstr(v), STR
        if isinstance(e, ast.UnaryOp) and isinstance(e.op, ast.USub) and isinstance(e.operand, ast.Constant) and type(e.operand.value) is int:
            return cint(-e.operand.value), INT
        self.bad(e, 'constant expected')

    def dataclass(self, tree, name, only=None, rest_default_none=False):
        cs = [c for c in tree.body if isinstance(c, ast.ClassDef) and c.name == name]
        if len(cs) != 1:
            self.bad(tree, f'class {name} not found once')
        c = cs[0]
        decos = [ast.unparse(d) for d in c.decorator_list]
        if len(decos) != 1 or decos[0] not in ('dataclass', 'dataclasses.dataclass', 'dataclass(frozen=True)', 'dataclasses.dataclass(frozen=True)'):
            self.bad(c, f'{name}: decorators {decos}')
        if c.bases or c.keywords:
            self.bad(c, f'{name} has base classes')
        fields = []
        for st in docless(c.body):
            if isinstance(st, ast.Pass):
                continue
            if not (isinstance(st, ast.AnnAssign) and isinstance(st.target, ast.Name)):
                self.bad(st, f'statement in dataclass {name}')
            fname = st.target.id
            if only is not None and fname not in only:
                if rest_default_none and isinstance(st.value, ast.Constant) and st.value.value is None:
                    continue
                self.bad(st, f'field of {name} outside the translated ones must default to None')
            t = self.ann(st.annotation)
            d = None
            if st.value is not None:
                term, dt = self.const(st.value)
                d = self.coerce(term, dt, t, st)
            fields.append((fname, t, d))
        self.records[name] = fields
        return fields

    def emit_record(self, name, fields) -> list[str]:
        p = PREFIX[name]
        body = '; '.join(f'{p}{f} : {coq_type(t)}' for f, t, _ in fields)
        return [f'Record {name} := {name}_mk {{ {body} }}.']

    def emit_kw(self, name, order) -> list[str]:
        """builder with the arguments in a FIXED order (independent of the order of the fields in the source)"""
        fields = {f: (t, d) for f, t, d in self.records[name]}
        if sorted(fields) != sorted(order):
            raise Unsupported(f'{name}: fields {sorted(fields)} (expected {sorted(order)})')
        p = PREFIX[name]
        args = ' '.join(f'({f} : {coq_type(fields[f][0])})' for f in order)
        rec = '; '.join(f'{p}{f} := {f}' for f in order)
        return [f'Definition {name}_kw {args} : {name} := {{| {rec} |}}.']

    # ------------------------------------------------------------ expressions
    def is_self(self, e, env):
        return isinstance(e, ast.Name) and e.id == 'self' and env.has_self

    def expr(self, e, env: Env, pre: list, cond=False):
        """-> (Gallina term, type).  `pre`: let-lines to put before the enclosing statement (walrus, counter
        calls); `cond`: the expression is evaluated conditionally (short-circuit), side effects refused."""
        key = ast.unparse(e)
        if key in env.narrow:
            return env.narrow[key]
        if isinstance(e, ast.Constant) or (isinstance(e, ast.UnaryOp) and isinstance(e.op, ast.USub)):
            return self.const(e)
        if isinstance(e, ast.Name):
            if e.id in env.vars:
                return env.vars[e.id]
            if e.id in self.globals:
                return self.globals[e.id]
            self.bad(e, 'unknown name')
        if isinstance(e, ast.Attribute):
            if self.is_self(e.value, env):
                if e.attr not in TRACKED_T:
                    self.bad(e, 'untracked attribute of self')
                if env.store is not None:
                    if e.attr not in env.store:
                        self.bad(e, 'attribute read before it is assigned')
                    return env.store[e.attr]
                return f'(a{e.attr} self)', TRACKED_T[e.attr]
            bt, ty = self.expr(e.value, env, pre, cond)
            if is_rec(ty):
                for f, t, _ in self.records[ty[1]]:
                    if f == e.attr:
                        return f'({PREFIX[ty[1]]}{f} {bt})', t
            self.bad(e, f'attribute of a value of type {show(ty)}')
        if isinstance(e, ast.NamedExpr):
            if cond:
                self.bad(e, 'walrus under a short-circuit')
            v, t = self.expr(e.value, env, pre, cond)
            name = self.lname(e.target.id)
            pre.append(f'let {name} := {v} in')
            env.vars[e.target.id] = (name, t)
            for k in [k for k in env.narrow if k == e.target.id]:
                del env.narrow[k]
            return name, t
        if isinstance(e, ast.BoolOp):
            return self.boolop(e, env, pre, cond)
        if isinstance(e, ast.UnaryOp) and isinstance(e.op, ast.Not):
            return f'(negb {self.test(e.operand, env, pre, cond)})', BOOL
        if isinstance(e, ast.Compare):
            return self.compare(e, env, pre, cond), BOOL
        if isinstance(e, ast.IfExp):
            # first pass: the types of the two branches; second pass: the term, both coerced to their join
            types: dict[str, object] = {}

            def probe(which, sub):
                def f(env1):
                    types[which] = self.expr(sub, env1, [], True)[1]
                    return '_'
                return f
            self.cond(e.test, env.copy(), [], probe('a', e.body), probe('b', e.orelse), True)
            if 'a' not in types or 'b' not in types:
                self.bad(e, 'conditional expression')
            t = self.join(types['a'], types['b'], e)

            def build(sub):
                def f(env1):
                    v, tv = self.expr(sub, env1, pre, True)
                    return self.coerce(v, tv, t, e)
                return f
            return self.cond(e.test, env, pre, build(e.body), build(e.orelse), cond), t
        if isinstance(e, ast.BinOp) and isinstance(e.op, (ast.Add, ast.Sub, ast.Mult)):
            a, ta = self.expr(e.left, env, pre, cond)
            b, tb = self.expr(e.right, env, pre, cond)
            if ta != INT or tb != INT:
                self.bad(e, 'arithmetic on non-int')
            op = {ast.Add: '+', ast.Sub: '-', ast.Mult: '*'}[type(e.op)]
            return f'({a} {op} {b})', INT
        if isinstance(e, ast.Call):
            return self.call(e, env, pre, cond)
        self.bad(e, 'expression not understood')

    def join(self, ta, tb, node):
        if ta == tb:
            return ta
        if ta == NONE and is_opt(tb):
            return tb
        if tb == NONE and is_opt(ta):
            return ta
        if ta == NONE:
            return Opt(tb)
        if tb == NONE:
            return Opt(ta)
        if is_opt(ta) and ta[1] == tb:
            return ta
        if is_opt(tb) and tb[1] == ta:
            return tb
        self.bad(node, f'branches of types {show(ta)} and {show(tb)}')

    def boolop(self, e, env, pre, cond):
        """value semantics of `or` / `and` (left to right, the value of the deciding operand)"""
        vals = e.values
        a, ta = self.expr(vals[0], env, pre, cond)
        for nxt in vals[1:]:
            b, tb = self.expr(nxt, env, pre, True)
            if isinstance(e.op, ast.Or):
                # a if truth(a) else b
                if is_opt(ta) and (tb == ta[1]):
                    v = self.fresh()
                    a, ta = f'(match {a} with Some {v} => if {self.truthy(tb, v, e)} then {v} else {b} | None => {b} end)', tb
                else:
                    t = self.join(ta, tb, e)
                    a, ta = f'(if {self.truthy(ta, a, e)} then {self.coerce(a, ta, t, e)} else {self.coerce(b, tb, t, e)})', t
            else:
                # b if truth(a) else a
                t = self.join(ta, tb, e)
                a, ta = f'(if {self.truthy(ta, a, e)} then {self.coerce(b, tb, t, e)} else {self.coerce(a, ta, t, e)})', t
        return a, ta

    def compare(self, e, env, pre, cond) -> str:
        if len(e.ops) != 1:
            self.bad(e, 'chained comparison')
        op, r = e.ops[0], e.comparators[0]
        if isinstance(op, (ast.Is, ast.IsNot)):
            if not (isinstance(r, ast.Constant) and r.value is None):
                self.bad(e, '`is` with something else than None')
            a, ta = self.expr(e.left, env, pre, cond)
            if ta == NONE:
                res = 'true'
            elif is_opt(ta):
                res = f'(match {a} with Some _ => false | None => true end)'
            else:
                res = 'false'
            return res if isinstance(op, ast.Is) else f'(negb {res})'
        a, ta = self.expr(e.left, env, pre, cond)
        b, tb = self.expr(r, env, pre, cond)
        if isinstance(op, (ast.Eq, ast.NotEq)):
            t = self.join(ta, tb, e)
            res = self.eqb(t, self.coerce(a, ta, t, e), self.coerce(b, tb, t, e), e)
            return res if isinstance(op, ast.Eq) else f'(negb {res})'
        if ta == INT and tb == INT:
            f = {ast.Lt: 'Z.ltb', ast.LtE: 'Z.leb', ast.Gt: 'Z.gtb', ast.GtE: 'Z.geb'}.get(type(op))
            if f:
                return f'({f} {a} {b})'
        self.bad(e, 'comparison not understood')

    def test(self, e, env, pre, cond=False) -> str:
        """an expression in a boolean position -> Gallina bool"""
        if isinstance(e, ast.BoolOp):
            parts = [self.test(e.values[0], env, pre, cond)] + [self.test(v, env, pre, True) for v in e.values[1:]]
            f = 'orb' if isinstance(e.op, ast.Or) else 'andb'
            out = parts[-1]
            for p in reversed(parts[:-1]):
                out = f'({f} {p} {out})'
            return out
        if isinstance(e, ast.UnaryOp) and isinstance(e.op, ast.Not):
            return f'(negb {self.test(e.operand, env, pre, cond)})'
        a, t = self.expr(e, env, pre, cond)
        return self.truthy(t, a, e)

    def cond(self, t, env: Env, pre, then_f, else_f, cond=False) -> str:
        """Gallina term for `then_f(env') if t else else_f(env'')`: the branches are built in the environment
        narrowed by the test (`X is not None` / `X is None` on an option value, through `and` / `or` / `not`)."""
        if isinstance(t, ast.Compare) and len(t.ops) == 1 and isinstance(t.ops[0], (ast.Is, ast.IsNot)) \
                and isinstance(t.comparators[0], ast.Constant) and t.comparators[0].value is None:
            a, ta = self.expr(t.left, env, pre, cond)
            if is_opt(ta):
                tgt = t.left.target if isinstance(t.left, ast.NamedExpr) else t.left
                pure = isinstance(tgt, ast.Name) or (isinstance(tgt, ast.Attribute) and not any(isinstance(n, ast.Call) for n in ast.walk(tgt)))
                n = self.fresh('n')
                e_some, e_none = env.copy(), env.copy()
                if pure:
                    e_some.narrow[ast.unparse(tgt)] = (n, ta[1])
                some_f, none_f = (then_f, else_f) if isinstance(t.ops[0], ast.IsNot) else (else_f, then_f)
                return f'(match {a} with Some {n} => {some_f(e_some)} | None => {none_f(e_none)} end)'
        if isinstance(t, ast.BoolOp) and len(t.values) >= 2:
            first = t.values[0]
            rest = t.values[1] if len(t.values) == 2 else ast.copy_location(ast.BoolOp(op=t.op, values=t.values[1:]), t)
            if isinstance(t.op, ast.And):
                return self.cond(first, env, pre, lambda e1: self.cond(rest, e1, pre, then_f, else_f, True), else_f, cond)
            return self.cond(first, env, pre, then_f, lambda e1: self.cond(rest, e1, pre, then_f, else_f, True), cond)
        if isinstance(t, ast.UnaryOp) and isinstance(t.op, ast.Not):
            return self.cond(t.operand, env, pre, else_f, then_f, cond)
        if isinstance(t, (ast.Name, ast.Attribute, ast.NamedExpr)):
            a, ta = self.expr(t, env, pre, cond)
            if is_opt(ta):
                # the truth value of an Optional: false for None, else that of the content (which the branch may use)
                tgt = t.target if isinstance(t, ast.NamedExpr) else t
                n = self.fresh('n')
                e_some = env.copy()
                if not any(isinstance(x, ast.Call) for x in ast.walk(tgt)):
                    e_some.narrow[ast.unparse(tgt)] = (n, ta[1])
                return (f'(match {a} with Some {n} => (if {self.truthy(ta[1], n, t)} then {then_f(e_some)} else {else_f(env.copy())})'
                        f' | None => {else_f(env.copy())} end)')
            return f'(if {self.truthy(ta, a, t)} then {then_f(env.copy())} else {else_f(env.copy())})'
        b = self.test(t, env, pre, cond)
        return f'(if {b} then {then_f(env.copy())} else {else_f(env.copy())})'

    def call(self, e, env, pre, cond):
        f = e.func
        # the counter
        if isinstance(f, ast.Name) and f.id == 'RunNoCounter':
            if len(e.args) + len(e.keywords) > 1 or any(k.arg != 'start' for k in e.keywords):
                self.bad(e, 'arguments of RunNoCounter')
            arg = (e.args + [k.value for k in e.keywords])
            if arg:
                a, t = self.expr(arg[0], env, pre, cond)
                if t != INT:
                    self.bad(e, f'RunNoCounter of a value of type {show(t)}')
            else:
                a = 'RunNoCounter_default_start'
            return f'(RunNoCounter_new {a})', COUNTER
        if isinstance(f, ast.Attribute) and self.is_self(f.value, env) and f.attr == '_run_no_count' and not e.args and not e.keywords:
            if cond:
                self.bad(e, 'counter called under a short-circuit')
            if env.store is not None:
                self.bad(e, 'counter called in init')
            v = self.fresh('no')
            pre.append(f"let '({v}, self) := (let '(v, c) := RunNoCounter_call (a_run_no_count self) in (v, set_run_no_count self c)) in")
            return v, INT
        if isinstance(f, ast.Name) and f.id == 'bool' and len(e.args) == 1 and not e.keywords:
            return self.test(e.args[0], env, pre, cond), BOOL
        if isinstance(f, ast.Name) and f.id == 'isinstance' and len(e.args) == 2 and isinstance(e.args[1], ast.Name) and e.args[1].id == 'str':
            a, t = self.expr(e.args[0], env, pre, cond)
            if t == STMT and 'statement_is_str' in env.vars:
                return env.vars['statement_is_str'][0], BOOL
            self.bad(e, 'isinstance')
        # keyword construction of a known record
        if isinstance(f, ast.Name) and f.id in self.records and not e.args:
            fields = self.records[f.id]
            given = {}
            for k in e.keywords:        # evaluated in source order
                if k.arg is None or k.arg in given:
                    self.bad(e, 'keyword')
                given[k.arg] = self.expr(k.value, env, pre, cond)
            for k in given:
                if k not in [x for x, _, _ in fields]:
                    self.bad(e, f'unknown field {k}')
            parts = []
            for fn, t, d in fields:
                if fn in given:
                    parts.append(f'{PREFIX[f.id]}{fn} := {self.coerce(given[fn][0], given[fn][1], t, e)}')
                elif d is not None:
                    parts.append(f'{PREFIX[f.id]}{fn} := {d}')
                else:
                    self.bad(e, f'field {fn} of {f.id} not given')
            return '{| ' + '; '.join(parts) + ' |}', Rec(f.id)
        self.bad(e, 'call not understood')

    # ------------------------------------------------------------ statements
    def ignorable(self, s) -> bool:
        """the shared rule for ignored positions: docstrings, `pass`, bare annotations of a local, and logger calls /
        `logger = getLogger(..)` whose arguments contain no Call, NamedExpr, Await, Yield, Lambda or comprehension.
        Nothing else is ignored; in particular no `assert` (translated as a raising branch, or refused)."""
        if isinstance(s, ast.Pass):
            return True
        if isinstance(s, ast.Expr) and isinstance(s.value, ast.Constant):
            return True
        if isinstance(s, ast.AnnAssign) and s.value is None and isinstance(s.target, ast.Name):
            return True

        def clean(nodes) -> bool:
            for a in nodes:
                for n in ast.walk(a):
                    if isinstance(n, (ast.Call, ast.NamedExpr, ast.Await, ast.Yield, ast.YieldFrom, ast.Lambda, ast.ListComp, ast.SetComp,
                                      ast.DictComp, ast.GeneratorExp, ast.Starred)):
                        return False
            return True
        if isinstance(s, ast.Expr) and isinstance(s.value, ast.Call) and isinstance(s.value.func, ast.Attribute) \
                and s.value.func.attr in LOG_METHODS and isinstance(s.value.func.value, ast.Name) and s.value.func.value.id in LOGGER_NAMES:
            return clean(s.value.args + [k.value for k in s.value.keywords])
        if isinstance(s, ast.Assign) and len(s.targets) == 1 and isinstance(s.targets[0], ast.Name) and s.targets[0].id in LOGGER_NAMES \
                and isinstance(s.value, ast.Call) and ast.unparse(s.value.func) in ('getLogger', 'logging.getLogger'):
            return clean(s.value.args + [k.value for k in s.value.keywords])
        return False

    @staticmethod
    def stored_names(nodes) -> set:
        out = set()
        for s in nodes:
            for n in ast.walk(s):
                if isinstance(n, ast.Name) and isinstance(n.ctx, ast.Store):
                    out.add(n.id)
        return out

    @staticmethod
    def loaded_names(nodes) -> set:
        out = set()
        for s in nodes:
            for n in ast.walk(s):
                if isinstance(n, ast.Name) and isinstance(n.ctx, ast.Load):
                    out.add(n.id)
        return out

    def hook_call(self, s, env, pre):
        """`await context.hook.ahook.on_change_script(context=context, script=E1, filename=E2)` -> constructor term"""
        c = s.value.value
        if not (isinstance(c, ast.Call) and ast.unparse(c.func) == 'context.hook.ahook.on_change_script' and not c.args):
            self.bad(s, 'await of something else than context.hook.ahook.on_change_script(...)')
        kw = {k.arg: k.value for k in c.keywords}
        if sorted(kw) != ['context', 'filename', 'script'] or ast.unparse(kw['context']) != 'context':
            self.bad(s, 'arguments of on_change_script')
        order = [k.arg for k in c.keywords if k.arg != 'context']
        vals = {}
        for name in order:
            vals[name] = self.expr(kw[name], env, pre)
        sc, fn = vals['script'], vals['filename']
        if sc[1] != STMT or fn[1] != STR:
            self.bad(s, f'on_change_script(script: {show(sc[1])}, filename: {show(fn[1])})')
        return f'(OnChangeScript {sc[0]} {fn[0]})'

    def block(self, stmts, env: Env, kind: str, tail) -> str:
        """statements -> Gallina term.  `tail(env)`: what follows the block."""
        stmts = [s for s in stmts if not self.ignorable(s)]
        if not stmts:
            return tail(env)
        s, rest = stmts[0], stmts[1:]
        pre: list[str] = []

        def out(term):
            return '\n'.join(pre + [term])

        if isinstance(s, ast.AnnAssign) and s.value is not None:
            s = ast.copy_location(ast.Assign(targets=[s.target], value=s.value), s)
        if isinstance(s, ast.Assign):
            if len(s.targets) != 1:
                self.bad(s, 'multiple assignment')
            tg = s.targets[0]
            v, t = self.expr(s.value, env, pre)
            if isinstance(tg, ast.Attribute) and self.is_self(tg.value, env):
                if tg.attr not in TRACKED_T:
                    self.bad(s, 'assignment to an untracked attribute of self')
                v = self.coerce(v, t, TRACKED_T[tg.attr], s)
                if env.store is not None:
                    name = self.fresh('a')
                    pre.append(f'let {name} := {v} in')
                    env.store[tg.attr] = (name, TRACKED_T[tg.attr])
                else:
                    pre.append(f'let self := set{tg.attr} self {v} in')
                return out(self.block(rest, env, kind, tail))
            if isinstance(tg, ast.Name):
                if tg.id in LOGGER_NAMES:
                    self.bad(s, 'a name reserved for loggers is assigned something else')
                name = self.lname(tg.id)
                pre.append(f'let {name} := {v} in')
                env.vars[tg.id] = (name, t)
                env.narrow.pop(tg.id, None)
                return out(self.block(rest, env, kind, tail))
            self.bad(s, 'assignment target')
        if isinstance(s, ast.Assert):
            # `assert t[, msg]`: AssertionError out of the method, the attributes as they are at that point
            if kind != 'async':
                self.bad(s, 'assert in a method whose translation has no raising outcome')
            if s.msg is not None and not isinstance(s.msg, ast.Constant):
                self.bad(s, 'assert message')
            probe_pre: list[str] = []
            self.cond(s.test, env, probe_pre, lambda e1: '_', lambda e1: '_')
            pre.extend(probe_pre)
            return out(self.cond(s.test, env, [], lambda e1: self.block(rest, e1, kind, tail), lambda e1: 'Raise self'))
        if isinstance(s, ast.Return):
            if kind == 'value':
                if s.value is None:
                    self.bad(s, 'return without a value')
                v, t = self.expr(s.value, env, pre)
                if t != Rec('RunArg'):
                    self.bad(s, f'returns a value of type {show(t)}')
                return out(f'({v}, self)')
            if s.value is not None and not (isinstance(s.value, ast.Constant) and s.value.value is None):
                self.bad(s, 'return with a value')
            return out(self.final(env, kind))
        if isinstance(s, ast.If):
            if env.store is not None:
                self.bad(s, '`if` in a method that creates the attributes')
            # `if t: x = A  else: x = B`  ==  `x = A if t else B`
            if len(s.body) == 1 and len(s.orelse) == 1 and all(isinstance(b, ast.Assign) and len(b.targets) == 1 and isinstance(b.targets[0], ast.Name)
                                                                for b in (s.body[0], s.orelse[0])) and s.body[0].targets[0].id == s.orelse[0].targets[0].id:
                eq = ast.Assign(targets=[s.body[0].targets[0]], value=ast.IfExp(test=s.test, body=s.body[0].value, orelse=s.orelse[0].value))
                ast.copy_location(eq, s)
                ast.fix_missing_locations(eq)
                return self.block([eq] + rest, env, kind, tail)
            # `if t: ...; return` followed by REST  ==  `if t: ...; return  else: REST`
            if not s.orelse and rest and isinstance(s.body[-1], ast.Return):
                s = ast.copy_location(ast.If(test=s.test, body=s.body, orelse=rest), s)
                rest = []
            leaked = self.stored_names(s.body + s.orelse) & (self.loaded_names(rest))
            if leaked:
                self.bad(s, f'locals {sorted(leaked)} assigned under this `if` are used after it')
            # the test first (its walrus bindings are visible in the rest)
            probe_pre: list[str] = []
            self.cond(s.test, env, probe_pre, lambda e1: '_', lambda e1: '_')
            pre.extend(probe_pre)
            if rest:
                k = self.fresh('k')
                rest_code = self.block(rest, env.copy(), kind, tail)
                pre.append(f'let {k} := fun (self : Composer) =>\n{rest_code} in')
                btail = (lambda env2, k=k: f'{k} self')
            else:
                btail = tail
            term = self.cond(s.test, env, [], lambda e1: self.block(s.body, e1, kind, btail), lambda e1: self.block(s.orelse, e1, kind, btail))
            return out(term)
        if isinstance(s, ast.Expr) and isinstance(s.value, ast.Await):
            if kind != 'async':
                self.bad(s, 'await in a sync method')
            h = self.hook_call(s, env, pre)
            rest_code = self.block(rest, env.copy(), kind, tail)
            return out(f'Await self {h} (fun (self : Composer) =>\n{rest_code})')
        self.bad(s, 'statement not understood')

    def final(self, env, kind) -> str:
        if kind == 'async':
            return 'Ret self'
        if kind == 'init':
            missing = [a for a, _ in TRACKED if a not in env.store]
            if missing:
                raise Unsupported(f'{self.where}: init does not assign {missing}')
            return 'Composer_mk ' + ' '.join(env.store[a][0] for a, _ in TRACKED)
        raise Unsupported(f'{self.where}: the method can end without returning a RunArg')

    # ------------------------------------------------------------ the pieces
    def types_py(self) -> list[str]:
        self.where = 'nextline/types.py'
        tree = ast.parse((self.repo / 'nextline/types.py').read_text())
        newt = [s for s in tree.body if isinstance(s, ast.Assign) and ast.unparse(s.targets[0]) == 'RunNo']
        if len(newt) != 1 or ast.unparse(newt[0].value) != "NewType('RunNo', int)":
            raise Unsupported("types.py: RunNo is not NewType('RunNo', int)")
        out = ['(** ---- nextline/types.py ---- *)']
        for name in ('InitOptions', 'ResetOptions'):
            self.dataclass(tree, name)
            out += self.emit_record(name, self.records[name]) + self.emit_kw(name, OPTION_FIELDS)
        # defaults: the record built from the fields that have none
        for name in ('InitOptions', 'ResetOptions'):
            fields = self.records[name]
            req = [(f, t) for f, t, d in fields if d is None]
            args = ''.join(f' ({f} : {coq_type(t)})' for f, t in req)
            rec = '; '.join(f'{PREFIX[name]}{f} := {d if d is not None else f}' for f, t, d in fields)
            out.append(f'(* {name}({", ".join(f for f, _ in req)}): every other field at its default *)')
            out.append(f'Definition {name}_defaults{args} : {name} := {{| {rec} |}}.')
        self.dataclass(tree, 'RunInfo', only=['run_no', 'state', 'script'], rest_default_none=True)
        # script: Optional[str] holds the statement when it is a str
        self.records['RunInfo'] = [(f, Opt(STMT) if f == 'script' and t == Opt(STR) else t, d) for f, t, d in self.records['RunInfo']]
        if [(f, t) for f, t, _ in self.records['RunInfo']] != [('run_no', INT), ('state', STR), ('script', Opt(STMT))]:
            raise Unsupported('types.py: RunInfo fields run_no/state/script')
        out += self.emit_record('RunInfo', self.records['RunInfo'])
        self.where = 'nextline/spawned/types.py'
        tree = ast.parse((self.repo / 'nextline/spawned/types.py').read_text())
        self.dataclass(tree, 'RunArg')
        if sorted(f for f, _, _ in self.records['RunArg']) != sorted(RUNARG_FIELDS):
            raise Unsupported(f'spawned/types.py: RunArg fields {[f for f, _, _ in self.records["RunArg"]]}')
        out += ['(** ---- nextline/spawned/types.py ---- *)'] + self.emit_record('RunArg', self.records['RunArg'])
        return out

    def count_py(self) -> list[str]:
        self.where = 'nextline/count.py'
        tree = ast.parse((self.repo / 'nextline/count.py').read_text())
        if not any(isinstance(s, ast.ImportFrom) and s.module == 'itertools' and any(a.name == 'count' and a.asname is None for a in s.names) for s in tree.body):
            raise Unsupported('count.py: `from itertools import count` not found')
        binders = [(al.asname or al.name, s.module) for s in tree.body if isinstance(s, ast.ImportFrom) for al in s.names] + \
                  [((al.asname or al.name).split('.')[0], None) for s in tree.body if isinstance(s, ast.Import) for al in s.names]
        if [m for n, m in binders if n == 'count'] != ['itertools'] or [m for n, m in binders if n == 'RunNo'] != ['nextline.types'] \
                or any(n in ('RunNoCounter', 'CastedCounter') for n, _ in binders):
            raise Unsupported('count.py: count / RunNo / RunNoCounter / CastedCounter are not bound exactly by the expected imports and defs')
        for s in tree.body:
            if not isinstance(s, (ast.Import, ast.ImportFrom, ast.FunctionDef, ast.Assign, ast.AnnAssign)) and not self.ignorable(s):
                self.bad(s, 'module-level statement of count.py')
            if isinstance(s, ast.Assign) and any(not isinstance(t, ast.Name) for t in s.targets):
                self.bad(s, 'module-level store through an object in count.py')
            if isinstance(s, (ast.FunctionDef, ast.ClassDef, ast.AsyncFunctionDef)) and s.name in ('count', 'RunNo'):
                raise Unsupported(f'count.py: {s.name} redefined')
            if isinstance(s, (ast.Assign, ast.AnnAssign)) and ({'count', 'RunNo', 'RunNoCounter', 'CastedCounter'} & self.stored_names([s])):
                raise Unsupported('count.py: a tracked name is re-bound')

        def fn(name):
            fs = [s for s in tree.body if isinstance(s, ast.FunctionDef) and s.name == name]
            if len(fs) != 1 or fs[0].decorator_list:
                raise Unsupported(f'count.py: function {name}')
            return fs[0]

        f = fn('RunNoCounter')
        a = f.args
        if a.posonlyargs or a.kwonlyargs or a.vararg or a.kwarg or [x.arg for x in a.args] != ['start'] or len(a.defaults) != 1:
            self.bad(f, 'signature of RunNoCounter')
        dflt, dt = self.const(a.defaults[0])
        if dt != INT:
            self.bad(f, 'default of start')
        body = [s for s in docless(f.body) if not self.ignorable(s)]
        if len(body) != 1 or not isinstance(body[0], ast.Return):
            self.bad(f, 'body of RunNoCounter')
        r = body[0].value
        if not (isinstance(r, ast.Call) and isinstance(r.func, ast.Name) and r.func.id == 'CastedCounter' and len(r.args) == 2 and not r.keywords
                and isinstance(r.args[1], ast.Name) and r.args[1].id == 'RunNo'
                and isinstance(r.args[0], ast.Attribute) and r.args[0].attr == '__next__' and isinstance(r.args[0].value, ast.Call)
                and isinstance(r.args[0].value.func, ast.Name) and r.args[0].value.func.id == 'count'):
            self.bad(body[0], 'RunNoCounter is not CastedCounter(count(..).__next__, RunNo)')
        cc = r.args[0].value
        cargs = {}
        for i, x in enumerate(cc.args):
            cargs[['start', 'step'][i] if i < 2 else self.bad(cc, 'count(...)')] = x
        for k in cc.keywords:
            if k.arg not in ('start', 'step') or k.arg in cargs:
                self.bad(cc, 'count(...)')
            cargs[k.arg] = k.value
        pre: list[str] = []
        env = Env(vars={'start': ('start', INT)})
        st, stt = self.expr(cargs['start'], env, pre) if 'start' in cargs else ('0', INT)
        sp, spt = self.expr(cargs['step'], Env(), pre) if 'step' in cargs else ('1', INT)
        if stt != INT or spt != INT or pre:
            self.bad(cc, 'count(start, step) with int start and constant int step')
        g = fn('CastedCounter')
        if [x.arg for x in g.args.args] != ['src', 'type_'] or g.args.defaults or g.args.kwonlyargs or g.args.vararg or g.args.kwarg:
            self.bad(g, 'signature of CastedCounter')
        gb = [s for s in docless(g.body) if not self.ignorable(s)]
        if not (len(gb) == 2 and isinstance(gb[0], ast.FunctionDef) and isinstance(gb[1], ast.Return) and isinstance(gb[1].value, ast.Name)
                and gb[1].value.id == gb[0].name and not gb[0].args.args and not gb[0].decorator_list):
            self.bad(g, 'CastedCounter is not `def casted_counter(): ...; return casted_counter`')
        ib = [s for s in docless(gb[0].body) if not self.ignorable(s)]
        if len(ib) != 1 or not isinstance(ib[0], ast.Return) or ib[0].value is None:
            self.bad(gb[0], 'body of casted_counter')

        calls = [0]

        def val(e):
            # type_(x) is the identity (RunNo = NewType(.., int)); src() is the value taken from the count object
            if isinstance(e, ast.Call) and isinstance(e.func, ast.Name) and e.func.id == 'type_' and len(e.args) == 1 and not e.keywords:
                return val(e.args[0])
            if isinstance(e, ast.Call) and isinstance(e.func, ast.Name) and e.func.id == 'src' and not e.args and not e.keywords:
                calls[0] += 1
                return 'taken'
            if isinstance(e, ast.BinOp) and isinstance(e.op, (ast.Add, ast.Sub, ast.Mult)):
                op = {ast.Add: '+', ast.Sub: '-', ast.Mult: '*'}[type(e.op)]
                return f'({val(e.left)} {op} {val(e.right)})'
            if isinstance(e, ast.Constant) and type(e.value) is int:
                return cint(e.value)
            self.bad(e, 'expression in casted_counter')

        v = val(ib[0].value)
        if calls[0] != 1:
            self.bad(ib[0], 'casted_counter must take exactly one value from src')
        self.counter_default = dflt
        return ['(** ---- nextline/count.py: RunNoCounter(start) = CastedCounter(count(..).__next__, RunNo) ----',
                '    a counter object is represented by the next value its itertools.count will yield *)',
                f'Definition RunNoCounter_default_start : Z := {dflt}.',
                f'Definition RunNoCounter_new (start : Z) : Z := {st}.',
                '(* calling it: (value returned, the counter afterwards) *)',
                f'Definition RunNoCounter_call (c : Z) : Z * Z := let taken := c in let c := (c + {sp}) in ({v}, c).']

    def method(self, cls, name, is_async):
        fs = [f for f in cls.body if isinstance(f, (ast.FunctionDef, ast.AsyncFunctionDef)) and f.name == name]
        if len(fs) != 1:
            raise Unsupported(f'{self.where}: method {name} not found once')
        f = fs[0]
        if isinstance(f, ast.AsyncFunctionDef) != is_async:
            self.bad(f, f'{name}: sync/async changed')
        decos = [ast.unparse(d) for d in f.decorator_list]
        if decos != ['hookimpl']:
            self.bad(f, f'decorators of {name}: {decos}')
        a = f.args
        if a.posonlyargs or a.kwonlyargs or a.vararg or a.kwarg or a.defaults:
            self.bad(f, f'signature of {name}')
        return f, [x.arg for x in a.args]

    def argument_py(self) -> list[str]:
        self.where = 'nextline/plugin/plugins/argument.py'
        tree = ast.parse((self.repo / 'nextline/plugin/plugins/argument.py').read_text())
        out = ['(** ---- nextline/plugin/plugins/argument.py ---- *)']
        imported = {}
        for s in tree.body:
            if isinstance(s, ast.ImportFrom):
                for al in s.names:
                    if (al.asname or al.name) in imported:
                        self.bad(s, 'a name is imported twice')
                    imported[al.asname or al.name] = (s.module, al.name)
            elif isinstance(s, ast.Import):
                pass
            elif isinstance(s, ast.Assign) and len(s.targets) == 1 and isinstance(s.targets[0], ast.Name):
                term, t = self.const(s.value)
                nm = s.targets[0].id
                if nm in imported or nm in self.globals or nm in ('RunArgComposer', 'hookimpl', 'Context'):
                    self.bad(s, 'module-level re-binding')
                self.globals[nm] = (nm, t)
                out.append(f'Definition {nm} : {coq_type(t)} := {term}.')
            elif (isinstance(s, ast.ClassDef) and s.name == 'RunArgComposer') or self.ignorable(s):
                pass
            else:
                self.bad(s, 'module-level statement')
        want = {'RunNoCounter': ('nextline.count', 'RunNoCounter'), 'RunArg': ('nextline.spawned', 'RunArg'),
                'InitOptions': ('nextline.types', 'InitOptions'), 'ResetOptions': ('nextline.types', 'ResetOptions')}
        for k, v in want.items():
            if imported.get(k) != v:
                raise Unsupported(f'argument.py: {k} is not imported from {v[0]}')
        cs = [c for c in tree.body if isinstance(c, ast.ClassDef) and c.name == 'RunArgComposer']
        if len(cs) != 1 or cs[0].bases or cs[0].decorator_list:
            raise Unsupported('argument.py: class RunArgComposer')
        cls = cs[0]
        known = {'init', 'start', 'reset', 'compose_run_arg', '__repr__', '__str__'}
        for st in docless(cls.body):
            if isinstance(st, (ast.FunctionDef, ast.AsyncFunctionDef)):
                if st.name not in known:
                    self.bad(st, f'unknown method {st.name} of RunArgComposer')
                if st.name in ('__repr__', '__str__'):
                    # untranslated: must be inert (no store through anything, no call of the counter, no await/walrus)
                    for n in ast.walk(st):
                        if isinstance(n, (ast.Await, ast.NamedExpr, ast.Yield, ast.YieldFrom, ast.Global, ast.Nonlocal, ast.Delete)) or \
                                (isinstance(n, (ast.Attribute, ast.Subscript)) and isinstance(n.ctx, (ast.Store, ast.Del))) or \
                                (isinstance(n, ast.Call) and ('_run_no_count' in ast.unparse(n.func) or ast.unparse(n.func) in ('setattr', 'delattr', 'vars', 'exec', 'eval'))) or \
                                (isinstance(n, ast.Attribute) and n.attr == '__dict__'):
                            self.bad(n, f'{st.name} is not inert')
            elif not self.ignorable(st):
                self.bad(st, 'statement in the body of RunArgComposer')
        fields = '; '.join(f'a{a} : {coq_type(t)}' for a, t in TRACKED)
        out += [f'Record Composer := Composer_mk {{ {fields} }}.']
        names = [a for a, _ in TRACKED]
        for a, t in TRACKED:
            args = ' '.join('x' if b == a else f'(a{b} self)' for b in names)
            out.append(f'Definition set{a} (self : Composer) (x : {coq_type(t)}) : Composer := Composer_mk {args}.')
        out += ['(* a hook awaited inside a method, and a method that may suspend there *)',
                'Inductive hookcall := OnChangeScript (script : Z) (filename : string).',
                '(* Ret: the method returns; Raise: an assert of the method fails (the attributes as they are then); Await: suspended in the hook *)',
                'Inductive susp := Ret (self : Composer) | Raise (self : Composer) | Await (self : Composer) (h : hookcall) (k : Composer -> susp).']
        # init
        f, params = self.method(cls, 'init', False)
        if params != ['self', 'init_options']:
            self.bad(f, 'parameters of init')
        env = Env(vars={'init_options': ('init_options', Rec('InitOptions'))}, store={}, has_self=True)
        body = self.block(docless(f.body), env, 'init', lambda e: self.final(e, 'init'))
        out.append(f'Definition RunArgComposer_init (init_options : InitOptions) : Composer :=\n{body}.')
        # start
        f, params = self.method(cls, 'start', True)
        if params != ['self', 'context']:
            self.bad(f, 'parameters of start')
        env = Env(vars={'context': ('context', CONTEXT)}, has_self=True)
        body = self.block(docless(f.body), env, 'async', lambda e: self.final(e, 'async'))
        out.append(f'Definition RunArgComposer_start (self : Composer) : susp :=\n{body}.')
        # reset
        f, params = self.method(cls, 'reset', True)
        if params != ['self', 'context', 'reset_options']:
            self.bad(f, 'parameters of reset')
        env = Env(vars={'context': ('context', CONTEXT), 'reset_options': ('reset_options', Rec('ResetOptions'))}, has_self=True)
        body = self.block(docless(f.body), env, 'async', lambda e: self.final(e, 'async'))
        out.append(f'Definition RunArgComposer_reset (self : Composer) (reset_options : ResetOptions) : susp :=\n{body}.')
        # compose_run_arg
        f, params = self.method(cls, 'compose_run_arg', False)
        if params != ['self']:
            self.bad(f, 'parameters of compose_run_arg')
        env = Env(has_self=True)
        body = self.block(docless(f.body), env, 'value', lambda e: self.final(e, 'value'))
        out.append(f'Definition RunArgComposer_compose_run_arg (self : Composer) : RunArg * Composer :=\n{body}.')
        return out

    def main_py(self) -> list[str]:
        """Nextline.__init__ / Nextline.reset as STATEMENT LISTS: every statement of the two bodies is either translated
        (a local or `self._x` bound to a translatable expression; the final hand-over of the record), ignorable by the
        shared rule, or -- in __init__ only -- an assignment `self._y = e` whose `e` mentions neither an option argument
        nor the option record.  Stores through a record (`reset_options.x = ..`), `if`, loops, `try`, re-binding of
        an option argument by anything but a translatable expression: refused.  The generated function is the record
        that is HANDED OVER (`self._imp.reset(reset_options=E)`, `Imp(nextline=self, init_options=E)`), as a function of
        the arguments."""
        self.where = 'nextline/main.py'
        tree = ast.parse((self.repo / 'nextline/main.py').read_text())
        cs = [c for c in tree.body if isinstance(c, ast.ClassDef) and c.name == 'Nextline']
        if len(cs) != 1:
            raise Unsupported('main.py: class Nextline')
        for st in tree.body:        # the records and Imp are the imported ones
            if isinstance(st, (ast.Assign, ast.AnnAssign, ast.FunctionDef, ast.AsyncFunctionDef, ast.ClassDef)) and \
                    ({'InitOptions', 'ResetOptions', 'Imp'} & (self.stored_names([st]) | {getattr(st, 'name', '')})):
                self.bad(st, 'a name of the option plumbing is re-bound in main.py')
        out = ['(** ---- nextline/main.py: the option record Nextline(...) hands to Imp / Nextline.reset(...) hands to Imp.reset,',
               '     computed by the statements of the two methods ---- *)']
        for meth, rec, tag in (('__init__', 'InitOptions', 'Nextline_init'), ('reset', 'ResetOptions', 'Nextline_reset')):
            fs = [f for f in cs[0].body if isinstance(f, (ast.FunctionDef, ast.AsyncFunctionDef)) and f.name == meth]
            if len(fs) != 1 or fs[0].decorator_list:
                raise Unsupported(f'main.py: Nextline.{meth}')
            f = fs[0]
            a = f.args
            if a.posonlyargs or a.vararg or a.kwarg or a.kwonlyargs:
                self.bad(f, 'signature')
            params = a.args[1:]
            defaults = [None] * (len(params) - len(a.defaults)) + list(a.defaults)
            ptypes, pdef = {}, {}
            other_params = set()
            for p, d in zip(params, defaults):
                if p.arg in OPTION_FIELDS:
                    if p.annotation is None:
                        self.bad(f, f'argument {p.arg} without annotation')
                    ptypes[p.arg] = self.ann(p.annotation)
                    if d is not None:
                        term, dt = self.const(d)
                        pdef[p.arg] = self.coerce(term, dt, ptypes[p.arg], f)
                else:
                    other_params.add(p.arg)
            if sorted(ptypes) != sorted(OPTION_FIELDS):
                self.bad(f, f'arguments {sorted(ptypes)}')
            env = Env(vars={p: (self.lname(p), t) for p, t in ptypes.items()})
            lets: list[str] = []
            attrs: dict[str, tuple] = {}          # self._x -> (term, type), the translated ones
            handed = None

            def mentions_options(node) -> bool:
                for n in ast.walk(node):
                    if isinstance(n, ast.Name) and (n.id in env.vars):
                        return True
                    if isinstance(n, ast.Attribute) and isinstance(n.value, ast.Name) and n.value.id == 'self' and ('self.' + n.attr) in attrs:
                        return True
                return False

            def hand_over(call, kwname):
                kw = {k.arg: k.value for k in call.keywords}
                if call.args or kwname not in kw or None in kw:
                    self.bad(call, 'hand-over of the option record')
                pre: list[str] = []
                e2 = env.copy()
                e2.narrow.update({k: v for k, v in attrs.items()})
                term, t = self.expr(kw[kwname], e2, pre)
                if pre or t != Rec(rec):
                    self.bad(call, f'a value of type {show(t)} is handed over')
                for k, v in kw.items():
                    if k != kwname and not (isinstance(v, ast.Name) and v.id == 'self'):
                        self.bad(call, 'other argument of the hand-over')
                return term

            for st in docless(f.body):
                if self.ignorable(st):
                    continue
                if handed is not None:
                    self.bad(st, 'statement after the hand-over of the option record')
                if isinstance(st, ast.AnnAssign) and st.value is not None:
                    st = ast.copy_location(ast.Assign(targets=[st.target], value=st.value), st)
                # the hand-over
                if meth == 'reset' and isinstance(st, ast.Expr) and isinstance(st.value, ast.Await) and isinstance(st.value.value, ast.Call) \
                        and ast.unparse(st.value.value.func) == 'self._imp.reset':
                    handed = hand_over(st.value.value, 'reset_options')
                    continue
                if meth == '__init__' and isinstance(st, ast.Assign) and ast.unparse(st.targets[0]) == 'self._imp' and len(st.targets) == 1 \
                        and isinstance(st.value, ast.Call) and ast.unparse(st.value.func) == 'Imp':
                    handed = hand_over(st.value, 'init_options')
                    continue
                if isinstance(st, ast.Assign) and len(st.targets) == 1:
                    tg = st.targets[0]
                    is_self_attr = isinstance(tg, ast.Attribute) and isinstance(tg.value, ast.Name) and tg.value.id == 'self'
                    if isinstance(tg, ast.Name) or is_self_attr:
                        key = tg.id if isinstance(tg, ast.Name) else 'self.' + tg.attr
                        if not mentions_options(st.value):
                            # unrelated state of the object (__init__ only): must not touch what is tracked
                            if meth == '__init__' and is_self_attr and key not in attrs and key != 'self._imp':
                                continue
                            self.bad(st, 'assignment not understood')
                        pre: list[str] = []
                        e2 = env.copy()
                        e2.narrow.update(attrs)
                        v, t = self.expr(st.value, e2, pre)
                        if pre:
                            self.bad(st, 'side effect')
                        name = self.fresh('x')
                        lets.append(f'let {name} := {v} in')
                        if isinstance(tg, ast.Name):
                            if tg.id in LOGGER_NAMES:
                                self.bad(st, 'logger name')
                            env.vars[tg.id] = (name, t)
                        else:
                            attrs[key] = (name, t)
                        continue
                    self.bad(st, 'a store through an object (option records must not be modified)')
                self.bad(st, 'statement not understood')
            if handed is None:
                self.bad(f, 'the option record is not handed over')
            args = ' '.join(f'({self.lname(p)} : {coq_type(ptypes[p])})' for p in OPTION_FIELDS)
            body = '\n'.join('  ' + l for l in lets + [handed])
            out.append(f'Definition {tag}_options {args} : {rec} :=\n{body}.')
            for p in OPTION_FIELDS:
                if p in pdef:
                    out.append(f'Definition {tag}_default_{p} : {coq_type(ptypes[p])} := {pdef[p]}.')
        return out

    def registrar(self, rel, cls_name, meth, params: dict, extra_args: list[str]):
        """a straight-line async hook implementation that publishes -> `option (list (topic * value))`: [None] = an assert of
        the method fails (AssertionError), [Some l] = it returns having published l in this order"""
        self.where = rel
        tree = ast.parse((self.repo / rel).read_text())
        cs = [c for c in tree.body if isinstance(c, ast.ClassDef) and c.name == cls_name]
        if len(cs) != 1 or cs[0].bases or cs[0].decorator_list:
            raise Unsupported(f'{rel}: class {cls_name}')
        fs = [f for f in cs[0].body if isinstance(f, ast.AsyncFunctionDef) and f.name == meth]
        if len(fs) != 1 or [ast.unparse(d) for d in fs[0].decorator_list] != ['hookimpl']:
            raise Unsupported(f'{rel}: {cls_name}.{meth}')
        f = fs[0]
        got = [x.arg for x in f.args.args]
        if got != ['self'] + list(params) or f.args.defaults or f.args.kwonlyargs or f.args.vararg or f.args.kwarg:
            self.bad(f, f'parameters {got}')
        env = Env(vars=dict(params))
        for n in extra_args:
            env.vars[n] = (n, BOOL)

        def go(stmts, env, pubs) -> str:
            stmts = [x for x in stmts if not self.ignorable(x)]
            if not stmts:
                return 'Some [' + '; '.join(pubs) + ']'
            s, rest = stmts[0], stmts[1:]
            pre: list[str] = []
            if isinstance(s, ast.Assert):
                if s.msg is not None and not isinstance(s.msg, ast.Constant):
                    self.bad(s, 'assert message')
                self.cond(s.test, env, pre, lambda e1: '_', lambda e1: '_')
                body = self.cond(s.test, env, [], lambda e1: go(rest, e1, pubs), lambda e1: 'None')
                return '\n'.join(pre + [body])
            if isinstance(s, ast.If) and len(s.body) == 1 and len(s.orelse) == 1 and all(
                    isinstance(b, ast.Assign) and len(b.targets) == 1 and isinstance(b.targets[0], ast.Name) for b in (s.body[0], s.orelse[0])) \
                    and s.body[0].targets[0].id == s.orelse[0].targets[0].id:
                val = ast.IfExp(test=s.test, body=s.body[0].value, orelse=s.orelse[0].value)
                s = ast.copy_location(ast.Assign(targets=[s.body[0].targets[0]], value=val), s)
                ast.fix_missing_locations(s)
            if isinstance(s, ast.Assign) and len(s.targets) == 1:
                tg = s.targets[0]
                key = None
                if isinstance(tg, ast.Attribute) and isinstance(tg.value, ast.Name) and tg.value.id == 'self':
                    key = ast.unparse(tg)
                elif isinstance(tg, ast.Name) and tg.id not in LOGGER_NAMES and tg.id not in params:
                    key = tg.id
                if key is None:
                    self.bad(s, 'assignment target')
                v, t = self.expr(s.value, env, pre)
                name = self.fresh('x')
                pre.append(f'let {name} := {v} in')
                if isinstance(tg, ast.Name):
                    env.vars[key] = (name, t)
                    env.narrow.pop(key, None)
                else:
                    env.narrow[key] = (name, t)      # later reads of self._attr
                return '\n'.join(pre + [go(rest, env, pubs)])
            if isinstance(s, ast.Expr) and isinstance(s.value, ast.Await) and isinstance(s.value.value, ast.Call) \
                    and ast.unparse(s.value.value.func) == 'context.pubsub.publish' and len(s.value.value.args) == 2 and not s.value.value.keywords:
                topic, tt = self.const(s.value.value.args[0])
                v, t = self.expr(s.value.value.args[1], env, pre)
                ctor = {INT: 'PvInt', STMT: 'PvStmt', STR: 'PvStr', Rec('RunInfo'): 'PvRunInfo'}.get(t)
                if tt != STR or ctor is None:
                    self.bad(s, f'publication of a value of type {show(t)}')
                return '\n'.join(pre + [go(rest, env, pubs + [f'({topic}, {ctor} {v})'])])
            self.bad(s, 'statement not understood')
        return go(docless(f.body), env, [])

    def registrars_py(self) -> list[str]:
        # Context as far as these hooks read it: run_arg (RunArg | None in plugin/spec.py)
        self.where = 'nextline/plugin/spec.py'
        spec = ast.parse((self.repo / 'nextline/plugin/spec.py').read_text())
        cx = [c for c in spec.body if isinstance(c, ast.ClassDef) and c.name == 'Context']
        ra = [st for c in cx for st in c.body if isinstance(st, ast.AnnAssign) and isinstance(st.target, ast.Name) and st.target.id == 'run_arg']
        if len(cx) != 1 or len(ra) != 1 or ast.unparse(ra[0].annotation) not in ('spawned.RunArg | None', 'Optional[spawned.RunArg]', 'RunArg | None', 'Optional[RunArg]'):
            raise Unsupported('plugin/spec.py: Context.run_arg is not `RunArg | None`')
        self.records['Context'] = [('run_arg', Opt(Rec('RunArg')), None)]
        out = ['(** ---- nextline/plugin/plugins/registrars: what the built-in plugins publish ([None]: an assert fails) ---- *)',
               'Inductive pubval := PvInt (n : Z) | PvStmt (s : Z) | PvStr (s : string) | PvRunInfo (r : RunInfo).',
               'Record HookContext := HookContext_mk { cx_run_arg : option RunArg }.']
        ctx = {'context': ('context', Rec('Context'))}
        b = self.registrar('nextline/plugin/plugins/registrars/script.py', 'ScriptRegistrar', 'on_change_script',
                           {'context': ('context', Rec('Context')), 'script': ('script', STMT), 'filename': ('filename', STR)}, [])
        out.append(f'Definition ScriptRegistrar_on_change_script (context : HookContext) (script : Z) (filename : string) : option (list (string * pubval)) :=\n{b}.')
        b = self.registrar('nextline/plugin/plugins/registrars/run_no.py', 'RunNoRegistrar', 'on_initialize_run', ctx, [])
        out.append(f'Definition RunNoRegistrar_on_initialize_run (context : HookContext) : option (list (string * pubval)) :=\n{b}.')
        b = self.registrar('nextline/plugin/plugins/registrars/run_info.py', 'RunInfoRegistrar', 'on_initialize_run', ctx, ['statement_is_str'])
        out.append('(* statement_is_str: the answer of isinstance(context.run_arg.statement, str) *)')
        out.append(f'Definition RunInfoRegistrar_on_initialize_run (context : HookContext) (statement_is_str : bool) : option (list (string * pubval)) :=\n{b}.')
        return out

    def run(self) -> str:
        head = ['(** GENERATED by translate/arg_composer.py from nextline/plugin/plugins/argument.py, count.py, types.py,',
                '    spawned/types.py, main.py, plugin/plugins/registrars/{run_no,run_info,script}.py -- do not edit.',
                '    Obligations about these definitions: Life/ArgTie.v. *)',
                'From Coq Require Import List ZArith Bool String.',
                'Import ListNotations.',
                'Open Scope Z_scope.',
                '']
        parts = self.types_py() + [''] + self.count_py() + [''] + self.argument_py() + [''] + self.main_py() + [''] + self.registrars_py()
        return '\n'.join(head + parts) + '\n'


def translate(repo: Path) -> str:
    return Translator(Path(repo)).run()


if __name__ == '__main__':
    import sys
    print(translate(Path(sys.argv[1] if len(sys.argv) > 1 else '/repo')))
