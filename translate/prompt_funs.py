"""Fail-closed translator for the command path (C07) -> Gen/PromptFuns.v

Translates with `ast` (statements and expressions are parsed by shape, no pinned source strings)

  nextline/spawned/plugin/plugins/pdb_/prompt.py
      Prompt.init            -> init_queue_map        (the constructor of the per-trace queue map: {} / defaultdict(Queue))
      Prompt.context         -> the wiring of relay_commands' parameters to self._queue_in / self._queue_map
      Prompt.on_start_trace  -> on_start_trace_body
      Prompt.on_end_trace    -> on_end_trace_body
      Prompt.prompt          -> prompt_body           (the lookup of the trace's queue, the loop, the assert, the comparison
                                                       of prompt numbers with ITS OPERATOR, continue / return)
      relay_commands         -> relay_commands_body (with ThreadPoolExecutor, the submit, try: yield finally: put(None),
                                future.result() -- as a statement tree, interpreted), fn_body (the inner fn)
      Prompt.context         -> prompt_context_body
      try_again_on_error     -> try_again_body
  nextline/spawned/plugin/plugins/pdb_/factory.py
      PromptFunc             -> prompt_func_body (_prompt_func), counter_start
      PdbInstanceFactory, Factory -> pif_init_body, pif_create_body, factory_body (object wiring, Prompt/TieFactory.v)
  nextline/spawned/plugin/plugins/repeat.py
      Repeater.on_prompt     -> on_prompt_body (the generator that puts OnStartPrompt / OnEndPrompt on queue_out)
  nextline/events.py         OnStartPrompt / OnEndPrompt: plain dataclasses (fields, __post_init__ shape)
  nextline/count.py          PromptNoCounter / CastedCounter -> counter_step
  nextline/spawned/commands.py  PdbCommand           -> pdb_command_fields
  nextline/plugin/plugins/session/session.py
      CommandSender.send_command -> sender_body       (isinstance, the membership test with ITS OPERATOR, return, the forward)
      SendCommand            -> send_command_body     (_send_command: queue_in.put(command))
      RunSession.run         -> run_tracked           (new queue_in, context.send_command = SendCommand(queue_in),
                                                       open_prompts.clear(), the spawn -- in source order), session_in_pos
  nextline/spawned/__init__.py  set_queues           -> set_queues_in_pos
  nextline/plugin/plugins/session/monitor.py
      OnEvent.on_event_in_process -> event_cases      (event class -> translated body)
  nextline/main.py           Nextline.send_pdb_command -> api_body, api_param_names
  nextline/imp.py            Imp.send_command        -> imp_body

into terms of coq/theories/Prompt/Syntax.v.  coq/theories/Prompt/Tie.v interprets them.

Local variables are alpha-normalised ("<fn>.a<i>" parameters, "<fn>.l<i>" locals in the order of first
binding), so renaming a local regenerates the same term.

Fail closed.  THE RULE for ignored positions: inside a translated function only `pass`, docstrings, logging
statements (`logger.<level>(args)`, `self._logger.<level>(args)`, `logger = getLogger(args)` whose arguments contain no
Call / NamedExpr / Await / Yield / Lambda / comprehension) and strings built for them are dropped.  `assert` and `if` are
never dropped: they are translated (as a raising branch / a branch) or refused.  In the translated classes: no bases /
decorators / class-level statements / special methods other than the expected ones; repo-wide: no assignment to an
attribute of a translated name (`PdbCommand.__bool__ = ...`), no setattr on it, no second binding of a translated name in
a translated module; prompt.py and commands.py have nothing at module level but imports, typing aliases and the
translated definitions.  Anything else raises PromptError and `./check C07` reports a broken tie obligation.
"""
from __future__ import annotations

import ast
import sys
from pathlib import Path

OUTPUT = 'PromptFuns.v'
SRC_PROMPT = 'nextline/spawned/plugin/plugins/pdb_/prompt.py'
SRC_FACTORY = 'nextline/spawned/plugin/plugins/pdb_/factory.py'
SRC_COUNT = 'nextline/count.py'
SRC_COMMANDS = 'nextline/spawned/commands.py'
SRC_TYPES = 'nextline/types.py'
SRC_SESSION = 'nextline/plugin/plugins/session/session.py'
SRC_MONITOR = 'nextline/plugin/plugins/session/monitor.py'
SRC_SPAWNED = 'nextline/spawned/__init__.py'
SRC_MAIN = 'nextline/main.py'
SRC_IMP = 'nextline/imp.py'
CHILD_PLUGINS = 'nextline/spawned/plugin/plugins'
MAIN_PLUGINS = 'nextline/plugin/plugins'

FIELDS = {'trace_no': 'FTraceNo', 'prompt_no': 'FPromptNo', 'command': 'FCommand'}
HANDLES = {'BaseException': 'HBaseException', 'Exception': 'HException', 'AssertionError': 'HAssertionError',
           'KeyError': 'HKeyError'}
NEWTYPES = ('TraceNo', 'PromptNo')


class PromptError(Exception):
    pass


# ---------------------------------------------------------------- generic helpers

def norm(node) -> str:
    return ast.unparse(node).strip()


def where(fn: str, st) -> str:
    return f'{fn}:{getattr(st, "lineno", "?")}'


def strip_doc(body):
    if body and isinstance(body[0], ast.Expr) and isinstance(body[0].value, ast.Constant) and isinstance(body[0].value.value, str):
        return body[1:]
    return body


def is_name(n, s: str) -> bool:
    return isinstance(n, ast.Name) and n.id == s


def is_attr_chain(n, chain: list[str]) -> bool:
    for part in reversed(chain[1:]):
        if not (isinstance(n, ast.Attribute) and n.attr == part):
            return False
        n = n.value
    return is_name(n, chain[0])


def is_call(n, chain: list[str]) -> bool:
    return isinstance(n, ast.Call) and is_attr_chain(n.func, chain)


def find(body, kind, name, what=''):
    xs = [n for n in body if isinstance(n, kind) and n.name == name]
    if len(xs) != 1:
        raise PromptError(f'{what}: expected exactly one {getattr(kind, "__name__", kind)} `{name}`, found {len(xs)}')
    return xs[0]


FUNS = (ast.FunctionDef, ast.AsyncFunctionDef)


def argnames(fn) -> list[str]:
    a = fn.args
    if a.vararg or a.kwarg or a.posonlyargs or a.kwonlyargs:
        raise PromptError(f'{fn.name}: *args/**kwargs/positional-only/keyword-only parameters')
    return [x.arg for x in a.args]


def coq_str(s: str) -> str:
    if '"' in s:
        raise PromptError(f'string {s!r}')
    return f'"{s}"'


LOG_LEVELS = ('debug', 'info', 'warning', 'error', 'exception', 'critical', 'log')
EFFECT = (ast.Call, ast.Await, ast.NamedExpr, ast.Yield, ast.YieldFrom, ast.Lambda, ast.ListComp, ast.SetComp, ast.DictComp,
          ast.GeneratorExp)


def is_logger_expr(n) -> bool:
    return is_name(n, 'logger') or is_attr_chain(n, ['self', '_logger'])


def has_effect_nodes(n) -> bool:
    return any(isinstance(x, EFFECT) for x in ast.walk(n))


def is_logging(st) -> bool:
    """`logger.<level>(args)` / `self._logger.<level>(args)` / `logger = getLogger(args)`; the arguments are formatted
    only: they contain no Call, NamedExpr, Await, Yield, Lambda, comprehension."""
    if isinstance(st, ast.Expr) and isinstance(st.value, ast.Call):
        f = st.value.func
        if isinstance(f, ast.Attribute) and is_logger_expr(f.value) and f.attr in LOG_LEVELS:
            return not any(has_effect_nodes(a) for a in st.value.args + [k.value for k in st.value.keywords])
    if isinstance(st, ast.Assign) and len(st.targets) == 1 and is_name(st.targets[0], 'logger'):
        v = st.value
        return (isinstance(v, ast.Call) and is_name(v.func, 'getLogger')
                and not any(has_effect_nodes(a) for a in v.args + [k.value for k in v.keywords]))
    return False


def is_log_string(st, later) -> bool:
    """`msg = f'...'` (no Call / NamedExpr / Await / Yield inside) where msg is read afterwards by logging statements only"""
    if not (isinstance(st, ast.Assign) and len(st.targets) == 1 and isinstance(st.targets[0], ast.Name)
            and isinstance(st.value, (ast.JoinedStr, ast.Constant)) and not has_effect_nodes(st.value)):
        return False
    if isinstance(st.value, ast.Constant) and not isinstance(st.value.value, str):
        return False
    name = st.targets[0].id
    if name in ('logger', 'self', 'context'):
        return False
    used = False
    for s in later:
        uses = any(is_name(n, name) for n in ast.walk(s))
        used = used or uses
        if uses and not is_logging(s):
            return False
    return used


def ignorable(st, later=()) -> bool:
    """THE RULE: only `pass`, docstrings, logging statements and strings built for them are dropped.  `assert` and `if`
    are never dropped: they are translated (their tests must be in the expression language) or refused."""
    if isinstance(st, ast.Pass):
        return True
    if isinstance(st, ast.Expr) and isinstance(st.value, ast.Constant) and isinstance(st.value.value, str):
        return True
    return is_logging(st) or is_log_string(st, later)


def seq(items: list[str]) -> str:
    items = [i for i in items if i]
    if not items:
        return 'SSkip'
    if len(items) == 1:
        return items[0]
    return f'(SSeq {items[0]} {seq(items[1:])})'


def coq_list(items: list[str]) -> str:
    return '[' + '; '.join(items) + ']'


# ---------------------------------------------------------------- scopes

class Scope:
    """One translated function: alpha-normalised locals, the resolution of its free names."""

    def __init__(self, tag: str, params: list[str], free: dict[str, str] | None = None, attrs: dict[tuple, str] | None = None,
                 context: str | None = None, hook_prompt: list[str] | None = None, counter: str | None = None):
        self.tag = tag
        self.vars: dict[str, str] = {}
        self.nlocal = 0
        for i, p in enumerate(params):
            self.vars[p] = f'{tag}.a{i}'
        self.free = free or {}              # free name -> Coq expression (closure variables bound to shared objects)
        self.attrs = attrs or {}            # attribute chain -> Coq expression
        self.context = context              # the name of the main process' `context` parameter, if any
        self.hook_prompt = hook_prompt      # parameters of Prompt.prompt (after self): callable through hook.hook.prompt
        self.counter = counter              # name of the closure variable holding the prompt counter
        self.with_var = None                # name bound by `with (context := hook.with_.on_prompt(..))`
        self.opaque: set[str] = set()       # locals holding an opaque value (their attributes are opaque reads)
        self.generator = False              # the function is a generator (yield allowed)
        self.executor = None                # name bound by `with ThreadPoolExecutor(max_workers=1) as <name>`
        self.future = None                  # name bound by `<name> = executor.submit(...)`
        self.fun_names: dict[str, str] = {} # names of translated functions usable as values -> fname
        self.nested_fn: list | None = None  # collects the (one) nested `def` if allowed
        self.relay_wiring: list | None = None   # collects the arguments of `with relay_commands(...)`
        self.events: dict | None = None     # event class -> its dataclass fields (Repeater only)
        self.on_prompt: list[str] | None = None   # parameters of Repeater.on_prompt (after self)

    def params(self) -> list[str]:
        return [v for v in self.vars.values() if v.rsplit('.', 1)[1].startswith('a')]

    def bind(self, name: str) -> str:
        if name in self.free:
            raise PromptError(f'{self.tag}: assignment to the closure variable `{name}`')
        if name not in self.vars:
            self.vars[name] = f'{self.tag}.l{self.nlocal}'
            self.nlocal += 1
        return self.vars[name]

    def ref(self, name: str, w: str) -> str:
        if name in self.vars:
            return f'(EVar {coq_str(self.vars[name])})'
        if name in self.free:
            return self.free[name]
        raise PromptError(f'{w}: name `{name}` is neither a local nor a known shared object')


def chain_of(n):
    parts = []
    while isinstance(n, ast.Attribute):
        parts.append(n.attr)
        n = n.value
    if isinstance(n, ast.Name):
        parts.append(n.id)
        return tuple(reversed(parts))
    return None


# ---------------------------------------------------------------- expressions

CMP = {ast.Eq: 'EEq', ast.NotEq: 'ENe', ast.Is: 'EIs', ast.IsNot: 'EIsNot', ast.In: 'EIn', ast.NotIn: 'ENotIn'}


def tr_expr(n, sc: Scope, w: str) -> str:
    if isinstance(n, ast.Constant):
        if n.value is None:
            return 'ENone'
        if n.value is True or n.value is False:
            return f'(EBool {"true" if n.value else "false"})'
        if n.value == '' and isinstance(n.value, str):
            return 'EEmptyStr'
        raise PromptError(f'{w}: constant `{norm(n)}`')
    if isinstance(n, ast.Name):
        if n.id in sc.fun_names and n.id not in sc.vars:
            return f'(EFun {sc.fun_names[n.id]})'
        return sc.ref(n.id, w)
    if isinstance(n, ast.Attribute):
        ch = chain_of(n)
        if ch is not None and ch in sc.attrs:
            return sc.attrs[ch]
        if sc.context and ch == (sc.context, 'open_prompts'):
            return '(EAttr AOpenPrompts)'
        if sc.context and ch == (sc.context, 'send_command'):
            return '(EAttr ASendCommand)'
        if isinstance(n.value, ast.Name) and n.value.id in sc.opaque and n.value.id in sc.vars:
            return f'(EOpaqueOf {sc.ref(n.value.id, w)})'
        if n.attr in FIELDS:
            return f'(EField {tr_expr(n.value, sc, w)} {FIELDS[n.attr]})'
        raise PromptError(f'{w}: attribute `{norm(n)}` not recognised')
    if isinstance(n, ast.NamedExpr):
        v = tr_expr(n.value, sc, w)
        return f'(EWalrus {coq_str(sc.bind(n.target.id))} {v})'
    if isinstance(n, ast.Tuple):
        if len(n.elts) != 2:
            raise PromptError(f'{w}: tuple `{norm(n)}` is not a pair')
        return f'(ETuple {tr_expr(n.elts[0], sc, w)} {tr_expr(n.elts[1], sc, w)})'
    if isinstance(n, ast.Dict):
        if n.keys:
            raise PromptError(f'{w}: non-empty dict display')
        return 'ENewDict'
    if isinstance(n, ast.UnaryOp) and isinstance(n.op, ast.Not):
        return f'(ENot {tr_expr(n.operand, sc, w)})'
    if isinstance(n, ast.Compare):
        if len(n.ops) != 1 or type(n.ops[0]) not in CMP:
            raise PromptError(f'{w}: comparison `{norm(n)}` not recognised')
        a = tr_expr(n.left, sc, w)
        b = tr_expr(n.comparators[0], sc, w)
        return f'({CMP[type(n.ops[0])]} {a} {b})'
    if isinstance(n, ast.Subscript):
        if isinstance(n.slice, (ast.Slice, ast.Tuple)):
            raise PromptError(f'{w}: subscript `{norm(n)}`')
        d = tr_expr(n.value, sc, w)
        return f'(EGetItem {d} {tr_expr(n.slice, sc, w)})'
    if isinstance(n, ast.Call):
        return tr_call_expr(n, sc, w)
    raise PromptError(f'{w}: expression `{norm(n)}` not recognised')


def tr_call_expr(n: ast.Call, sc: Scope, w: str) -> str:
    f = n.func
    nargs, nkw = len(n.args), len(n.keywords)
    if is_name(f, 'isinstance') and nargs == 2 and not nkw and is_name(n.args[1], 'PdbCommand'):
        return f'(EIsPdbCommand {tr_expr(n.args[0], sc, w)})'
    if is_name(f, 'Queue') and not nargs and not nkw:
        return 'ENewQueue'
    if is_name(f, 'dict') and not nargs and not nkw:
        return 'ENewDict'
    if is_name(f, 'defaultdict') and nargs == 1 and not nkw and is_name(n.args[0], 'Queue'):
        return 'ENewDefaultDictQueue'
    if isinstance(f, ast.Name) and f.id in NEWTYPES and nargs == 1 and not nkw:
        return tr_expr(n.args[0], sc, w)       # typing.NewType: the identity at run time (checked in SRC_TYPES)
    if is_name(f, 'PdbCommand'):
        fields = list(FIELDS)
        vals = {}
        if nargs > len(fields):
            raise PromptError(f'{w}: `{norm(n)}`')
        for i, a in enumerate(n.args):
            vals[PDB_FIELDS[i]] = a
        for k in n.keywords:
            if k.arg is None or k.arg in vals or k.arg not in fields:
                raise PromptError(f'{w}: `{norm(n)}`: keyword {k.arg}')
            vals[k.arg] = k.value
        if set(vals) != set(fields):
            raise PromptError(f'{w}: `{norm(n)}` does not give the three fields')
        return '(EMkCmd ' + ' '.join(tr_expr(vals[x], sc, w) for x in fields) + ')'
    if is_attr_chain(f, ['datetime', 'datetime', 'utcnow']) and not nargs and not nkw:
        return '(EOpaque "utcnow")'
    if is_attr_chain(f, ['self', '_hook', 'hook', 'current_trace_call_info']) and not nargs and not nkw:
        return '(EOpaque "current_trace_call_info")'
    if isinstance(f, ast.Name) and f.id in ('OnStartPrompt', 'OnEndPrompt') and sc.events:
        need = ['trace_no', 'prompt_no'] + (['command'] if f.id == 'OnEndPrompt' else [])
        if nargs:
            raise PromptError(f'{w}: `{f.id}(...)` with positional arguments')
        kws = {}
        for k in n.keywords:
            if k.arg is None or k.arg in kws:
                raise PromptError(f'{w}: `{f.id}(...)`: keyword {k.arg}')
            kws[k.arg] = k.value
        if set(kws) != set(sc.events[f.id]):
            raise PromptError(f'{w}: `{f.id}(...)` gives {sorted(kws)}, the dataclass has {sorted(sc.events[f.id])}')
        for k, v in kws.items():          # the other keywords: pure reads (a name, an opaque value)
            if k not in need:
                e = tr_expr(v, sc, w)
                if not e.startswith(('(EVar ', '(EOpaque ', '(EOpaqueOf ')):
                    raise PromptError(f'{w}: `{f.id}(... {k}={norm(v)} ...)` is not a plain read')
        ctor = 'EMkStartPrompt' if f.id == 'OnStartPrompt' else 'EMkEndPrompt'
        return f'({ctor} ' + ' '.join(tr_expr(kws[x], sc, w) for x in need) + ')'
    if sc.counter and is_name(f, sc.counter) and not nargs and not nkw:
        return 'ECounterNext'
    if is_attr_chain(f, ['self', '_hook', 'hook', 'current_trace_no']) and not nargs and not nkw:
        return 'ECurrentTraceNo'
    if isinstance(f, ast.Attribute) and f.attr == 'get' and not nkw:
        if nargs == 0:
            return f'(EQueueGet {tr_expr(f.value, sc, w)})'
        if nargs == 1:
            return f'(EDictGet {tr_expr(f.value, sc, w)} {tr_expr(n.args[0], sc, w)})'
    raise PromptError(f'{w}: call `{norm(n)}` not recognised')


PDB_FIELDS: list[str] = []      # set by translate(): the dataclass fields of PdbCommand in order


# ---------------------------------------------------------------- statements

def tr_body(body, sc: Scope, fn: str) -> str:
    body = strip_doc(body)
    out = []
    for i, st in enumerate(body):
        out.append(tr_stmt(st, sc, fn, body[i + 1:]))
    return seq(out)


def hook_prompt_call(v, sc: Scope, w: str):
    """hook.hook.prompt(prompt_no=E, text=text) -> the argument list in the order of Prompt.prompt's parameters"""
    if not (isinstance(v, ast.Call) and is_attr_chain(v.func, ['hook', 'hook', 'prompt'])):
        return None
    if sc.hook_prompt is None:
        raise PromptError(f'{w}: hook.hook.prompt called here')
    if v.args:
        raise PromptError(f'{w}: `{norm(v)}`: hooks are called with keywords')
    kws = {k.arg: k.value for k in v.keywords}
    missing = [p for p in sc.hook_prompt if p not in kws]
    if missing:
        raise PromptError(f'{w}: `{norm(v)}` does not pass {missing}')
    return [tr_expr(kws[p], sc, w) for p in sc.hook_prompt]


def on_prompt_call(v, sc: Scope, w: str):
    """hook.with_.on_prompt(prompt_no=E, text=T) -> the arguments in the order of Repeater.on_prompt's parameters"""
    if not (isinstance(v, ast.Call) and is_attr_chain(v.func, ['hook', 'with_', 'on_prompt'])):
        return None
    if sc.on_prompt is None:
        raise PromptError(f'{w}: hook.with_.on_prompt entered here')
    if v.args:
        raise PromptError(f'{w}: `{norm(v)}`: hooks are called with keywords')
    kws = {k.arg: k.value for k in v.keywords}
    missing = [p for p in sc.on_prompt if p not in kws]
    if missing:
        raise PromptError(f'{w}: `{norm(v)}` does not pass {missing}')
    return [tr_expr(kws[p], sc, w) for p in sc.on_prompt]


def tr_stmt(st, sc: Scope, fn: str, later=()) -> str:
    w = where(fn, st)
    if ignorable(st, later):
        return ''
    if isinstance(st, ast.If):
        return f'(SIf {tr_expr(st.test, sc, w)} {tr_body(st.body, sc, fn)} {tr_body(st.orelse, sc, fn)})'
    if isinstance(st, ast.While):
        if st.orelse:
            raise PromptError(f'{w}: while/else')
        return f'(SWhile {tr_expr(st.test, sc, w)} {tr_body(st.body, sc, fn)})'
    if isinstance(st, ast.Continue):
        return 'SContinue'
    if isinstance(st, ast.Break):
        return 'SBreak'
    if isinstance(st, ast.Raise):
        if st.exc is not None or st.cause is not None:
            raise PromptError(f'{w}: `{norm(st)}`: only a bare raise is translated')
        return 'SRaise'
    if isinstance(st, ast.Assert):
        return f'(SAssert {tr_expr(st.test, sc, w)})'
    if isinstance(st, ast.Return):
        if st.value is None:
            return '(SReturn ENone)'
        v = st.value
        if isinstance(v, ast.Call) and isinstance(v.func, ast.Name) and v.func.id in sc.vars and not v.args and not v.keywords:
            tmp = sc.bind(f'<return value of {v.func.id}()>')
            return f'(SSeq (SCall (Some {coq_str(tmp)}) (CVar {coq_str(sc.vars[v.func.id])}) []) (SReturn (EVar {coq_str(tmp)})))'
        return f'(SReturn {tr_expr(v, sc, w)})'
    if isinstance(st, ast.Try) and st.finalbody:
        if st.orelse or st.handlers:
            raise PromptError(f'{w}: try statement with handlers AND finally')
        return f'(STryFinally {tr_body(st.body, sc, fn)} {tr_body(st.finalbody, sc, fn)})'
    if isinstance(st, ast.FunctionDef) and sc.nested_fn is not None:
        if sc.nested_fn or st.decorator_list or argnames(st) or st.returns is None and False:
            raise PromptError(f'{w}: nested function `{st.name}`')
        sc.nested_fn.append(st)
        return ''
    if isinstance(st, ast.Try):
        if st.orelse or st.finalbody or len(st.handlers) != 1:
            raise PromptError(f'{w}: try statement other than try/except with one handler')
        h = st.handlers[0]
        if h.type is None or not isinstance(h.type, ast.Name) or h.type.id not in HANDLES:
            raise PromptError(f'{w}: handler class `{norm(h.type) if h.type else "bare except"}`')
        b = tr_body(st.body, sc, fn)
        hb = tr_body(h.body, sc, fn)
        return f'(STry {b} {HANDLES[h.type.id]} {hb})'
    if isinstance(st, ast.With):
        if len(st.items) != 1:
            raise PromptError(f'{w}: with statement with several items')
        it = st.items[0]
        c = it.context_expr
        var = None
        if isinstance(c, ast.NamedExpr):
            var, c = c.target.id, c.value
        if it.optional_vars is not None:
            if var is not None or not isinstance(it.optional_vars, ast.Name):
                raise PromptError(f'{w}: with ... as ...')
            var = it.optional_vars.id
        if isinstance(c, ast.Call) and is_name(c.func, 'ThreadPoolExecutor'):
            mw = [k.value for k in c.keywords if k.arg == 'max_workers']
            if c.args or len(c.keywords) != 1 or len(mw) != 1 or not (isinstance(mw[0], ast.Constant) and mw[0].value == 1 and type(mw[0].value) is int):
                raise PromptError(f'{w}: `{norm(c)}` is not ThreadPoolExecutor(max_workers=1)')
            if var is None or sc.executor is not None:
                raise PromptError(f'{w}: executor not bound / nested executors')
            sc.executor = var
            b = tr_body(st.body, sc, fn)
            sc.executor = None
            return f'(SWithExecutor {b})'
        if isinstance(c, ast.Call) and is_name(c.func, 'relay_commands') and sc.relay_wiring is not None:
            if var is not None or c.keywords:
                raise PromptError(f'{w}: `with {norm(it.context_expr)}`')
            for a in c.args:
                ch = chain_of(a)
                if ch not in sc.attrs:
                    raise PromptError(f'{w}: argument `{norm(a)}` of relay_commands')
                sc.relay_wiring.append(sc.attrs[ch])
            return f'(SWithGen GRelayCommands [] {tr_body(st.body, sc, fn)})'
        p = on_prompt_call(c, sc, w)
        if p is None:
            raise PromptError(f'{w}: `with {norm(it.context_expr)}` not recognised')
        if sc.with_var is not None:
            raise PromptError(f'{w}: nested on_prompt contexts')
        sc.with_var = var
        b = tr_body(st.body, sc, fn)
        sc.with_var = None
        return f'(SWithGen GOnPrompt {coq_list(p)} {b})'
    if isinstance(st, ast.Delete):
        if len(st.targets) != 1 or not isinstance(st.targets[0], ast.Subscript):
            raise PromptError(f'{w}: `{norm(st)}`')
        t = st.targets[0]
        return f'(SDelItem {tr_expr(t.value, sc, w)} {tr_expr(t.slice, sc, w)})'
    if isinstance(st, (ast.Assign, ast.AnnAssign)):
        if isinstance(st, ast.Assign):
            if len(st.targets) != 1:
                raise PromptError(f'{w}: chained assignment')
            t, v = st.targets[0], st.value
        else:
            t, v = st.target, st.value
            if v is None:
                return ''
        if isinstance(t, ast.Subscript):
            return f'(SSetItem {tr_expr(t.value, sc, w)} {tr_expr(t.slice, sc, w)} {tr_expr(v, sc, w)})'
        if isinstance(t, ast.Name) and isinstance(v, ast.Yield) and v.value is None and sc.generator:
            return f'(SYield (Some {coq_str(sc.bind(t.id))}))'
        if isinstance(t, ast.Name) and sc.executor and is_call(v, [sc.executor, 'submit']):
            if sc.future is not None or v.keywords or not v.args:
                raise PromptError(f'{w}: `{norm(st)}`')
            f0 = v.args[0]
            if not (isinstance(f0, ast.Name) and f0.id in sc.fun_names):
                raise PromptError(f'{w}: `{norm(st)}`: the submitted function is not a translated one')
            sc.future = t.id
            return f'(SSubmit {sc.fun_names[f0.id]} {coq_list([tr_expr(a, sc, w) for a in v.args[1:]])})'
        if isinstance(t, ast.Name):
            args = hook_prompt_call(v, sc, w)
            if args is not None:
                return f'(SCall (Some {coq_str(sc.bind(t.id))}) (CFn FnPrompt) {coq_list(args)})'
            e = tr_expr(v, sc, w)
            if e.startswith(('(EOpaque ', '(EOpaqueOf ')):
                sc.opaque.add(t.id)
            else:
                sc.opaque.discard(t.id)
            return f'(SAssign {coq_str(sc.bind(t.id))} {e})'
        raise PromptError(f'{w}: assignment target `{norm(t)}`')
    if isinstance(st, ast.Expr) and isinstance(st.value, ast.Yield):
        if st.value.value is not None or not sc.generator:
            raise PromptError(f'{w}: `{norm(st)}`')
        return '(SYield None)'
    if isinstance(st, ast.Expr) and sc.future and is_call(st.value, [sc.future, 'result']) and not st.value.args and not st.value.keywords:
        return 'SFutureResult'
    if isinstance(st, ast.Expr):
        v = st.value
        aw = False
        if isinstance(v, ast.Await):
            aw, v = True, v.value
        if isinstance(v, ast.Call):
            f = v.func
            nargs, nkw = len(v.args), len(v.keywords)
            if aw:
                if isinstance(f, ast.Attribute) and is_name(f.value, 'ahook') and not nargs:
                    kws = {k.arg: k.value for k in v.keywords}
                    if set(kws) == {'context', 'event'} and is_name(kws['context'], sc.context or '?') and is_name(kws['event'], 'event'):
                        return f'(SAwaitHook {coq_str(f.attr)})'
                if is_attr_chain(f, ['self', '_imp', 'send_command']) and nargs == 1 and not nkw:
                    return f'(SCall None (CFn FnImpSend) [{tr_expr(v.args[0], sc, w)}])'
                if is_attr_chain(f, ['self', '_hook', 'ahook', 'send_command']) and not nargs:
                    kws = {k.arg: k.value for k in v.keywords}
                    if set(kws) == {'context', 'command'} and is_attr_chain(kws['context'], ['self', '_context']):
                        return f'(SCall None (CFn FnSender) [{tr_expr(kws["command"], sc, w)}])'
                raise PromptError(f'{w}: await `{norm(st)}` not recognised')
            if sc.context and is_attr_chain(f, [sc.context, 'send_command']) and nargs == 1 and not nkw:
                return f'(SCall None (CAttr ASendCommand) [{tr_expr(v.args[0], sc, w)}])'
            if sc.with_var and is_attr_chain(f, [sc.with_var, 'gen', 'send']) and nargs == 1 and not nkw:
                return f'(SGenSend {tr_expr(v.args[0], sc, w)})'
            if isinstance(f, ast.Attribute) and not nkw:
                recv = f.value
                if f.attr == 'put' and nargs == 1:
                    return f'(SPut {tr_expr(recv, sc, w)} {tr_expr(v.args[0], sc, w)})'
                if f.attr == 'pop' and nargs == 2 and isinstance(v.args[1], ast.Constant) and v.args[1].value is None:
                    return f'(SPopItem {tr_expr(recv, sc, w)} {tr_expr(v.args[0], sc, w)})'
                if f.attr in ('add', 'discard', 'remove') and nargs == 1:
                    ctor = {'add': 'SSetAdd', 'discard': 'SSetDiscard', 'remove': 'SSetRemove'}[f.attr]
                    return f'({ctor} {tr_expr(recv, sc, w)} {tr_expr(v.args[0], sc, w)})'
                if f.attr == 'clear' and nargs == 0:
                    return f'(SSetClear {tr_expr(recv, sc, w)})'
            return f'(SExpr {tr_expr(v, sc, w)})'
    raise PromptError(f'{w}: statement `{norm(st).splitlines()[0]}` not recognised')


# ---------------------------------------------------------------- the pieces

def parse(repo: Path, rel: str):
    p = repo / rel
    if not p.exists():
        raise PromptError(f'{p} not found')
    return ast.parse(p.read_text())


def hookimpls_named(repo: Path, directory: str, name: str) -> list[str]:
    """the methods called `name` that are decorated with hookimpl under `directory`"""
    found = []
    for p in sorted((repo / directory).rglob('*.py')):
        t = ast.parse(p.read_text())
        for node in ast.walk(t):
            if isinstance(node, FUNS) and node.name == name and any('hookimpl' in norm(d) for d in node.decorator_list):
                found.append(f'{p.relative_to(repo)}:{node.lineno}')
    return found


def decorators(fn) -> list[str]:
    return [norm(d) for d in fn.decorator_list]


DUNDERS = ('__aenter__', '__aexit__', '__enter__', '__exit__', '__bool__', '__len__', '__eq__', '__hash__', '__post_init__',
           '__getattr__', '__getattribute__', '__setattr__', '__call__', '__new__', '__init_subclass__', '__class_getitem__',
           '__repr__', '__str__', '__format__', '__iter__', '__contains__', '__getitem__', '__setitem__', '__delitem__',
           '__ne__', '__lt__', '__le__', '__gt__', '__ge__')


def check_class(cls, what: str, bases: list[str], decos: list[str], allow_init=False, allow_dunders=()):
    """fail closed on: other bases / keywords / decorators; class-level statements that are not plain annotations or
    docstrings (class-level defaults!); special methods that are not translated"""
    if [norm(b) for b in cls.bases] != bases or cls.keywords:
        raise PromptError(f'{what}: bases {[norm(b) for b in cls.bases]} (expected {bases})')
    if [norm(d) for d in cls.decorator_list] != decos:
        raise PromptError(f'{what}: decorators {[norm(d) for d in cls.decorator_list]} (expected {decos})')
    for m in cls.body:
        if isinstance(m, ast.Expr) and isinstance(m.value, ast.Constant) and isinstance(m.value.value, str):
            continue
        if isinstance(m, ast.Pass):
            continue
        if isinstance(m, ast.AnnAssign) and m.value is None and isinstance(m.target, ast.Name):
            continue
        if isinstance(m, FUNS):
            if m.name.startswith('__') and m.name.endswith('__'):
                if m.name == '__init__' and allow_init:
                    continue
                if m.name in allow_dunders:
                    continue
                raise PromptError(f'{what}.{m.name}: special method not translated')
            continue
        raise PromptError(f'{what}:{m.lineno}: class-level statement `{norm(m).splitlines()[0]}`')


PROTECTED = {'PdbCommand', 'Command', 'Prompt', 'relay_commands', 'try_again_on_error', 'Queue', 'ThreadPoolExecutor',
             'PromptFunc', 'Factory', 'PdbInstanceFactory', 'PromptNoCounter', 'CastedCounter', 'CommandSender', 'SendCommand',
             'RunSession', 'OnEvent', 'Repeater', 'OnStartPrompt', 'OnEndPrompt', 'Context', 'StdInOut', 'CustomizedPdb',
             'CmdloopHook', 'contextmanager', 'hookimpl', 'isinstance', 'defaultdict', 'dict', 'set', 'count'}
TRANSLATED_MODULES = (SRC_PROMPT, SRC_FACTORY, SRC_COUNT, SRC_COMMANDS, SRC_SESSION, SRC_MONITOR, SRC_MAIN, SRC_IMP,
                      'nextline/spawned/plugin/plugins/repeat.py', 'nextline/events.py', 'nextline/plugin/spec.py')


def scan_rebinding(repo: Path):
    """module-level (or any-level) monkeypatching / rebinding of a name the translation rests on, anywhere under nextline/"""
    for p in sorted((repo / 'nextline').rglob('*.py')):
        rel = str(p.relative_to(repo))
        t = ast.parse(p.read_text())
        binds: dict[str, int] = {}
        for n in ast.walk(t):
            # X.attr = ... / del X.attr / X.attr += ...   with X a protected name (e.g. PdbCommand.__bool__ = ...)
            if isinstance(n, ast.Attribute) and isinstance(n.ctx, (ast.Store, ast.Del)) and isinstance(n.value, ast.Name) \
                    and n.value.id in PROTECTED:
                raise PromptError(f'{rel}:{n.lineno}: `{norm(n)}` is assigned (monkeypatch of a translated name)')
            if isinstance(n, ast.Call) and isinstance(n.func, ast.Name) and n.func.id in ('setattr', 'delattr') and n.args \
                    and isinstance(n.args[0], ast.Name) and n.args[0].id in PROTECTED:
                raise PromptError(f'{rel}:{n.lineno}: `{norm(n)}` (monkeypatch of a translated name)')
            if isinstance(n, ast.Call) and is_attr_chain(n.func, ['mock', 'patch']):
                raise PromptError(f'{rel}:{n.lineno}: mock.patch in the package')
            if rel in TRANSLATED_MODULES:
                if isinstance(n, ast.Name) and isinstance(n.ctx, (ast.Store, ast.Del)) and n.id in PROTECTED:
                    binds[n.id] = binds.get(n.id, 0) + 1
                elif isinstance(n, (ast.FunctionDef, ast.AsyncFunctionDef, ast.ClassDef)) and n.name in PROTECTED:
                    binds[n.name] = binds.get(n.name, 0) + 1
                elif isinstance(n, (ast.Import, ast.ImportFrom)):
                    for a in n.names:
                        nm = (a.asname or a.name).split('.')[0]
                        if nm in PROTECTED:
                            binds[nm] = binds.get(nm, 0) + 1
                elif isinstance(n, ast.arg) and n.arg in PROTECTED:
                    binds[n.arg] = binds.get(n.arg, 0) + 1
                elif isinstance(n, (ast.Global, ast.Nonlocal)) and set(n.names) & PROTECTED:
                    raise PromptError(f'{rel}:{n.lineno}: `{norm(n)}`')
        for nm, k in binds.items():
            if k > 1:
                raise PromptError(f'{rel}: `{nm}` is bound {k} times (rebinding of a translated name)')


def child_side(repo: Path) -> dict:
    res = {}
    tp = parse(repo, SRC_PROMPT)
    cls = find(tp.body, ast.ClassDef, 'Prompt', SRC_PROMPT)
    check_class(cls, 'Prompt', [], [], allow_init=True)
    members = {m.name: m for m in cls.body if isinstance(m, FUNS)}
    known = {'__init__', 'init', 'context', 'on_start_trace', 'on_end_trace', 'prompt'}
    extra = set(members) - known
    if extra:
        raise PromptError(f'Prompt: members {sorted(extra)} are not translated (they could touch the queues)')
    for k in known - {'__init__'}:
        if k not in members:
            raise PromptError(f'Prompt.{k} not found')
        if 'hookimpl' not in decorators(members[k]):
            raise PromptError(f'Prompt.{k} is not a hookimpl')
    self_attrs = {('self', '_queue_map'): '(EAttr AQueueMap)', ('self', '_queue_in'): '(EAttr AQueueIn)'}
    # __init__: nothing but the logger
    if '__init__' in members:
        for st in strip_doc(members['__init__'].body):
            ok = isinstance(st, ast.Assign) and len(st.targets) == 1 and is_attr_chain(st.targets[0], ['self', '_logger'])
            if not ok and not ignorable(st):
                raise PromptError(f'{where("Prompt.__init__", st)}: statement `{norm(st)}` not recognised')
    # init(self, hook, queue_in)
    f = members['init']
    params = argnames(f)
    init_map = None
    in_bound = False
    for st in strip_doc(f.body):
        w = where('Prompt.init', st)
        if isinstance(st, (ast.Assign, ast.AnnAssign)):
            t = st.targets[0] if isinstance(st, ast.Assign) else st.target
            v = st.value
            if is_attr_chain(t, ['self', '_hook']) and is_name(v, 'hook') and 'hook' in params:
                continue
            if is_attr_chain(t, ['self', '_queue_in']) and is_name(v, 'queue_in') and 'queue_in' in params:
                in_bound = True
                continue
            if is_attr_chain(t, ['self', '_queue_map']) and v is not None:
                if init_map is not None:
                    raise PromptError(f'{w}: _queue_map assigned twice')
                init_map = tr_expr(v, Scope('init', []), w)
                continue
        if ignorable(st):
            continue
        raise PromptError(f'{w}: statement `{norm(st)}` not recognised')
    if init_map is None or not in_bound:
        raise PromptError('Prompt.init: _queue_map / _queue_in not initialised')
    res['init_queue_map'] = init_map
    # context: with relay_commands(self._queue_in, self._queue_map): yield   (a generator)
    f = members['context']
    if decorators(f) != ['hookimpl', 'contextmanager'] or argnames(f) != ['self']:
        raise PromptError('Prompt.context: decorators/parameters')
    sc = Scope('ctx', [], attrs=self_attrs)
    sc.generator = True
    sc.relay_wiring = []
    res['context'] = tr_body(f.body, sc, 'Prompt.context')
    wiring = sc.relay_wiring
    if res['context'].count('SWithGen GRelayCommands') != 1:
        raise PromptError('Prompt.context does not enter relay_commands exactly once')
    # on_start_trace / on_end_trace (self, trace_no)
    for nm in ('on_start_trace', 'on_end_trace'):
        f = members[nm]
        if decorators(f) != ['hookimpl'] or argnames(f) != ['self', 'trace_no']:
            raise PromptError(f'Prompt.{nm}: decorators/parameters {argnames(f)}')
        sc = Scope(nm, ['trace_no'], attrs=self_attrs)
        res[nm] = tr_body(f.body, sc, f'Prompt.{nm}')
        res[nm + '_params'] = sc.params()
    # prompt(self, prompt_no)
    f = members['prompt']
    if decorators(f) != ['hookimpl'] or argnames(f)[:1] != ['self']:
        raise PromptError('Prompt.prompt: decorators/parameters')
    prompt_params = argnames(f)[1:]
    if not set(prompt_params) <= {'prompt_no', 'text'} or 'prompt_no' not in prompt_params:
        raise PromptError(f'Prompt.prompt: parameters {prompt_params}')
    sc = Scope('prompt', prompt_params, attrs=self_attrs)
    res['prompt'] = tr_body(f.body, sc, 'Prompt.prompt')
    res['prompt_params'] = sc.params()
    impls = hookimpls_named(repo, CHILD_PLUGINS, 'prompt')
    if len(impls) != 1:
        raise PromptError(f'the hook `prompt` (first result) has {len(impls)} implementations: {impls}')
    # relay_commands(queue_in, queue_map)
    f = find(tp.body, ast.FunctionDef, 'relay_commands', SRC_PROMPT)
    if decorators(f) != ['contextmanager']:
        raise PromptError('relay_commands: decorators')
    rparams = argnames(f)
    if len(rparams) != len(wiring):
        raise PromptError(f'relay_commands has parameters {rparams} but Prompt.context passes {len(wiring)} arguments')
    free = dict(zip(rparams, wiring))
    if sorted(free.values()) != ['(EAttr AQueueIn)', '(EAttr AQueueMap)']:
        raise PromptError(f'relay_commands: wiring {free}')
    sc = Scope('relay', [], free=free)
    sc.generator = True
    sc.nested_fn = []
    sc.fun_names = {'try_again_on_error': 'FnTryAgain'}
    # the nested def must come before its use: translate statement by statement
    body = strip_doc(f.body)
    out = []
    for i, st in enumerate(body):
        out.append(tr_stmt(st, sc, 'relay_commands', body[i + 1:]))
        if sc.nested_fn and sc.nested_fn[0].name not in sc.fun_names:
            sc.fun_names[sc.nested_fn[0].name] = 'FnFn'
    res['relay_commands'] = seq(out)
    if len(sc.nested_fn) != 1:
        raise PromptError('relay_commands: expected exactly one nested function')
    fn_def = sc.nested_fn[0]
    if res['relay_commands'].count('SSubmit') != 1 or res['relay_commands'].count('(SYield None)') != 1:
        raise PromptError('relay_commands: expected exactly one submit and one yield')
    sc = Scope('fn', [], free=free)
    res['fn'] = tr_body(fn_def.body, sc, 'relay_commands.fn')
    # try_again_on_error(func)
    f = find(tp.body, ast.FunctionDef, 'try_again_on_error', SRC_PROMPT)
    if f.decorator_list or len(argnames(f)) != 1:
        raise PromptError('try_again_on_error: decorators/parameters')
    sc = Scope('ta', argnames(f))
    res['try_again'] = tr_body(f.body, sc, 'try_again_on_error')
    res['try_again_params'] = sc.params()
    # the names the semantics rests on are the stdlib ones, bound once
    imported = {}
    for node in ast.walk(tp):
        if isinstance(node, ast.ImportFrom):
            for a in node.names:
                imported.setdefault(a.asname or a.name, []).append((node.module, a.name, node in tp.body))
        elif isinstance(node, ast.Import):
            for a in node.names:
                imported.setdefault((a.asname or a.name).split('.')[0], []).append((None, a.name, node in tp.body))
    for nm, mod in (('Queue', 'queue'), ('ThreadPoolExecutor', 'concurrent.futures')):
        if imported.get(nm) != [(mod, nm, True)]:
            raise PromptError(f'{SRC_PROMPT}: `{nm}` is not (only) `from {mod} import {nm}`: {imported.get(nm)}')
        rebinds = [n for n in ast.walk(tp) if (isinstance(n, ast.Name) and n.id == nm and isinstance(n.ctx, (ast.Store, ast.Del)))
                   or (isinstance(n, (ast.FunctionDef, ast.ClassDef)) and n.name == nm) or (isinstance(n, ast.arg) and n.arg == nm)]
        if rebinds:
            raise PromptError(f'{SRC_PROMPT}:{rebinds[0].lineno}: `{nm}` is rebound')
    # module level of prompt.py: imports, typing aliases, the class and the two functions -- nothing else
    for node in tp.body:
        if isinstance(node, FUNS) and node.name not in ('relay_commands', 'try_again_on_error'):
            raise PromptError(f'{SRC_PROMPT}:{node.lineno}: function `{node.name}` is not translated')
        if isinstance(node, ast.ClassDef) and node.name != 'Prompt':
            raise PromptError(f'{SRC_PROMPT}:{node.lineno}: class `{node.name}` is not translated')
        if isinstance(node, (ast.Import, ast.ImportFrom, ast.ClassDef) + FUNS):
            continue
        if isinstance(node, ast.Expr) and isinstance(node.value, ast.Constant) and isinstance(node.value.value, str):
            continue
        if isinstance(node, ast.Assign) and len(node.targets) == 1 and isinstance(node.targets[0], ast.Name) \
                and node.targets[0].id not in PROTECTED and (
                    isinstance(node.value, ast.Subscript) or (isinstance(node.value, ast.Call) and is_name(node.value.func, 'TypeVar'))):
            continue
        raise PromptError(f'{SRC_PROMPT}:{node.lineno}: module-level statement `{norm(node).splitlines()[0]}`')
    # ---- repeat.py: Repeater.on_prompt (the generator that puts OnStartPrompt / OnEndPrompt on queue_out)
    SRC_REPEAT = 'nextline/spawned/plugin/plugins/repeat.py'
    tr = parse(repo, SRC_REPEAT)
    rep = find(tr.body, ast.ClassDef, 'Repeater', SRC_REPEAT)
    check_class(rep, 'Repeater', [], [])
    rmem = {m.name: m for m in rep.body if isinstance(m, FUNS)}
    # init: self._queue_out = queue_out, self._run_no = run_arg.run_no
    f = rmem.get('init')
    if f is None or decorators(f) != ['hookimpl'] or 'queue_out' not in argnames(f):
        raise PromptError('Repeater.init')
    seen = set()
    for st in strip_doc(f.body):
        ok = isinstance(st, ast.Assign) and len(st.targets) == 1 and isinstance(st.targets[0], ast.Attribute) and is_name(st.targets[0].value, 'self')
        if not ok:
            raise PromptError(f'{where("Repeater.init", st)}: `{norm(st)}`')
        a = st.targets[0].attr
        if a in seen:
            raise PromptError(f'Repeater.init: self.{a} assigned twice')
        seen.add(a)
        if a == '_queue_out' and not is_name(st.value, 'queue_out'):
            raise PromptError(f'Repeater.init: `{norm(st)}`')
        if a == '_hook' and not is_name(st.value, 'hook'):
            raise PromptError(f'Repeater.init: `{norm(st)}`')
        if has_effect_nodes(st.value):
            raise PromptError(f'Repeater.init: `{norm(st)}`')
    if not {'_queue_out', '_hook', '_run_no'} <= seen:
        raise PromptError('Repeater.init does not set _queue_out / _hook / _run_no')
    for nm, m in rmem.items():     # nobody else stores these, nobody else builds the two events
        for n in ast.walk(m):
            if nm != 'init' and isinstance(n, ast.Attribute) and isinstance(n.ctx, (ast.Store, ast.Del)) and n.attr in ('_queue_out', '_hook', '_run_no'):
                raise PromptError(f'Repeater.{nm}:{n.lineno}: self.{n.attr} is assigned')
            if nm != 'on_prompt' and isinstance(n, ast.Name) and n.id in ('OnStartPrompt', 'OnEndPrompt'):
                raise PromptError(f'Repeater.{nm}:{n.lineno}: builds {n.id}')
    # the two event classes: plain dataclasses; __post_init__ only asserts a naive datetime
    tev = parse(repo, 'nextline/events.py')
    evfields = {}
    for cn in ('OnStartPrompt', 'OnEndPrompt'):
        c = find(tev.body, ast.ClassDef, cn, 'events.py')
        check_class(c, cn, ['Event'], ['dataclass'], allow_dunders=('__post_init__',))
        evfields[cn] = [m.target.id for m in c.body if isinstance(m, ast.AnnAssign)]
        for m in c.body:
            if isinstance(m, FUNS):
                b = strip_doc(m.body)
                ok = m.name == '__post_init__' and len(b) == 1 and isinstance(b[0], ast.Expr) and isinstance(b[0].value, ast.Call) \
                    and is_name(b[0].value.func, '_assert_naive_datetime') and len(b[0].value.args) == 1 and not b[0].value.keywords \
                    and isinstance(b[0].value.args[0], ast.Attribute) and is_name(b[0].value.args[0].value, 'self') \
                    and b[0].value.args[0].attr in ('started_at', 'ended_at')
                if not ok:
                    raise PromptError(f'{cn}.{m.name}: not `_assert_naive_datetime(self.<x>_at)`')
        if not {'trace_no', 'prompt_no'} <= set(evfields[cn]):
            raise PromptError(f'{cn}: fields {evfields[cn]}')
    evbase = find(tev.body, ast.ClassDef, 'Event', 'events.py')
    check_class(evbase, 'Event', [], ['dataclass'])
    f = rmem.get('on_prompt')
    if f is None or decorators(f) != ['hookimpl', 'contextmanager'] or argnames(f)[:1] != ['self'] or f.args.defaults:
        raise PromptError('Repeater.on_prompt: decorators/parameters')
    on_prompt_params = argnames(f)[1:]
    if sorted(on_prompt_params) != ['prompt_no', 'text']:
        raise PromptError(f'Repeater.on_prompt: parameters {on_prompt_params}')
    sc = Scope('op', on_prompt_params, attrs={('self', '_queue_out'): '(EAttr AQueueOut)', ('self', '_run_no'): '(EOpaque "run_no")'})
    sc.generator = True
    sc.events = evfields
    res['on_prompt'] = tr_body(f.body, sc, 'Repeater.on_prompt')
    res['on_prompt_params'] = sc.params()
    impls = hookimpls_named(repo, CHILD_PLUGINS, 'on_prompt')
    if len(impls) != 1:
        raise PromptError(f'the hook `on_prompt` has {len(impls)} implementations: {impls}')
    # ---- factory.py: PromptFunc
    tf = parse(repo, SRC_FACTORY)
    f = find(tf.body, ast.FunctionDef, 'PromptFunc', SRC_FACTORY)
    if argnames(f) != ['hook']:
        raise PromptError('PromptFunc: parameters')
    counter = None
    start = None
    inner = None
    returned = None
    for st in strip_doc(f.body):
        w = where('PromptFunc', st)
        if isinstance(st, ast.Assign) and len(st.targets) == 1 and isinstance(st.targets[0], ast.Name) and isinstance(st.value, ast.Call) \
                and is_name(st.value.func, 'PromptNoCounter'):
            c = st.value
            if counter is not None or c.keywords or len(c.args) != 1 or not (isinstance(c.args[0], ast.Constant) and type(c.args[0].value) is int):
                raise PromptError(f'{w}: `{norm(st)}`')
            counter, start = st.targets[0].id, c.args[0].value
        elif isinstance(st, ast.FunctionDef):
            if inner is not None or st.decorator_list:
                raise PromptError(f'{w}: nested function `{st.name}`')
            inner = st
        elif isinstance(st, ast.Return):
            returned = st.value
        elif ignorable(st):
            pass
        else:
            raise PromptError(f'{w}: statement `{norm(st)}` not recognised')
    if counter is None or inner is None or not is_name(returned, inner.name):
        raise PromptError('PromptFunc: counter / inner function / return missing')
    sc = Scope('pf', argnames(inner), hook_prompt=prompt_params, counter=counter)
    sc.on_prompt = on_prompt_params
    # `text` is passed through to the hooks only
    res['prompt_func'] = tr_body(inner.body, sc, f'PromptFunc.{inner.name}')
    res['prompt_func_params'] = sc.params()
    res['counter_start'] = start
    # ---- factory.py: the object wiring (PdbInstanceFactory.init / create_local_trace_func, Factory)
    KNOWN_NEW = ('Factory', 'PromptFunc', 'CmdloopHook', 'StdInOut', 'CustomizedPdb')

    def tr_w(n, w) -> str:
        if isinstance(n, ast.Name):
            return f'(WVar {coq_str(n.id)})'
        if isinstance(n, ast.Attribute):
            if is_name(n.value, 'self'):
                return f'(WSelf {coq_str(n.attr)})'
            return f'(WAttr {tr_w(n.value, w)} {coq_str(n.attr)})'
        if isinstance(n, ast.Call):
            if isinstance(n.func, ast.Name) and n.func.id in KNOWN_NEW:
                if n.args or any(k.arg is None for k in n.keywords):
                    raise PromptError(f'{w}: `{norm(n)}`: keywords only')
                kw = '; '.join(f'({coq_str(k.arg)}, {tr_w(k.value, w)})' for k in n.keywords)
                return f'(WNew {coq_str(n.func.id)} [{kw}])'
            if not n.args and not n.keywords:
                return f'(WCallVal {tr_w(n.func, w)})'
        raise PromptError(f'{w}: expression `{norm(n)}` not recognised')

    def tr_wbody(stmts, fn, depth=0) -> str:
        out = []
        for st in strip_doc(stmts):
            w = where(fn, st)
            if isinstance(st, ast.Assign) and len(st.targets) == 1:
                t = st.targets[0]
                if isinstance(t, ast.Name):
                    out.append(f'WAssign {coq_str(t.id)} {tr_w(st.value, w)}')
                    continue
                if isinstance(t, ast.Attribute) and is_name(t.value, 'self'):
                    out.append(f'WSetSelf {coq_str(t.attr)} {tr_w(st.value, w)}')
                    continue
                if isinstance(t, ast.Attribute) and isinstance(t.value, ast.Name):
                    if t.attr in ('_prompt', 'prompt_func', 'stdin', 'stdout', 'trace_dispatch'):
                        raise PromptError(f'{w}: `{norm(st)}` stores to an attribute the wiring theorem reads')
                    out.append(f'WSetAttr {coq_str(t.value.id)} {coq_str(t.attr)} {tr_w(st.value, w)}')
                    continue
            if isinstance(st, ast.FunctionDef) and depth == 0 and not st.decorator_list and not argnames(st):
                out.append(f'WDef {coq_str(st.name)} {tr_wbody(st.body, fn + "." + st.name, depth + 1)}')
                continue
            if isinstance(st, ast.Return) and st.value is not None:
                out.append(f'WReturn {tr_w(st.value, w)}')
                continue
            raise PromptError(f'{w}: statement `{norm(st).splitlines()[0]}` not recognised')
        return coq_list(out)

    pif = find(tf.body, ast.ClassDef, 'PdbInstanceFactory', SRC_FACTORY)
    check_class(pif, 'PdbInstanceFactory', [], [])
    pm = {m.name: m for m in pif.body if isinstance(m, FUNS)}
    if set(pm) != {'init', 'create_local_trace_func'}:
        raise PromptError(f'PdbInstanceFactory: members {sorted(pm)}')
    if decorators(pm['init']) != ['hookimpl'] or argnames(pm['init']) != ['self', 'hook'] \
            or decorators(pm['create_local_trace_func']) != ['hookimpl'] or argnames(pm['create_local_trace_func']) != ['self']:
        raise PromptError('PdbInstanceFactory: decorators/parameters')
    res['pif_init'] = tr_wbody(pm['init'].body, 'PdbInstanceFactory.init')
    res['pif_create'] = tr_wbody(pm['create_local_trace_func'].body, 'PdbInstanceFactory.create_local_trace_func')
    fac = find(tf.body, ast.FunctionDef, 'Factory', SRC_FACTORY)
    if argnames(fac) != ['hook'] or fac.decorator_list or fac.args.defaults:
        raise PromptError('Factory: parameters')
    res['factory'] = tr_wbody(fac.body, 'Factory')
    impls = hookimpls_named(repo, CHILD_PLUGINS, 'create_local_trace_func')
    if len(impls) != 1:
        raise PromptError(f'the hook `create_local_trace_func` (first result) has {len(impls)} implementations: {impls}')
    # stream.py: StdInOut keeps the prompt function it is given and calls it, nothing else binds _prompt_func
    tst = parse(repo, 'nextline/spawned/plugin/plugins/pdb_/stream.py')
    sio = find(tst.body, ast.ClassDef, 'StdInOut', 'stream.py')
    stores = [n for n in ast.walk(sio) if isinstance(n, ast.Attribute) and isinstance(n.ctx, ast.Store) and n.attr == '_prompt']
    init = [m for m in sio.body if isinstance(m, ast.FunctionDef) and m.name == '__init__']
    ok = len(stores) == 1 and len(init) == 1 and any(
        isinstance(st, ast.Assign) and st.targets[0] is stores[0] and is_name(st.value, 'prompt_func') for st in init[0].body)
    calls = [n for n in ast.walk(sio) if isinstance(n, ast.Call) and is_attr_chain(n.func, ['self', '_prompt'])]
    if not ok or len(calls) != 1 or 'prompt_func' not in argnames(init[0]):
        raise PromptError('StdInOut does not keep `prompt_func` in self._prompt and call it in exactly one place')
    # ---- count.py
    tc = parse(repo, SRC_COUNT)
    f = find(tc.body, ast.FunctionDef, 'PromptNoCounter', SRC_COUNT)
    ps = argnames(f)
    rets = [st for st in strip_doc(f.body) if not ignorable(st)]
    ok = len(ps) == 1 and len(rets) == 1 and isinstance(rets[0], ast.Return) and isinstance(rets[0].value, ast.Call) \
        and is_name(rets[0].value.func, 'CastedCounter') and len(rets[0].value.args) == 2 and not rets[0].value.keywords
    a0 = rets[0].value.args[0] if ok else None
    ok = ok and isinstance(a0, ast.Attribute) and a0.attr == '__next__' and isinstance(a0.value, ast.Call) and is_name(a0.value.func, 'count') \
        and len(a0.value.args) == 1 and not a0.value.keywords and is_name(a0.value.args[0], ps[0]) and is_name(rets[0].value.args[1], 'PromptNo')
    if not ok:
        raise PromptError('PromptNoCounter is not `return CastedCounter(count(start).__next__, PromptNo)`')
    f = find(tc.body, ast.FunctionDef, 'CastedCounter', SRC_COUNT)
    ps = argnames(f)
    inner = [st for st in strip_doc(f.body) if isinstance(st, ast.FunctionDef)]
    ok = len(ps) == 2 and len(inner) == 1 and not argnames(inner[0])
    body = [st for st in strip_doc(inner[0].body) if not ignorable(st)] if ok else []
    ok = ok and len(body) == 1 and isinstance(body[0], ast.Return) and isinstance(body[0].value, ast.Call) and is_name(body[0].value.func, ps[1]) \
        and len(body[0].value.args) == 1 and isinstance(body[0].value.args[0], ast.Call) and is_name(body[0].value.args[0].func, ps[0]) \
        and not body[0].value.args[0].args
    if not ok:
        raise PromptError('CastedCounter does not return type_(src())')
    imp = [a.name for st in tc.body if isinstance(st, ast.ImportFrom) and st.module == 'itertools' for a in st.names if (a.asname or a.name) == 'count']
    if imp != ['count']:
        raise PromptError('count.py: `count` is not itertools.count')
    res['counter_step'] = 1
    return res


def main_side(repo: Path) -> dict:
    res = {}
    ts = parse(repo, SRC_SESSION)
    # CommandSender.send_command(self, context, command)
    cls = find(ts.body, ast.ClassDef, 'CommandSender', SRC_SESSION)
    check_class(cls, 'CommandSender', [], [])
    if [m.name for m in cls.body if isinstance(m, FUNS)] != ['send_command']:
        raise PromptError('CommandSender: members other than send_command')
    f = find(cls.body, ast.AsyncFunctionDef, 'send_command', 'CommandSender')
    if decorators(f) != ['hookimpl'] or argnames(f) != ['self', 'context', 'command']:
        raise PromptError(f'CommandSender.send_command: decorators/parameters {argnames(f)}')
    sc = Scope('sender', ['command'], context='context')
    res['sender'] = tr_body(f.body, sc, 'CommandSender.send_command')
    res['sender_params'] = sc.params()
    impls = hookimpls_named(repo, MAIN_PLUGINS, 'send_command')
    if len(impls) != 1:
        raise PromptError(f'the hook `send_command` has {len(impls)} implementations: {impls}')
    # SendCommand(queue_in) -> _send_command(command)
    f = find(ts.body, ast.FunctionDef, 'SendCommand', SRC_SESSION)
    ps = argnames(f)
    inner = [st for st in strip_doc(f.body) if isinstance(st, ast.FunctionDef)]
    rets = [st for st in strip_doc(f.body) if isinstance(st, ast.Return)]
    rest = [st for st in strip_doc(f.body) if not isinstance(st, (ast.FunctionDef, ast.Return)) and not ignorable(st)]
    if len(ps) != 1 or len(inner) != 1 or len(rets) != 1 or not is_name(rets[0].value, inner[0].name) or rest or inner[0].decorator_list:
        raise PromptError('SendCommand: not `def _send_command(command): ...; return _send_command`')
    sc = Scope('send', argnames(inner[0]), free={ps[0]: '(EAttr AQueueIn)'})
    res['send_command'] = tr_body(inner[0].body, sc, 'SendCommand._send_command')
    res['send_command_params'] = sc.params()
    # RunSession.run: the statements that touch queue_in / send_command / open_prompts, in source order
    rs = find(ts.body, ast.ClassDef, 'RunSession', SRC_SESSION)
    check_class(rs, 'RunSession', [], [])
    run = find(rs.body, ast.AsyncFunctionDef, 'run', 'RunSession')
    if [norm(d) for d in run.decorator_list] != ['hookimpl', 'contextlib.asynccontextmanager'] or argnames(run) != ['self', 'context']:
        raise PromptError('RunSession.run: decorators/parameters')
    tracked: list[str] = []
    pos = {}

    def mentions(st) -> bool:
        for n in ast.walk(st):
            if isinstance(n, ast.Name) and n.id in ('queue_in', 'SendCommand'):
                return True
            if isinstance(n, ast.Attribute) and n.attr in ('open_prompts', 'send_command'):
                return True
        return False

    def walk_run(stmts):
        for st in strip_doc(stmts):
            w = where('RunSession.run', st)
            if isinstance(st, (ast.AsyncWith, ast.With)):
                if any(mentions(it.context_expr) for it in st.items):
                    raise PromptError(f'{w}: with item touches the command path')
                walk_run(st.body)
                continue
            if isinstance(st, ast.Try):
                walk_run(st.body)
                for h in st.handlers:
                    walk_run(h.body)
                walk_run(st.orelse)
                walk_run(st.finalbody)
                continue
            if isinstance(st, (ast.If, ast.While, ast.For, ast.AsyncFor)):
                if mentions(st):
                    raise PromptError(f'{w}: a branch/loop touches the command path')
                continue
            if not mentions(st):
                continue
            if isinstance(st, ast.Assign) and len(st.targets) == 1:
                t, v = st.targets[0], st.value
                if is_name(t, 'queue_in'):
                    q = v
                    if isinstance(q, ast.Call) and is_name(q.func, 'cast') and len(q.args) == 2 and not q.keywords:
                        q = q.args[1]
                    if not (is_call(q, ['mp_context', 'Queue']) and not q.args and not q.keywords):
                        raise PromptError(f'{w}: `{norm(st)}` is not a new mp queue')
                    tracked.append('SNewQueueIn')
                    continue
                if is_attr_chain(t, ['context', 'send_command']):
                    if not (isinstance(v, ast.Call) and is_name(v.func, 'SendCommand') and len(v.args) == 1 and not v.keywords
                            and is_name(v.args[0], 'queue_in')):
                        raise PromptError(f'{w}: `{norm(st)}` is not context.send_command = SendCommand(queue_in)')
                    tracked.append('SBindSendCommand')
                    continue
                if is_attr_chain(t, ['context', 'running_process']) and isinstance(v, ast.Await) and isinstance(v.value, ast.Call) \
                        and is_name(v.value.func, 'run_in_process'):
                    kws = {k.arg: k.value for k in v.value.keywords}
                    ini = kws.get('initializer')
                    if not (isinstance(ini, ast.Call) and is_name(ini.func, 'partial') and ini.args and is_attr_chain(ini.args[0], ['spawned', 'set_queues'])
                            and not ini.keywords):
                        raise PromptError(f'{w}: run_in_process(...) without initializer=partial(spawned.set_queues, ...)')
                    where_in = [i for i, a in enumerate(ini.args[1:]) if is_name(a, 'queue_in')]
                    if len(where_in) != 1:
                        raise PromptError(f'{w}: queue_in is not passed exactly once to spawned.set_queues')
                    others = [k for k, x in kws.items() if k != 'initializer' and mentions(x)]
                    if others:
                        raise PromptError(f'{w}: run_in_process(... {others} ...) touches the command path')
                    pos['session'] = where_in[0]
                    tracked.append('SSpawn')
                    continue
            if isinstance(st, ast.Expr):
                try:
                    s = tr_stmt(st, Scope('run', [], context='context'), 'RunSession.run')
                except PromptError:
                    s = None
                if s and s.startswith(('(SSetClear', '(SSetAdd', '(SSetDiscard', '(SSetRemove')):
                    tracked.append(s)
                    continue
            raise PromptError(f'{w}: statement `{norm(st).splitlines()[0]}` touches the command path and is not recognised')

    walk_run(run.body)
    if 'session' not in pos:
        raise PromptError('RunSession.run: the child is never spawned')
    res['run_tracked'] = tracked
    res['session_in_pos'] = pos['session']
    # the rest of session.py must not touch open_prompts
    for node in ts.body:
        if node is rs or node is cls:
            continue
        if any(isinstance(n, ast.Attribute) and n.attr == 'open_prompts' for n in ast.walk(node)):
            raise PromptError(f'{SRC_SESSION}:{node.lineno}: open_prompts used outside RunSession.run / CommandSender.send_command')
    for node in rs.body:
        if node is not run and any(isinstance(n, ast.Attribute) and n.attr == 'open_prompts' for n in ast.walk(node)):
            raise PromptError(f'RunSession:{node.lineno}: open_prompts used outside run()')
    # context.send_command is assigned in RunSession.run only
    for p in sorted((repo / 'nextline').rglob('*.py')):
        t = ast.parse(p.read_text())
        for n in ast.walk(t):
            if isinstance(n, ast.Attribute) and n.attr == 'send_command' and isinstance(n.ctx, (ast.Store, ast.Del)):
                inside = str(p.relative_to(repo)) == SRC_SESSION and run.lineno <= n.lineno <= run.end_lineno
                if not inside:
                    raise PromptError(f'{p.relative_to(repo)}:{n.lineno}: `{norm(n)}` is assigned outside RunSession.run')
    # open_prompts is used nowhere else in the main process
    users = []
    for p in sorted((repo / 'nextline').rglob('*.py')):
        rel = str(p.relative_to(repo))
        if rel in (SRC_SESSION, SRC_MONITOR):
            continue
        t = ast.parse(p.read_text())
        for n in ast.walk(t):
            if isinstance(n, ast.Attribute) and n.attr == 'open_prompts':
                users.append(f'{rel}:{n.lineno}')
    if users:
        raise PromptError(f'open_prompts is also used at {users}')
    # spec.py: the field and its default
    tspec = parse(repo, 'nextline/plugin/spec.py')
    ctx = find(tspec.body, ast.ClassDef, 'Context', 'plugin/spec.py')
    sc_fld = [st for st in ctx.body if isinstance(st, ast.AnnAssign) and is_name(st.target, 'send_command')]
    if len(sc_fld) != 1 or not (isinstance(sc_fld[0].value, ast.Constant) and sc_fld[0].value.value is None):
        raise PromptError('Context.send_command does not default to None')
    if [norm(d) for d in ctx.decorator_list] != ['dataclasses.dataclass'] or ctx.bases or any(
            isinstance(m, FUNS) for m in ctx.body):
        raise PromptError('Context is not a plain dataclasses.dataclass without methods')
    fld = [st for st in ctx.body if isinstance(st, ast.AnnAssign) and is_name(st.target, 'open_prompts')]
    ok = len(fld) == 1 and isinstance(fld[0].value, ast.Call) and is_attr_chain(fld[0].value.func, ['dataclasses', 'field']) and not fld[0].value.args
    kws = {k.arg: k.value for k in fld[0].value.keywords} if ok else {}
    if not ok or set(kws) != {'default_factory'} or not is_name(kws['default_factory'], 'set'):
        raise PromptError('Context.open_prompts is not `dataclasses.field(default_factory=set)`')
    # spawned.set_queues(queue_in, queue_out)
    tsp = parse(repo, SRC_SPAWNED)
    sq = find(tsp.body, ast.FunctionDef, 'set_queues', SRC_SPAWNED)
    params = argnames(sq)
    p_in = None
    for st in strip_doc(sq.body):
        if isinstance(st, ast.Assign) and len(st.targets) == 1 and is_name(st.targets[0], '_queue_in') and isinstance(st.value, ast.Name) \
                and st.value.id in params:
            if p_in is not None:
                raise PromptError('set_queues: _queue_in assigned twice')
            p_in = params.index(st.value.id)
    if p_in is None:
        raise PromptError('set_queues: _queue_in is not assigned from a parameter')
    res['set_queues_in_pos'] = p_in
    mn = find(tsp.body, ast.FunctionDef, 'main', SRC_SPAWNED)
    runs = [n for n in ast.walk(mn) if isinstance(n, ast.Call) and is_name(n.func, 'run')]
    if len(runs) != 1 or runs[0].keywords or len(runs[0].args) != 3 or not is_name(runs[0].args[1], '_queue_in'):
        raise PromptError('spawned.main does not call run(run_arg, _queue_in, _queue_out)')
    # monitor.py
    tm = parse(repo, SRC_MONITOR)
    oe = find(tm.body, ast.ClassDef, 'OnEvent', SRC_MONITOR)
    check_class(oe, 'OnEvent', [], [])
    f = find(oe.body, ast.AsyncFunctionDef, 'on_event_in_process', SRC_MONITOR)
    if argnames(f) != ['self', 'context', 'event']:
        raise PromptError('on_event_in_process: parameters')
    cases = []
    seen_match = False
    for st in strip_doc(f.body):
        w = where('on_event_in_process', st)
        if isinstance(st, ast.Match):
            if seen_match or not is_name(st.subject, 'event'):
                raise PromptError(f'{w}: match statement')
            seen_match = True
            for c in st.cases:
                pat = c.pattern
                if c.guard is not None:
                    raise PromptError(f'on_event_in_process:{pat.lineno}: guarded case')
                sc = Scope('ev', ['event'], context='context')
                if isinstance(pat, ast.MatchAs) and pat.pattern is None and pat.name is None:
                    cases.append(('_', tr_body(c.body, sc, 'on_event_in_process')))
                    continue
                if not (isinstance(pat, ast.MatchClass) and isinstance(pat.cls, ast.Attribute) and is_name(pat.cls.value, 'events')
                        and not pat.patterns and not pat.kwd_patterns):
                    raise PromptError(f'on_event_in_process:{pat.lineno}: case pattern `{norm(pat)}` not recognised')
                cases.append((pat.cls.attr, tr_body(c.body, sc, 'on_event_in_process')))
        elif isinstance(st, ast.Assign) and len(st.targets) == 1 and is_name(st.targets[0], 'ahook') and is_attr_chain(st.value, ['context', 'hook', 'ahook']):
            continue
        elif ignorable(st):
            continue
        else:
            raise PromptError(f'{w}: statement `{norm(st)}` not recognised')
    if not seen_match:
        raise PromptError('on_event_in_process: no match statement')
    if len({c for c, _ in cases}) != len(cases):
        raise PromptError('on_event_in_process: an event class has two cases')
    if cases and cases[-1][0] != '_' and any(c == '_' for c, _ in cases):
        raise PromptError('on_event_in_process: `case _` is not the last case')
    res['event_cases'] = cases
    for node in oe.body:
        if node is not f and isinstance(node, FUNS):
            raise PromptError(f'OnEvent.{node.name} is not translated')
    # main.py: send_pdb_command
    tmain = parse(repo, SRC_MAIN)
    nl = find(tmain.body, ast.ClassDef, 'Nextline', SRC_MAIN)
    f = find(nl.body, ast.AsyncFunctionDef, 'send_pdb_command', 'Nextline')
    names = argnames(f)[1:]
    if sorted(names) != ['command', 'prompt_no', 'trace_no'] or f.decorator_list or f.args.defaults:
        raise PromptError(f'send_pdb_command: parameters {names}')
    sc = Scope('api', names)
    res['api'] = tr_body(f.body, sc, 'Nextline.send_pdb_command')
    res['api_params'] = sc.params()
    res['api_param_names'] = names
    # imp.py: Imp.send_command
    ti = parse(repo, SRC_IMP)
    im = find(ti.body, ast.ClassDef, 'Imp', SRC_IMP)
    f = find(im.body, ast.AsyncFunctionDef, 'send_command', 'Imp')
    if argnames(f) != ['self', 'command'] or f.decorator_list:
        raise PromptError('Imp.send_command: parameters')
    sc = Scope('imp', ['command'])
    res['imp'] = tr_body(f.body, sc, 'Imp.send_command')
    res['imp_params'] = sc.params()
    return res


def pdb_fields(repo: Path) -> list[str]:
    t = parse(repo, SRC_COMMANDS)
    c = find(t.body, ast.ClassDef, 'PdbCommand', SRC_COMMANDS)
    check_class(c, 'PdbCommand', ['Command'], ['dataclass'])
    check_class(find(t.body, ast.ClassDef, 'Command', SRC_COMMANDS), 'Command', [], ['dataclass'])
    for node in t.body:           # module level of commands.py: imports and the two classes
        if not isinstance(node, (ast.Import, ast.ImportFrom, ast.ClassDef)) and not (isinstance(node, ast.Expr) and isinstance(node.value, ast.Constant)):
            raise PromptError(f'{SRC_COMMANDS}:{node.lineno}: module-level statement `{norm(node).splitlines()[0]}`')
    fields = []
    for st in strip_doc(c.body):
        if isinstance(st, ast.AnnAssign) and isinstance(st.target, ast.Name) and st.value is None:
            fields.append(st.target.id)
        elif isinstance(st, ast.Pass):
            continue
        else:
            raise PromptError(f'PdbCommand:{st.lineno}: member `{norm(st)}` (a default, a method such as __eq__/__bool__ would change the semantics)')
    base = find(t.body, ast.ClassDef, 'Command', SRC_COMMANDS)
    if any(not isinstance(st, ast.Pass) and not (isinstance(st, ast.Expr) and isinstance(st.value, ast.Constant)) for st in base.body):
        raise PromptError('Command has members')
    if sorted(fields) != sorted(FIELDS):
        raise PromptError(f'PdbCommand fields {fields}')
    ty = parse(repo, SRC_TYPES)
    for nt in NEWTYPES:
        ok = [st for st in ty.body if isinstance(st, ast.Assign) and len(st.targets) == 1 and is_name(st.targets[0], nt)
              and isinstance(st.value, ast.Call) and is_name(st.value.func, 'NewType') and len(st.value.args) == 2 and is_name(st.value.args[1], 'int')]
        if len(ok) != 1:
            raise PromptError(f'{SRC_TYPES}: {nt} is not NewType({nt!r}, int)')
    return fields


def translate(repo: Path) -> str:
    repo = Path(repo)
    global PDB_FIELDS
    scan_rebinding(repo)
    PDB_FIELDS = pdb_fields(repo)
    ch = child_side(repo)
    mn = main_side(repo)
    strs = lambda xs: coq_list([coq_str(x) for x in xs])
    cases = ';\n   '.join(f'({coq_str(c)}, {b})' for c, b in mn['event_cases'])
    L = [
        '(** GENERATED by translate/prompt_funs.py (ast, CPython %d.%d) -- do not edit.' % sys.version_info[:2],
        f'    From {SRC_PROMPT}, {SRC_FACTORY}, {SRC_COUNT},',
        f'    {SRC_COMMANDS}, {SRC_SESSION}, {SRC_MONITOR},',
        f'    {SRC_SPAWNED}, {SRC_MAIN}, {SRC_IMP}.',
        '    Terms of Prompt/Syntax.v; interpreted and tied to Prompt/Model.v, Prompt/System.v by Prompt/Tie.v.',
        '    Variables: "<fn>.a<i>" = i-th parameter (self/context not counted), "<fn>.l<i>" = i-th local by first binding. *)',
        'From NL Require Import Prompt.Syntax.',
        'Local Open Scope string_scope.',
        '',
        '(** ---- the child: nextline/spawned/plugin/plugins/pdb_/prompt.py *)',
        '(** Prompt.init: self._queue_map = ... *)',
        f'Definition init_queue_map : expr := {ch["init_queue_map"]}.',
        '',
        '(** Prompt.on_start_trace(trace_no) *)',
        f'Definition on_start_trace_params : list string := {strs(ch["on_start_trace_params"])}.',
        f'Definition on_start_trace_body : stmt :=\n  {ch["on_start_trace"]}.',
        '',
        '(** Prompt.on_end_trace(trace_no) *)',
        f'Definition on_end_trace_params : list string := {strs(ch["on_end_trace_params"])}.',
        f'Definition on_end_trace_body : stmt :=\n  {ch["on_end_trace"]}.',
        '',
        '(** Prompt.prompt(prompt_no) *)',
        f'Definition prompt_params : list string := {strs(ch["prompt_params"])}.',
        f'Definition prompt_body : stmt :=\n  {ch["prompt"]}.',
        '',
        '(** relay_commands.fn() *)',
        f'Definition fn_body : stmt :=\n  {ch["fn"]}.',
        '',
        '(** try_again_on_error(func) *)',
        f'Definition try_again_params : list string := {strs(ch["try_again_params"])}.',
        f'Definition try_again_body : stmt :=\n  {ch["try_again"]}.',
        '',
        '(** relay_commands(queue_in, queue_map), @contextmanager: the pool, the submit, try: yield finally: the sentinel, the result *)',
        f'Definition relay_commands_body : stmt :=\n  {ch["relay_commands"]}.',
        '',
        '(** Prompt.context(), @contextmanager *)',
        f'Definition prompt_context_body : stmt := {ch["context"]}.',
        '',
        '(** Repeater.on_prompt(prompt_no, text), @contextmanager: OnStartPrompt, the two yields, finally: OnEndPrompt *)',
        f'Definition on_prompt_params : list string := {strs(ch["on_prompt_params"])}.',
        f'Definition on_prompt_body : stmt :=\n  {ch["on_prompt"]}.',
        '',
        '(** pdb_/factory.py: PdbInstanceFactory.init(hook) / create_local_trace_func(), Factory(hook) *)',
        f'Definition pif_init_body : list wstmt := {ch["pif_init"]}.',
        f'Definition pif_create_body : list wstmt := {ch["pif_create"]}.',
        f'Definition factory_body : list wstmt :=\n  {ch["factory"]}.',
        '',
        '(** PromptFunc._prompt_func(text); counter = PromptNoCounter(counter_start), one per run *)',
        f'Definition prompt_func_params : list string := {strs(ch["prompt_func_params"])}.',
        f'Definition prompt_func_body : stmt :=\n  {ch["prompt_func"]}.',
        f'Definition counter_start : Z := {ch["counter_start"]}.',
        f'Definition counter_step : Z := {ch["counter_step"]}.',
        '',
        '(** PdbCommand: the dataclass fields in order *)',
        f'Definition pdb_command_fields : list string := {strs(PDB_FIELDS)}.',
        '',
        '(** ---- the main process *)',
        '(** Nextline.send_pdb_command(<api_param_names>) *)',
        f'Definition api_param_names : list string := {strs(mn["api_param_names"])}.',
        f'Definition api_params : list string := {strs(mn["api_params"])}.',
        f'Definition api_body : stmt :=\n  {mn["api"]}.',
        '',
        '(** Imp.send_command(command) *)',
        f'Definition imp_params : list string := {strs(mn["imp_params"])}.',
        f'Definition imp_body : stmt := {mn["imp"]}.',
        '',
        '(** CommandSender.send_command(context, command) *)',
        f'Definition sender_params : list string := {strs(mn["sender_params"])}.',
        f'Definition sender_body : stmt :=\n  {mn["sender"]}.',
        '',
        '(** SendCommand(queue_in)._send_command(command) *)',
        f'Definition send_command_params : list string := {strs(mn["send_command_params"])}.',
        f'Definition send_command_body : stmt := {mn["send_command"]}.',
        '',
        '(** OnEvent.on_event_in_process(context, event): event class -> body of its case *)',
        'Definition event_params : list string := ["ev.a0"].',
        f'Definition event_cases : list (string * stmt) :=\n  [{cases}].',
        '',
        '(** RunSession.run: the statements that touch queue_in / context.send_command / context.open_prompts, in source order *)',
        f'Definition run_tracked : list stmt := {coq_list(mn["run_tracked"])}.',
        f'Definition session_in_pos : nat := {mn["session_in_pos"]}.       (* index at which RunSession.run passes queue_in to spawned.set_queues *)',
        f'Definition set_queues_in_pos : nat := {mn["set_queues_in_pos"]}.    (* index of the parameter spawned.set_queues stores in _queue_in *)',
        '',
    ]
    return '\n'.join(L)


if __name__ == '__main__':
    print(translate(Path(sys.argv[1] if len(sys.argv) > 1 else '/repo')))
