"""Fail-closed translator for the command path (C07) -> Gen/PromptFuns.v

Translates with `ast` (statements and expressions are parsed by shape, no pinned source strings)

  nextline/spawned/plugin/plugins/pdb_/prompt.py
      Prompt.init            -> init_queue_map        (the constructor of the per-trace queue map: {} / defaultdict(Queue))
      Prompt.context         -> the wiring of relay_commands' parameters to self._queue_in / self._queue_map
      Prompt.on_start_trace  -> on_start_trace_body
      Prompt.on_end_trace    -> on_end_trace_body
      Prompt.prompt          -> prompt_body           (the lookup of the trace's queue, the loop, the assert, the comparison
                                                       of prompt numbers with ITS OPERATOR, continue / return)
      relay_commands         -> fn_body (the inner fn), relay_thread_body (executor.submit(try_again_on_error, fn)),
                                relay_shutdown
      try_again_on_error     -> try_again_body
  nextline/spawned/plugin/plugins/pdb_/factory.py
      PromptFunc             -> prompt_func_body (_prompt_func), counter_start
  nextline/count.py          PromptNoCounter / CastedCounter -> counter_step
  nextline/spawned/commands.py  PdbCommand           -> pdb_command_fields
  nextline/plugin/plugins/session/session.py
      CommandSender.send_command -> sender_body       (isinstance, the membership test with ITS OPERATOR, return, the forward)
      SendCommand            -> send_command_body     (_send_command: queue_in.put(command))
      RunSession.run         -> run_tracked           (new queue_in, context.send_command = SendCommand(queue_in),
                                                       open_prompts.clear(), the spawn -- in source order), session_in_pos
  nextline/spawned/__init__.py  set_queues           -> set_queues_in_pos
  nextline/plugin/plugins/session/monitor.py
      OnEvent.on_event_in_process -> event_cases      (event class -> translated body)
  nextline/main.py           Nextline.send_pdb_command -> api_body, api_param_names
  nextline/imp.py            Imp.send_command        -> imp_body

into terms of coq/theories/Prompt/Syntax.v.  coq/theories/Prompt/Tie.v interprets them.

Local variables are alpha-normalised ("<fn>.a<i>" parameters, "<fn>.l<i>" locals in the order of first
binding), so renaming a local regenerates the same term.

Fail closed: inside the translated functions every statement must either be recognised or be
IGNORABLE: logging (`logger.xxx(...)`, `logger = getLogger(...)`, `self._logger.xxx(...)`), an `if` whose
test has no call / walrus and whose branches are logging only, an `assert` of the truthiness of a plain
name / attribute, a string assignment used for logging only, docstrings, `pass`.  Anything else raises
PromptError and `./check C07` reports a broken tie obligation.
"""
from __future__ import annotations

import ast
import sys
from pathlib import Path

OUTPUT = 'PromptFuns.v'
SRC_PROMPT = 'nextline/spawned/plugin/plugins/pdb_/prompt.py'
SRC_FACTORY = 'nextline/spawned/plugin/plugins/pdb_/factory.py'
SRC_COUNT = 'nextline/count.py'
SRC_COMMANDS = 'nextline/spawned/commands.py'
SRC_TYPES = 'nextline/types.py'
SRC_SESSION = 'nextline/plugin/plugins/session/session.py'
SRC_MONITOR = 'nextline/plugin/plugins/session/monitor.py'
SRC_SPAWNED = 'nextline/spawned/__init__.py'
SRC_MAIN = 'nextline/main.py'
SRC_IMP = 'nextline/imp.py'
CHILD_PLUGINS = 'nextline/spawned/plugin/plugins'
MAIN_PLUGINS = 'nextline/plugin/plugins'

FIELDS = {'trace_no': 'FTraceNo', 'prompt_no': 'FPromptNo', 'command': 'FCommand'}
HANDLES = {'BaseException': 'HBaseException', 'Exception': 'HException', 'AssertionError': 'HAssertionError',
           'KeyError': 'HKeyError'}
NEWTYPES = ('TraceNo', 'PromptNo')


class PromptError(Exception):
    pass


# ---------------------------------------------------------------- generic helpers

def norm(node) -> str:
    return ast.unparse(node).strip()


def where(fn: str, st) -> str:
    return f'{fn}:{getattr(st, "lineno", "?")}'


def strip_doc(body):
    if body and isinstance(body[0], ast.Expr) and isinstance(body[0].value, ast.Constant) and isinstance(body[0].value.value, str):
        return body[1:]
    return body


def is_name(n, s: str) -> bool:
    return isinstance(n, ast.Name) and n.id == s


def is_attr_chain(n, chain: list[str]) -> bool:
    for part in reversed(chain[1:]):
        if not (isinstance(n, ast.Attribute) and n.attr == part):
            return False
        n = n.value
    return is_name(n, chain[0])


def is_call(n, chain: list[str]) -> bool:
    return isinstance(n, ast.Call) and is_attr_chain(n.func, chain)


def find(body, kind, name, what=''):
    xs = [n for n in body if isinstance(n, kind) and n.name == name]
    if len(xs) != 1:
        raise PromptError(f'{what}: expected exactly one {getattr(kind, "__name__", kind)} `{name}`, found {len(xs)}')
    return xs[0]


FUNS = (ast.FunctionDef, ast.AsyncFunctionDef)


def argnames(fn) -> list[str]:
    a = fn.args
    if a.vararg or a.kwarg or a.posonlyargs or a.kwonlyargs:
        raise PromptError(f'{fn.name}: *args/**kwargs/positional-only/keyword-only parameters')
    return [x.arg for x in a.args]


def coq_str(s: str) -> str:
    if '"' in s:
        raise PromptError(f'string {s!r}')
    return f'"{s}"'


def is_logger_expr(n) -> bool:
    return is_name(n, 'logger') or is_attr_chain(n, ['self', '_logger'])


def has_effect_nodes(n) -> bool:
    return any(isinstance(x, (ast.Call, ast.Await, ast.NamedExpr, ast.Yield, ast.YieldFrom)) for x in ast.walk(n))


def is_logging(st) -> bool:
    """`logger.xxx(<no walrus>)`, `self._logger.xxx(...)`, `logger = getLogger(...)`, `msg = f'...'`"""
    if any(isinstance(n, (ast.NamedExpr, ast.Await, ast.Yield, ast.YieldFrom)) for n in ast.walk(st)):
        return False
    if isinstance(st, ast.Expr) and isinstance(st.value, ast.Call):
        f = st.value.func
        if isinstance(f, ast.Attribute) and is_logger_expr(f.value):
            # the arguments are formatted only: no call inside them except repr-like formatting
            return not any(isinstance(x, ast.Call) for a in st.value.args + [k.value for k in st.value.keywords] for x in ast.walk(a))
    if isinstance(st, ast.Assign) and len(st.targets) == 1 and is_name(st.targets[0], 'logger'):
        return isinstance(st.value, ast.Call) and is_name(st.value.func, 'getLogger')
    return False


def is_log_string(st, later) -> bool:
    """`msg = f'...'` where msg is used afterwards by logging statements only"""
    if not (isinstance(st, ast.Assign) and len(st.targets) == 1 and isinstance(st.targets[0], ast.Name)
            and isinstance(st.value, (ast.JoinedStr, ast.Constant)) and not has_effect_nodes(st.value)):
        return False
    if isinstance(st.value, ast.Constant) and not isinstance(st.value.value, str):
        return False
    name = st.targets[0].id
    for s in later:
        uses = any(is_name(n, name) for n in ast.walk(s))
        if uses and not is_logging(s):
            return False
    return True


def ignorable(st, later=()) -> bool:
    if isinstance(st, ast.Pass):
        return True
    if isinstance(st, ast.Expr) and isinstance(st.value, ast.Constant):
        return True
    if is_logging(st) or is_log_string(st, later):
        return True
    if isinstance(st, ast.If):
        return not has_effect_nodes(st.test) and all(is_logging(x) or isinstance(x, ast.Pass) for x in st.body + st.orelse)
    if isinstance(st, ast.Assert):
        t = st.test
        while isinstance(t, ast.Attribute):
            t = t.value
        return isinstance(t, ast.Name)         # truthiness of an object
    return False


def seq(items: list[str]) -> str:
    items = [i for i in items if i]
    if not items:
        return 'SSkip'
    if len(items) == 1:
        return items[0]
    return f'(SSeq {items[0]} {seq(items[1:])})'


def coq_list(items: list[str]) -> str:
    return '[' + '; '.join(items) + ']'


# ---------------------------------------------------------------- scopes

class Scope:
    """One translated function: alpha-normalised locals, the resolution of its free names."""

    def __init__(self, tag: str, params: list[str], free: dict[str, str] | None = None, attrs: dict[tuple, str] | None = None,
                 context: str | None = None, hook_prompt: list[str] | None = None, counter: str | None = None):
        self.tag = tag
        self.vars: dict[str, str] = {}
        self.nlocal = 0
        for i, p in enumerate(params):
            self.vars[p] = f'{tag}.a{i}'
        self.free = free or {}              # free name -> Coq expression (closure variables bound to shared objects)
        self.attrs = attrs or {}            # attribute chain -> Coq expression
        self.context = context              # the name of the main process' `context` parameter, if any
        self.hook_prompt = hook_prompt      # parameters of Prompt.prompt (after self): callable through hook.hook.prompt
        self.counter = counter              # name of the closure variable holding the prompt counter
        self.with_var = None                # name bound by `with (context := hook.with_.on_prompt(..))`

    def params(self) -> list[str]:
        return [v for v in self.vars.values() if v.rsplit('.', 1)[1].startswith('a')]

    def bind(self, name: str) -> str:
        if name in self.free:
            raise PromptError(f'{self.tag}: assignment to the closure variable `{name}`')
        if name not in self.vars:
            self.vars[name] = f'{self.tag}.l{self.nlocal}'
            self.nlocal += 1
        return self.vars[name]

    def ref(self, name: str, w: str) -> str:
        if name in self.vars:
            return f'(EVar {coq_str(self.vars[name])})'
        if name in self.free:
            return self.free[name]
        raise PromptError(f'{w}: name `{name}` is neither a local nor a known shared object')


def chain_of(n):
    parts = []
    while isinstance(n, ast.Attribute):
        parts.append(n.attr)
        n = n.value
    if isinstance(n, ast.Name):
        parts.append(n.id)
        return tuple(reversed(parts))
    return None


# ---------------------------------------------------------------- expressions

CMP = {ast.Eq: 'EEq', ast.NotEq: 'ENe', ast.Is: 'EIs', ast.IsNot: 'EIsNot', ast.In: 'EIn', ast.NotIn: 'ENotIn'}


def tr_expr(n, sc: Scope, w: str) -> str:
    if isinstance(n, ast.Constant):
        if n.value is None:
            return 'ENone'
        if n.value is True or n.value is False:
            return f'(EBool {"true" if n.value else "false"})'
        raise PromptError(f'{w}: constant `{norm(n)}`')
    if isinstance(n, ast.Name):
        return sc.ref(n.id, w)
    if isinstance(n, ast.Attribute):
        ch = chain_of(n)
        if ch is not None and ch in sc.attrs:
            return sc.attrs[ch]
        if sc.context and ch == (sc.context, 'open_prompts'):
            return '(EAttr AOpenPrompts)'
        if n.attr in FIELDS:
            return f'(EField {tr_expr(n.value, sc, w)} {FIELDS[n.attr]})'
        raise PromptError(f'{w}: attribute `{norm(n)}` not recognised')
    if isinstance(n, ast.NamedExpr):
        v = tr_expr(n.value, sc, w)
        return f'(EWalrus {coq_str(sc.bind(n.target.id))} {v})'
    if isinstance(n, ast.Tuple):
        if len(n.elts) != 2:
            raise PromptError(f'{w}: tuple `{norm(n)}` is not a pair')
        return f'(ETuple {tr_expr(n.elts[0], sc, w)} {tr_expr(n.elts[1], sc, w)})'
    if isinstance(n, ast.Dict):
        if n.keys:
            raise PromptError(f'{w}: non-empty dict display')
        return 'ENewDict'
    if isinstance(n, ast.UnaryOp) and isinstance(n.op, ast.Not):
        return f'(ENot {tr_expr(n.operand, sc, w)})'
    if isinstance(n, ast.Compare):
        if len(n.ops) != 1 or type(n.ops[0]) not in CMP:
            raise PromptError(f'{w}: comparison `{norm(n)}` not recognised')
        a = tr_expr(n.left, sc, w)
        b = tr_expr(n.comparators[0], sc, w)
        return f'({CMP[type(n.ops[0])]} {a} {b})'
    if isinstance(n, ast.Subscript):
        if isinstance(n.slice, (ast.Slice, ast.Tuple)):
            raise PromptError(f'{w}: subscript `{norm(n)}`')
        d = tr_expr(n.value, sc, w)
        return f'(EGetItem {d} {tr_expr(n.slice, sc, w)})'
    if isinstance(n, ast.Call):
        return tr_call_expr(n, sc, w)
    raise PromptError(f'{w}: expression `{norm(n)}` not recognised')


def tr_call_expr(n: ast.Call, sc: Scope, w: str) -> str:
    f = n.func
    nargs, nkw = len(n.args), len(n.keywords)
    if is_name(f, 'isinstance') and nargs == 2 and not nkw and is_name(n.args[1], 'PdbCommand'):
        return f'(EIsPdbCommand {tr_expr(n.args[0], sc, w)})'
    if is_name(f, 'Queue') and not nargs and not nkw:
        return 'ENewQueue'
    if is_name(f, 'dict') and not nargs and not nkw:
        return 'ENewDict'
    if is_name(f, 'defaultdict') and nargs == 1 and not nkw and is_name(n.args[0], 'Queue'):
        return 'ENewDefaultDictQueue'
    if isinstance(f, ast.Name) and f.id in NEWTYPES and nargs == 1 and not nkw:
        return tr_expr(n.args[0], sc, w)       # typing.NewType: the identity at run time (checked in SRC_TYPES)
    if is_name(f, 'PdbCommand'):
        fields = list(FIELDS)
        vals = {}
        if nargs > len(fields):
            raise PromptError(f'{w}: `{norm(n)}`')
        for i, a in enumerate(n.args):
            vals[PDB_FIELDS[i]] = a
        for k in n.keywords:
            if k.arg is None or k.arg in vals or k.arg not in fields:
                raise PromptError(f'{w}: `{norm(n)}`: keyword {k.arg}')
            vals[k.arg] = k.value
        if set(vals) != set(fields):
            raise PromptError(f'{w}: `{norm(n)}` does not give the three fields')
        return '(EMkCmd ' + ' '.join(tr_expr(vals[x], sc, w) for x in fields) + ')'
    if sc.counter and is_name(f, sc.counter) and not nargs and not nkw:
        return 'ECounterNext'
    if is_attr_chain(f, ['self', '_hook', 'hook', 'current_trace_no']) and not nargs and not nkw:
        return 'ECurrentTraceNo'
    if isinstance(f, ast.Attribute) and f.attr == 'get' and not nkw:
        if nargs == 0:
            return f'(EQueueGet {tr_expr(f.value, sc, w)})'
        if nargs == 1:
            return f'(EDictGet {tr_expr(f.value, sc, w)} {tr_expr(n.args[0], sc, w)})'
    raise PromptError(f'{w}: call `{norm(n)}` not recognised')


PDB_FIELDS: list[str] = []      # set by translate(): the dataclass fields of PdbCommand in order


# ---------------------------------------------------------------- statements

def tr_body(body, sc: Scope, fn: str) -> str:
    body = strip_doc(body)
    out = []
    for i, st in enumerate(body):
        out.append(tr_stmt(st, sc, fn, body[i + 1:]))
    return seq(out)


def hook_prompt_call(v, sc: Scope, w: str):
    """hook.hook.prompt(prompt_no=E, text=text) -> the argument list in the order of Prompt.prompt's parameters"""
    if not (isinstance(v, ast.Call) and is_attr_chain(v.func, ['hook', 'hook', 'prompt'])):
        return None
    if sc.hook_prompt is None:
        raise PromptError(f'{w}: hook.hook.prompt called here')
    if v.args:
        raise PromptError(f'{w}: `{norm(v)}`: hooks are called with keywords')
    kws = {k.arg: k.value for k in v.keywords}
    missing = [p for p in sc.hook_prompt if p not in kws]
    if missing:
        raise PromptError(f'{w}: `{norm(v)}` does not pass {missing}')
    return [tr_expr(kws[p], sc, w) for p in sc.hook_prompt]


def on_prompt_call(v, sc: Scope, w: str):
    """hook.with_.on_prompt(prompt_no=E, text=...) -> E"""
    if not (isinstance(v, ast.Call) and is_attr_chain(v.func, ['hook', 'with_', 'on_prompt'])):
        return None
    if v.args:
        raise PromptError(f'{w}: `{norm(v)}`: hooks are called with keywords')
    kws = {k.arg: k.value for k in v.keywords}
    if 'prompt_no' not in kws:
        raise PromptError(f'{w}: `{norm(v)}` without prompt_no=')
    return tr_expr(kws['prompt_no'], sc, w)


def tr_stmt(st, sc: Scope, fn: str, later=()) -> str:
    w = where(fn, st)
    if ignorable(st, later):
        return ''
    if isinstance(st, ast.If):
        return f'(SIf {tr_expr(st.test, sc, w)} {tr_body(st.body, sc, fn)} {tr_body(st.orelse, sc, fn)})'
    if isinstance(st, ast.While):
        if st.orelse:
            raise PromptError(f'{w}: while/else')
        return f'(SWhile {tr_expr(st.test, sc, w)} {tr_body(st.body, sc, fn)})'
    if isinstance(st, ast.Continue):
        return 'SContinue'
    if isinstance(st, ast.Break):
        return 'SBreak'
    if isinstance(st, ast.Raise):
        if st.exc is not None or st.cause is not None:
            raise PromptError(f'{w}: `{norm(st)}`: only a bare raise is translated')
        return 'SRaise'
    if isinstance(st, ast.Assert):
        return f'(SAssert {tr_expr(st.test, sc, w)})'
    if isinstance(st, ast.Return):
        if st.value is None:
            return '(SReturn ENone)'
        v = st.value
        if isinstance(v, ast.Call) and isinstance(v.func, ast.Name) and v.func.id in sc.vars and not v.args and not v.keywords:
            tmp = sc.bind(f'<return value of {v.func.id}()>')
            return f'(SSeq (SCall (Some {coq_str(tmp)}) (CVar {coq_str(sc.vars[v.func.id])}) []) (SReturn (EVar {coq_str(tmp)})))'
        return f'(SReturn {tr_expr(v, sc, w)})'
    if isinstance(st, ast.Try):
        if st.orelse or st.finalbody or len(st.handlers) != 1:
            raise PromptError(f'{w}: try statement other than try/except with one handler')
        h = st.handlers[0]
        if h.type is None or not isinstance(h.type, ast.Name) or h.type.id not in HANDLES:
            raise PromptError(f'{w}: handler class `{norm(h.type) if h.type else "bare except"}`')
        b = tr_body(st.body, sc, fn)
        hb = tr_body(h.body, sc, fn)
        return f'(STry {b} {HANDLES[h.type.id]} {hb})'
    if isinstance(st, ast.With):
        if len(st.items) != 1:
            raise PromptError(f'{w}: with statement with several items')
        it = st.items[0]
        c = it.context_expr
        var = None
        if isinstance(c, ast.NamedExpr):
            var, c = c.target.id, c.value
        if it.optional_vars is not None:
            if var is not None or not isinstance(it.optional_vars, ast.Name):
                raise PromptError(f'{w}: with ... as ...')
            var = it.optional_vars.id
        p = on_prompt_call(c, sc, w)
        if p is None:
            raise PromptError(f'{w}: `with {norm(it.context_expr)}` is not hook.with_.on_prompt(...)')
        if sc.with_var is not None:
            raise PromptError(f'{w}: nested on_prompt contexts')
        sc.with_var = var
        b = tr_body(st.body, sc, fn)
        sc.with_var = None
        return f'(SWithOnPrompt {p} {b})'
    if isinstance(st, ast.Delete):
        if len(st.targets) != 1 or not isinstance(st.targets[0], ast.Subscript):
            raise PromptError(f'{w}: `{norm(st)}`')
        t = st.targets[0]
        return f'(SDelItem {tr_expr(t.value, sc, w)} {tr_expr(t.slice, sc, w)})'
    if isinstance(st, (ast.Assign, ast.AnnAssign)):
        if isinstance(st, ast.Assign):
            if len(st.targets) != 1:
                raise PromptError(f'{w}: chained assignment')
            t, v = st.targets[0], st.value
        else:
            t, v = st.target, st.value
            if v is None:
                return ''
        if isinstance(t, ast.Subscript):
            return f'(SSetItem {tr_expr(t.value, sc, w)} {tr_expr(t.slice, sc, w)} {tr_expr(v, sc, w)})'
        if isinstance(t, ast.Name):
            args = hook_prompt_call(v, sc, w)
            if args is not None:
                return f'(SCall (Some {coq_str(sc.bind(t.id))}) (CFn FnPrompt) {coq_list(args)})'
            e = tr_expr(v, sc, w)
            return f'(SAssign {coq_str(sc.bind(t.id))} {e})'
        raise PromptError(f'{w}: assignment target `{norm(t)}`')
    if isinstance(st, ast.Expr):
        v = st.value
        aw = False
        if isinstance(v, ast.Await):
            aw, v = True, v.value
        if isinstance(v, ast.Call):
            f = v.func
            nargs, nkw = len(v.args), len(v.keywords)
            if aw:
                if isinstance(f, ast.Attribute) and is_name(f.value, 'ahook') and not nargs:
                    kws = {k.arg: k.value for k in v.keywords}
                    if set(kws) == {'context', 'event'} and is_name(kws['context'], sc.context or '?') and is_name(kws['event'], 'event'):
                        return f'(SAwaitHook {coq_str(f.attr)})'
                if is_attr_chain(f, ['self', '_imp', 'send_command']) and nargs == 1 and not nkw:
                    return f'(SCall None (CFn FnImpSend) [{tr_expr(v.args[0], sc, w)}])'
                if is_attr_chain(f, ['self', '_hook', 'ahook', 'send_command']) and not nargs:
                    kws = {k.arg: k.value for k in v.keywords}
                    if set(kws) == {'context', 'command'} and is_attr_chain(kws['context'], ['self', '_context']):
                        return f'(SCall None (CFn FnSender) [{tr_expr(kws["command"], sc, w)}])'
                raise PromptError(f'{w}: await `{norm(st)}` not recognised')
            if sc.context and is_attr_chain(f, [sc.context, 'send_command']) and nargs == 1 and not nkw:
                return f'(SCall None (CFn FnSendCommand) [{tr_expr(v.args[0], sc, w)}])'
            if sc.with_var and is_attr_chain(f, [sc.with_var, 'gen', 'send']) and nargs == 1 and not nkw:
                return f'(SGenSend {tr_expr(v.args[0], sc, w)})'
            if isinstance(f, ast.Attribute) and not nkw:
                recv = f.value
                if f.attr == 'put' and nargs == 1:
                    return f'(SPut {tr_expr(recv, sc, w)} {tr_expr(v.args[0], sc, w)})'
                if f.attr == 'pop' and nargs == 2 and isinstance(v.args[1], ast.Constant) and v.args[1].value is None:
                    return f'(SPopItem {tr_expr(recv, sc, w)} {tr_expr(v.args[0], sc, w)})'
                if f.attr in ('add', 'discard', 'remove') and nargs == 1:
                    ctor = {'add': 'SSetAdd', 'discard': 'SSetDiscard', 'remove': 'SSetRemove'}[f.attr]
                    return f'({ctor} {tr_expr(recv, sc, w)} {tr_expr(v.args[0], sc, w)})'
                if f.attr == 'clear' and nargs == 0:
                    return f'(SSetClear {tr_expr(recv, sc, w)})'
            return f'(SExpr {tr_expr(v, sc, w)})'
    raise PromptError(f'{w}: statement `{norm(st).splitlines()[0]}` not recognised')


# ---------------------------------------------------------------- the pieces

def parse(repo: Path, rel: str):
    p = repo / rel
    if not p.exists():
        raise PromptError(f'{p} not found')
    return ast.parse(p.read_text())


def hookimpls_named(repo: Path, directory: str, name: str) -> list[str]:
    """the methods called `name` that are decorated with hookimpl under `directory`"""
    found = []
    for p in sorted((repo / directory).rglob('*.py')):
        t = ast.parse(p.read_text())
        for node in ast.walk(t):
            if isinstance(node, FUNS) and node.name == name and any('hookimpl' in norm(d) for d in node.decorator_list):
                found.append(f'{p.relative_to(repo)}:{node.lineno}')
    return found


def decorators(fn) -> list[str]:
    return [norm(d) for d in fn.decorator_list]


def child_side(repo: Path) -> dict:
    res = {}
    tp = parse(repo, SRC_PROMPT)
    cls = find(tp.body, ast.ClassDef, 'Prompt', SRC_PROMPT)
    members = {m.name: m for m in cls.body if isinstance(m, FUNS)}
    for m in cls.body:
        if not isinstance(m, FUNS) and not (isinstance(m, ast.Expr) and isinstance(m.value, ast.Constant)):
            raise PromptError(f'Prompt:{m.lineno}: member `{norm(m).splitlines()[0]}` not recognised')
    known = {'__init__', 'init', 'context', 'on_start_trace', 'on_end_trace', 'prompt'}
    extra = set(members) - known
    if extra:
        raise PromptError(f'Prompt: members {sorted(extra)} are not translated (they could touch the queues)')
    for k in known - {'__init__'}:
        if k not in members:
            raise PromptError(f'Prompt.{k} not found')
        if 'hookimpl' not in decorators(members[k]):
            raise PromptError(f'Prompt.{k} is not a hookimpl')
    self_attrs = {('self', '_queue_map'): '(EAttr AQueueMap)', ('self', '_queue_in'): '(EAttr AQueueIn)'}
    # __init__: nothing but the logger
    if '__init__' in members:
        for st in strip_doc(members['__init__'].body):
            ok = isinstance(st, ast.Assign) and len(st.targets) == 1 and is_attr_chain(st.targets[0], ['self', '_logger'])
            if not ok and not ignorable(st):
                raise PromptError(f'{where("Prompt.__init__", st)}: statement `{norm(st)}` not recognised')
    # init(self, hook, queue_in)
    f = members['init']
    params = argnames(f)
    init_map = None
    in_bound = False
    for st in strip_doc(f.body):
        w = where('Prompt.init', st)
        if isinstance(st, (ast.Assign, ast.AnnAssign)):
            t = st.targets[0] if isinstance(st, ast.Assign) else st.target
            v = st.value
            if is_attr_chain(t, ['self', '_hook']) and is_name(v, 'hook') and 'hook' in params:
                continue
            if is_attr_chain(t, ['self', '_queue_in']) and is_name(v, 'queue_in') and 'queue_in' in params:
                in_bound = True
                continue
            if is_attr_chain(t, ['self', '_queue_map']) and v is not None:
                if init_map is not None:
                    raise PromptError(f'{w}: _queue_map assigned twice')
                init_map = tr_expr(v, Scope('init', []), w)
                continue
        if ignorable(st):
            continue
        raise PromptError(f'{w}: statement `{norm(st)}` not recognised')
    if init_map is None or not in_bound:
        raise PromptError('Prompt.init: _queue_map / _queue_in not initialised')
    res['init_queue_map'] = init_map
    # context: with relay_commands(self._queue_in, self._queue_map): yield
    f = members['context']
    if decorators(f) != ['hookimpl', 'contextmanager'] or argnames(f) != ['self']:
        raise PromptError('Prompt.context: decorators/parameters')
    body = strip_doc(f.body)
    ok = len(body) == 1 and isinstance(body[0], ast.With) and len(body[0].items) == 1 and body[0].items[0].optional_vars is None
    call = body[0].items[0].context_expr if ok else None
    ok = ok and isinstance(call, ast.Call) and is_name(call.func, 'relay_commands') and not call.keywords
    ok = ok and len(body[0].body) == 1 and isinstance(body[0].body[0], ast.Expr) and isinstance(body[0].body[0].value, ast.Yield) \
        and body[0].body[0].value.value is None
    if not ok:
        raise PromptError('Prompt.context is not `with relay_commands(...): yield`')
    wiring = []
    for a in call.args:
        ch = chain_of(a)
        if ch not in self_attrs:
            raise PromptError(f'Prompt.context: argument `{norm(a)}` of relay_commands')
        wiring.append(self_attrs[ch])
    # on_start_trace / on_end_trace (self, trace_no)
    for nm in ('on_start_trace', 'on_end_trace'):
        f = members[nm]
        if decorators(f) != ['hookimpl'] or argnames(f) != ['self', 'trace_no']:
            raise PromptError(f'Prompt.{nm}: decorators/parameters {argnames(f)}')
        sc = Scope(nm, ['trace_no'], attrs=self_attrs)
        res[nm] = tr_body(f.body, sc, f'Prompt.{nm}')
        res[nm + '_params'] = sc.params()
    # prompt(self, prompt_no)
    f = members['prompt']
    if decorators(f) != ['hookimpl'] or argnames(f)[:1] != ['self']:
        raise PromptError('Prompt.prompt: decorators/parameters')
    prompt_params = argnames(f)[1:]
    if not set(prompt_params) <= {'prompt_no', 'text'} or 'prompt_no' not in prompt_params:
        raise PromptError(f'Prompt.prompt: parameters {prompt_params}')
    sc = Scope('prompt', prompt_params, attrs=self_attrs)
    res['prompt'] = tr_body(f.body, sc, 'Prompt.prompt')
    res['prompt_params'] = sc.params()
    impls = hookimpls_named(repo, CHILD_PLUGINS, 'prompt')
    if len(impls) != 1:
        raise PromptError(f'the hook `prompt` (first result) has {len(impls)} implementations: {impls}')
    # relay_commands(queue_in, queue_map)
    f = find(tp.body, ast.FunctionDef, 'relay_commands', SRC_PROMPT)
    if decorators(f) != ['contextmanager']:
        raise PromptError('relay_commands: decorators')
    rparams = argnames(f)
    if len(rparams) != len(wiring):
        raise PromptError(f'relay_commands has parameters {rparams} but Prompt.context passes {len(wiring)} arguments')
    free = dict(zip(rparams, wiring))
    if sorted(free.values()) != ['(EAttr AQueueIn)', '(EAttr AQueueMap)']:
        raise PromptError(f'relay_commands: wiring {free}')
    fn_def = None
    submit = None
    shutdown = None
    yields = 0

    def walk_relay(stmts, in_loop=False):
        nonlocal fn_def, submit, shutdown, yields
        for st in strip_doc(stmts):
            w = where('relay_commands', st)
            if isinstance(st, ast.FunctionDef):
                if fn_def is not None or st.decorator_list or argnames(st):
                    raise PromptError(f'{w}: nested function `{st.name}`')
                fn_def = st
            elif isinstance(st, ast.With):
                for it in st.items:
                    c = it.context_expr
                    if not (isinstance(c, ast.Call) and is_name(c.func, 'ThreadPoolExecutor')):
                        raise PromptError(f'{w}: with `{norm(c)}`')
                    mw = [k.value for k in c.keywords if k.arg == 'max_workers']
                    if c.args or len(mw) != 1 or not (isinstance(mw[0], ast.Constant) and mw[0].value == 1):
                        raise PromptError(f'{w}: `{norm(c)}` is not ThreadPoolExecutor(max_workers=1)')
                    if not (isinstance(it.optional_vars, ast.Name) and it.optional_vars.id == 'executor'):
                        raise PromptError(f'{w}: with ... as `{norm(it.optional_vars) if it.optional_vars else None}`')
                walk_relay(st.body)
            elif isinstance(st, ast.Try):
                if st.handlers or st.orelse:
                    raise PromptError(f'{w}: try statement other than try/finally')
                walk_relay(st.body)
                walk_relay(st.finalbody)
            elif isinstance(st, ast.Assign) and len(st.targets) == 1 and is_name(st.targets[0], 'future') \
                    and is_call(st.value, ['executor', 'submit']):
                c = st.value
                if submit is not None or c.keywords or len(c.args) != 2 or fn_def is None:
                    raise PromptError(f'{w}: `{norm(st)}`')
                if not is_name(c.args[0], 'try_again_on_error') or not is_name(c.args[1], fn_def.name):
                    raise PromptError(f'{w}: `{norm(st)}` is not executor.submit(try_again_on_error, {fn_def.name})')
                submit = 'SCall None (CFn FnTryAgain) [EFun FnFn]'
            elif isinstance(st, ast.Expr) and isinstance(st.value, ast.Yield) and st.value.value is None:
                yields += 1
            elif isinstance(st, ast.Expr) and is_call(st.value, ['future', 'result']) and not st.value.args:
                pass
            elif isinstance(st, ast.Expr) and isinstance(st.value, ast.Call) and isinstance(st.value.func, ast.Attribute) \
                    and st.value.func.attr == 'put':
                if shutdown is not None:
                    raise PromptError(f'{w}: a second put in relay_commands')
                shutdown = tr_stmt(st, Scope('relay', [], free=free), 'relay_commands')
            elif ignorable(st):
                pass
            else:
                raise PromptError(f'{w}: statement `{norm(st).splitlines()[0]}` not recognised')

    walk_relay(f.body)
    if fn_def is None or submit is None or yields != 1 or shutdown is None:
        raise PromptError('relay_commands: fn / submit / yield / shutdown put missing')
    if shutdown != '(SPut (EAttr AQueueIn) ENone)':
        raise PromptError(f'relay_commands: the put of the finally clause is `{shutdown}`, not queue_in.put(None)')
    sc = Scope('fn', [], free=free)
    res['fn'] = tr_body(fn_def.body, sc, 'relay_commands.fn')
    res['relay_thread'] = submit
    res['relay_shutdown'] = shutdown
    # try_again_on_error(func)
    f = find(tp.body, ast.FunctionDef, 'try_again_on_error', SRC_PROMPT)
    if f.decorator_list or len(argnames(f)) != 1:
        raise PromptError('try_again_on_error: decorators/parameters')
    sc = Scope('ta', argnames(f))
    res['try_again'] = tr_body(f.body, sc, 'try_again_on_error')
    res['try_again_params'] = sc.params()
    # the names the semantics rests on are the stdlib ones, bound once
    imported = {}
    for node in ast.walk(tp):
        if isinstance(node, ast.ImportFrom):
            for a in node.names:
                imported.setdefault(a.asname or a.name, []).append((node.module, a.name, node in tp.body))
        elif isinstance(node, ast.Import):
            for a in node.names:
                imported.setdefault((a.asname or a.name).split('.')[0], []).append((None, a.name, node in tp.body))
    for nm, mod in (('Queue', 'queue'), ('ThreadPoolExecutor', 'concurrent.futures')):
        if imported.get(nm) != [(mod, nm, True)]:
            raise PromptError(f'{SRC_PROMPT}: `{nm}` is not (only) `from {mod} import {nm}`: {imported.get(nm)}')
        rebinds = [n for n in ast.walk(tp) if (isinstance(n, ast.Name) and n.id == nm and isinstance(n.ctx, (ast.Store, ast.Del)))
                   or (isinstance(n, (ast.FunctionDef, ast.ClassDef)) and n.name == nm) or (isinstance(n, ast.arg) and n.arg == nm)]
        if rebinds:
            raise PromptError(f'{SRC_PROMPT}:{rebinds[0].lineno}: `{nm}` is rebound')
    # nothing else at module level uses the queues
    for node in tp.body:
        if isinstance(node, FUNS) and node.name not in ('relay_commands', 'try_again_on_error'):
            raise PromptError(f'{SRC_PROMPT}:{node.lineno}: function `{node.name}` is not translated')
        if isinstance(node, ast.ClassDef) and node.name != 'Prompt':
            raise PromptError(f'{SRC_PROMPT}:{node.lineno}: class `{node.name}` is not translated')
    # ---- factory.py: PromptFunc
    tf = parse(repo, SRC_FACTORY)
    f = find(tf.body, ast.FunctionDef, 'PromptFunc', SRC_FACTORY)
    if argnames(f) != ['hook']:
        raise PromptError('PromptFunc: parameters')
    counter = None
    start = None
    inner = None
    returned = None
    for st in strip_doc(f.body):
        w = where('PromptFunc', st)
        if isinstance(st, ast.Assign) and len(st.targets) == 1 and isinstance(st.targets[0], ast.Name) and isinstance(st.value, ast.Call) \
                and is_name(st.value.func, 'PromptNoCounter'):
            c = st.value
            if counter is not None or c.keywords or len(c.args) != 1 or not (isinstance(c.args[0], ast.Constant) and type(c.args[0].value) is int):
                raise PromptError(f'{w}: `{norm(st)}`')
            counter, start = st.targets[0].id, c.args[0].value
        elif isinstance(st, ast.FunctionDef):
            if inner is not None or st.decorator_list:
                raise PromptError(f'{w}: nested function `{st.name}`')
            inner = st
        elif isinstance(st, ast.Return):
            returned = st.value
        elif ignorable(st):
            pass
        else:
            raise PromptError(f'{w}: statement `{norm(st)}` not recognised')
    if counter is None or inner is None or not is_name(returned, inner.name):
        raise PromptError('PromptFunc: counter / inner function / return missing')
    sc = Scope('pf', argnames(inner), hook_prompt=prompt_params, counter=counter)
    # `text` is passed through to the hooks only
    res['prompt_func'] = tr_body(inner.body, sc, f'PromptFunc.{inner.name}')
    res['prompt_func_params'] = sc.params()
    res['counter_start'] = start
    # the one PromptFunc is shared by all Pdb instances: Factory creates it once, outside _factory
    fac = find(tf.body, ast.FunctionDef, 'Factory', SRC_FACTORY)
    outer = [st for st in fac.body if isinstance(st, ast.Assign) and isinstance(st.value, ast.Call) and is_name(st.value.func, 'PromptFunc')]
    nested = [n for st in fac.body if isinstance(st, FUNS) for n in ast.walk(st) if isinstance(n, ast.Call) and is_name(n.func, 'PromptFunc')]
    if len(outer) != 1 or nested:
        raise PromptError('Factory: PromptFunc(...) is not created exactly once outside the per-trace factory (the counter would not be run-unique)')
    # ---- count.py
    tc = parse(repo, SRC_COUNT)
    f = find(tc.body, ast.FunctionDef, 'PromptNoCounter', SRC_COUNT)
    ps = argnames(f)
    rets = [st for st in strip_doc(f.body) if not ignorable(st)]
    ok = len(ps) == 1 and len(rets) == 1 and isinstance(rets[0], ast.Return) and isinstance(rets[0].value, ast.Call) \
        and is_name(rets[0].value.func, 'CastedCounter') and len(rets[0].value.args) == 2 and not rets[0].value.keywords
    a0 = rets[0].value.args[0] if ok else None
    ok = ok and isinstance(a0, ast.Attribute) and a0.attr == '__next__' and isinstance(a0.value, ast.Call) and is_name(a0.value.func, 'count') \
        and len(a0.value.args) == 1 and not a0.value.keywords and is_name(a0.value.args[0], ps[0]) and is_name(rets[0].value.args[1], 'PromptNo')
    if not ok:
        raise PromptError('PromptNoCounter is not `return CastedCounter(count(start).__next__, PromptNo)`')
    f = find(tc.body, ast.FunctionDef, 'CastedCounter', SRC_COUNT)
    ps = argnames(f)
    inner = [st for st in strip_doc(f.body) if isinstance(st, ast.FunctionDef)]
    ok = len(ps) == 2 and len(inner) == 1 and not argnames(inner[0])
    body = [st for st in strip_doc(inner[0].body) if not ignorable(st)] if ok else []
    ok = ok and len(body) == 1 and isinstance(body[0], ast.Return) and isinstance(body[0].value, ast.Call) and is_name(body[0].value.func, ps[1]) \
        and len(body[0].value.args) == 1 and isinstance(body[0].value.args[0], ast.Call) and is_name(body[0].value.args[0].func, ps[0]) \
        and not body[0].value.args[0].args
    if not ok:
        raise PromptError('CastedCounter does not return type_(src())')
    imp = [a.name for st in tc.body if isinstance(st, ast.ImportFrom) and st.module == 'itertools' for a in st.names if (a.asname or a.name) == 'count']
    if imp != ['count']:
        raise PromptError('count.py: `count` is not itertools.count')
    res['counter_step'] = 1
    return res


def main_side(repo: Path) -> dict:
    res = {}
    ts = parse(repo, SRC_SESSION)
    # CommandSender.send_command(self, context, command)
    cls = find(ts.body, ast.ClassDef, 'CommandSender', SRC_SESSION)
    f = find(cls.body, ast.AsyncFunctionDef, 'send_command', 'CommandSender')
    if decorators(f) != ['hookimpl'] or argnames(f) != ['self', 'context', 'command']:
        raise PromptError(f'CommandSender.send_command: decorators/parameters {argnames(f)}')
    sc = Scope('sender', ['command'], context='context')
    res['sender'] = tr_body(f.body, sc, 'CommandSender.send_command')
    res['sender_params'] = sc.params()
    impls = hookimpls_named(repo, MAIN_PLUGINS, 'send_command')
    if len(impls) != 1:
        raise PromptError(f'the hook `send_command` has {len(impls)} implementations: {impls}')
    # SendCommand(queue_in) -> _send_command(command)
    f = find(ts.body, ast.FunctionDef, 'SendCommand', SRC_SESSION)
    ps = argnames(f)
    inner = [st for st in strip_doc(f.body) if isinstance(st, ast.FunctionDef)]
    rets = [st for st in strip_doc(f.body) if isinstance(st, ast.Return)]
    rest = [st for st in strip_doc(f.body) if not isinstance(st, (ast.FunctionDef, ast.Return)) and not ignorable(st)]
    if len(ps) != 1 or len(inner) != 1 or len(rets) != 1 or not is_name(rets[0].value, inner[0].name) or rest or inner[0].decorator_list:
        raise PromptError('SendCommand: not `def _send_command(command): ...; return _send_command`')
    sc = Scope('send', argnames(inner[0]), free={ps[0]: '(EAttr AQueueIn)'})
    res['send_command'] = tr_body(inner[0].body, sc, 'SendCommand._send_command')
    res['send_command_params'] = sc.params()
    # RunSession.run: the statements that touch queue_in / send_command / open_prompts, in source order
    rs = find(ts.body, ast.ClassDef, 'RunSession', SRC_SESSION)
    run = find(rs.body, ast.AsyncFunctionDef, 'run', 'RunSession')
    tracked: list[str] = []
    pos = {}

    def mentions(st) -> bool:
        for n in ast.walk(st):
            if isinstance(n, ast.Name) and n.id in ('queue_in', 'SendCommand'):
                return True
            if isinstance(n, ast.Attribute) and n.attr in ('open_prompts', 'send_command'):
                return True
        return False

    def walk_run(stmts):
        for st in strip_doc(stmts):
            w = where('RunSession.run', st)
            if isinstance(st, (ast.AsyncWith, ast.With)):
                if any(mentions(it.context_expr) for it in st.items):
                    raise PromptError(f'{w}: with item touches the command path')
                walk_run(st.body)
                continue
            if isinstance(st, ast.Try):
                walk_run(st.body)
                for h in st.handlers:
                    walk_run(h.body)
                walk_run(st.orelse)
                walk_run(st.finalbody)
                continue
            if isinstance(st, (ast.If, ast.While, ast.For, ast.AsyncFor)):
                if mentions(st):
                    raise PromptError(f'{w}: a branch/loop touches the command path')
                continue
            if not mentions(st):
                continue
            if isinstance(st, ast.Assign) and len(st.targets) == 1:
                t, v = st.targets[0], st.value
                if is_name(t, 'queue_in'):
                    q = v
                    if isinstance(q, ast.Call) and is_name(q.func, 'cast') and len(q.args) == 2 and not q.keywords:
                        q = q.args[1]
                    if not (is_call(q, ['mp_context', 'Queue']) and not q.args and not q.keywords):
                        raise PromptError(f'{w}: `{norm(st)}` is not a new mp queue')
                    tracked.append('SNewQueueIn')
                    continue
                if is_attr_chain(t, ['context', 'send_command']):
                    if not (isinstance(v, ast.Call) and is_name(v.func, 'SendCommand') and len(v.args) == 1 and not v.keywords
                            and is_name(v.args[0], 'queue_in')):
                        raise PromptError(f'{w}: `{norm(st)}` is not context.send_command = SendCommand(queue_in)')
                    tracked.append('SBindSendCommand')
                    continue
                if is_attr_chain(t, ['context', 'running_process']) and isinstance(v, ast.Await) and isinstance(v.value, ast.Call) \
                        and is_name(v.value.func, 'run_in_process'):
                    kws = {k.arg: k.value for k in v.value.keywords}
                    ini = kws.get('initializer')
                    if not (isinstance(ini, ast.Call) and is_name(ini.func, 'partial') and ini.args and is_attr_chain(ini.args[0], ['spawned', 'set_queues'])
                            and not ini.keywords):
                        raise PromptError(f'{w}: run_in_process(...) without initializer=partial(spawned.set_queues, ...)')
                    where_in = [i for i, a in enumerate(ini.args[1:]) if is_name(a, 'queue_in')]
                    if len(where_in) != 1:
                        raise PromptError(f'{w}: queue_in is not passed exactly once to spawned.set_queues')
                    others = [k for k, x in kws.items() if k != 'initializer' and mentions(x)]
                    if others:
                        raise PromptError(f'{w}: run_in_process(... {others} ...) touches the command path')
                    pos['session'] = where_in[0]
                    tracked.append('SSpawn')
                    continue
            if isinstance(st, ast.Expr):
                try:
                    s = tr_stmt(st, Scope('run', [], context='context'), 'RunSession.run')
                except PromptError:
                    s = None
                if s and s.startswith(('(SSetClear', '(SSetAdd', '(SSetDiscard', '(SSetRemove')):
                    tracked.append(s)
                    continue
            raise PromptError(f'{w}: statement `{norm(st).splitlines()[0]}` touches the command path and is not recognised')

    walk_run(run.body)
    if 'session' not in pos:
        raise PromptError('RunSession.run: the child is never spawned')
    res['run_tracked'] = tracked
    res['session_in_pos'] = pos['session']
    # the rest of session.py must not touch open_prompts
    for node in ts.body:
        if node is rs or node is cls:
            continue
        if any(isinstance(n, ast.Attribute) and n.attr == 'open_prompts' for n in ast.walk(node)):
            raise PromptError(f'{SRC_SESSION}:{node.lineno}: open_prompts used outside RunSession.run / CommandSender.send_command')
    for node in rs.body:
        if node is not run and any(isinstance(n, ast.Attribute) and n.attr == 'open_prompts' for n in ast.walk(node)):
            raise PromptError(f'RunSession:{node.lineno}: open_prompts used outside run()')
    # open_prompts is used nowhere else in the main process
    users = []
    for p in sorted((repo / 'nextline').rglob('*.py')):
        rel = str(p.relative_to(repo))
        if rel in (SRC_SESSION, SRC_MONITOR):
            continue
        t = ast.parse(p.read_text())
        for n in ast.walk(t):
            if isinstance(n, ast.Attribute) and n.attr == 'open_prompts':
                users.append(f'{rel}:{n.lineno}')
    if users:
        raise PromptError(f'open_prompts is also used at {users}')
    # spec.py: the field and its default
    tspec = parse(repo, 'nextline/plugin/spec.py')
    ctx = find(tspec.body, ast.ClassDef, 'Context', 'plugin/spec.py')
    fld = [st for st in ctx.body if isinstance(st, ast.AnnAssign) and is_name(st.target, 'open_prompts')]
    ok = len(fld) == 1 and isinstance(fld[0].value, ast.Call) and is_attr_chain(fld[0].value.func, ['dataclasses', 'field']) and not fld[0].value.args
    kws = {k.arg: k.value for k in fld[0].value.keywords} if ok else {}
    if not ok or set(kws) != {'default_factory'} or not is_name(kws['default_factory'], 'set'):
        raise PromptError('Context.open_prompts is not `dataclasses.field(default_factory=set)`')
    # spawned.set_queues(queue_in, queue_out)
    tsp = parse(repo, SRC_SPAWNED)
    sq = find(tsp.body, ast.FunctionDef, 'set_queues', SRC_SPAWNED)
    params = argnames(sq)
    p_in = None
    for st in strip_doc(sq.body):
        if isinstance(st, ast.Assign) and len(st.targets) == 1 and is_name(st.targets[0], '_queue_in') and isinstance(st.value, ast.Name) \
                and st.value.id in params:
            if p_in is not None:
                raise PromptError('set_queues: _queue_in assigned twice')
            p_in = params.index(st.value.id)
    if p_in is None:
        raise PromptError('set_queues: _queue_in is not assigned from a parameter')
    res['set_queues_in_pos'] = p_in
    mn = find(tsp.body, ast.FunctionDef, 'main', SRC_SPAWNED)
    runs = [n for n in ast.walk(mn) if isinstance(n, ast.Call) and is_name(n.func, 'run')]
    if len(runs) != 1 or runs[0].keywords or len(runs[0].args) != 3 or not is_name(runs[0].args[1], '_queue_in'):
        raise PromptError('spawned.main does not call run(run_arg, _queue_in, _queue_out)')
    # monitor.py
    tm = parse(repo, SRC_MONITOR)
    oe = find(tm.body, ast.ClassDef, 'OnEvent', SRC_MONITOR)
    f = find(oe.body, ast.AsyncFunctionDef, 'on_event_in_process', SRC_MONITOR)
    if argnames(f) != ['self', 'context', 'event']:
        raise PromptError('on_event_in_process: parameters')
    cases = []
    seen_match = False
    for st in strip_doc(f.body):
        w = where('on_event_in_process', st)
        if isinstance(st, ast.Match):
            if seen_match or not is_name(st.subject, 'event'):
                raise PromptError(f'{w}: match statement')
            seen_match = True
            for c in st.cases:
                pat = c.pattern
                if c.guard is not None:
                    raise PromptError(f'on_event_in_process:{pat.lineno}: guarded case')
                sc = Scope('ev', ['event'], context='context')
                if isinstance(pat, ast.MatchAs) and pat.pattern is None and pat.name is None:
                    cases.append(('_', tr_body(c.body, sc, 'on_event_in_process')))
                    continue
                if not (isinstance(pat, ast.MatchClass) and isinstance(pat.cls, ast.Attribute) and is_name(pat.cls.value, 'events')
                        and not pat.patterns and not pat.kwd_patterns):
                    raise PromptError(f'on_event_in_process:{pat.lineno}: case pattern `{norm(pat)}` not recognised')
                cases.append((pat.cls.attr, tr_body(c.body, sc, 'on_event_in_process')))
        elif isinstance(st, ast.Assign) and len(st.targets) == 1 and is_name(st.targets[0], 'ahook') and is_attr_chain(st.value, ['context', 'hook', 'ahook']):
            continue
        elif ignorable(st):
            continue
        else:
            raise PromptError(f'{w}: statement `{norm(st)}` not recognised')
    if not seen_match:
        raise PromptError('on_event_in_process: no match statement')
    if len({c for c, _ in cases}) != len(cases):
        raise PromptError('on_event_in_process: an event class has two cases')
    if cases and cases[-1][0] != '_' and any(c == '_' for c, _ in cases):
        raise PromptError('on_event_in_process: `case _` is not the last case')
    res['event_cases'] = cases
    for node in oe.body:
        if node is not f and isinstance(node, FUNS):
            raise PromptError(f'OnEvent.{node.name} is not translated')
    # main.py: send_pdb_command
    tmain = parse(repo, SRC_MAIN)
    nl = find(tmain.body, ast.ClassDef, 'Nextline', SRC_MAIN)
    f = find(nl.body, ast.AsyncFunctionDef, 'send_pdb_command', 'Nextline')
    names = argnames(f)[1:]
    if sorted(names) != ['command', 'prompt_no', 'trace_no'] or f.decorator_list or f.args.defaults:
        raise PromptError(f'send_pdb_command: parameters {names}')
    sc = Scope('api', names)
    res['api'] = tr_body(f.body, sc, 'Nextline.send_pdb_command')
    res['api_params'] = sc.params()
    res['api_param_names'] = names
    # imp.py: Imp.send_command
    ti = parse(repo, SRC_IMP)
    im = find(ti.body, ast.ClassDef, 'Imp', SRC_IMP)
    f = find(im.body, ast.AsyncFunctionDef, 'send_command', 'Imp')
    if argnames(f) != ['self', 'command'] or f.decorator_list:
        raise PromptError('Imp.send_command: parameters')
    sc = Scope('imp', ['command'])
    res['imp'] = tr_body(f.body, sc, 'Imp.send_command')
    res['imp_params'] = sc.params()
    return res


def pdb_fields(repo: Path) -> list[str]:
    t = parse(repo, SRC_COMMANDS)
    c = find(t.body, ast.ClassDef, 'PdbCommand', SRC_COMMANDS)
    if [norm(d) for d in c.decorator_list] != ['dataclass']:
        raise PromptError('PdbCommand is not a plain @dataclass')
    fields = []
    for st in strip_doc(c.body):
        if isinstance(st, ast.AnnAssign) and isinstance(st.target, ast.Name) and st.value is None:
            fields.append(st.target.id)
        elif isinstance(st, ast.Pass):
            continue
        else:
            raise PromptError(f'PdbCommand:{st.lineno}: member `{norm(st)}` (a default, a method such as __eq__/__bool__ would change the semantics)')
    base = find(t.body, ast.ClassDef, 'Command', SRC_COMMANDS)
    if any(not isinstance(st, ast.Pass) and not (isinstance(st, ast.Expr) and isinstance(st.value, ast.Constant)) for st in base.body):
        raise PromptError('Command has members')
    if sorted(fields) != sorted(FIELDS):
        raise PromptError(f'PdbCommand fields {fields}')
    ty = parse(repo, SRC_TYPES)
    for nt in NEWTYPES:
        ok = [st for st in ty.body if isinstance(st, ast.Assign) and len(st.targets) == 1 and is_name(st.targets[0], nt)
              and isinstance(st.value, ast.Call) and is_name(st.value.func, 'NewType') and len(st.value.args) == 2 and is_name(st.value.args[1], 'int')]
        if len(ok) != 1:
            raise PromptError(f'{SRC_TYPES}: {nt} is not NewType({nt!r}, int)')
    return fields


def translate(repo: Path) -> str:
    repo = Path(repo)
    global PDB_FIELDS
    PDB_FIELDS = pdb_fields(repo)
    ch = child_side(repo)
    mn = main_side(repo)
    strs = lambda xs: coq_list([coq_str(x) for x in xs])
    cases = ';\n   '.join(f'({coq_str(c)}, {b})' for c, b in mn['event_cases'])
    L = [
        '(** GENERATED by translate/prompt_funs.py (ast, CPython %d.%d) -- do not edit.' % sys.version_info[:2],
        f'    From {SRC_PROMPT}, {SRC_FACTORY}, {SRC_COUNT},',
        f'    {SRC_COMMANDS}, {SRC_SESSION}, {SRC_MONITOR},',
        f'    {SRC_SPAWNED}, {SRC_MAIN}, {SRC_IMP}.',
        '    Terms of Prompt/Syntax.v; interpreted and tied to Prompt/Model.v, Prompt/System.v by Prompt/Tie.v.',
        '    Variables: "<fn>.a<i>" = i-th parameter (self/context not counted), "<fn>.l<i>" = i-th local by first binding. *)',
        'From NL Require Import Prompt.Syntax.',
        'Local Open Scope string_scope.',
        '',
        '(** ---- the child: nextline/spawned/plugin/plugins/pdb_/prompt.py *)',
        '(** Prompt.init: self._queue_map = ... *)',
        f'Definition init_queue_map : expr := {ch["init_queue_map"]}.',
        '',
        '(** Prompt.on_start_trace(trace_no) *)',
        f'Definition on_start_trace_params : list string := {strs(ch["on_start_trace_params"])}.',
        f'Definition on_start_trace_body : stmt :=\n  {ch["on_start_trace"]}.',
        '',
        '(** Prompt.on_end_trace(trace_no) *)',
        f'Definition on_end_trace_params : list string := {strs(ch["on_end_trace_params"])}.',
        f'Definition on_end_trace_body : stmt :=\n  {ch["on_end_trace"]}.',
        '',
        '(** Prompt.prompt(prompt_no) *)',
        f'Definition prompt_params : list string := {strs(ch["prompt_params"])}.',
        f'Definition prompt_body : stmt :=\n  {ch["prompt"]}.',
        '',
        '(** relay_commands.fn() *)',
        f'Definition fn_body : stmt :=\n  {ch["fn"]}.',
        '',
        '(** try_again_on_error(func) *)',
        f'Definition try_again_params : list string := {strs(ch["try_again_params"])}.',
        f'Definition try_again_body : stmt :=\n  {ch["try_again"]}.',
        '',
        '(** relay_commands: future = executor.submit(try_again_on_error, fn) in a one-worker pool; finally: queue_in.put(None) *)',
        f'Definition relay_thread_body : stmt := {ch["relay_thread"]}.',
        f'Definition relay_shutdown : stmt := {ch["relay_shutdown"]}.',
        '',
        '(** PromptFunc._prompt_func(text); counter = PromptNoCounter(counter_start), one per run *)',
        f'Definition prompt_func_params : list string := {strs(ch["prompt_func_params"])}.',
        f'Definition prompt_func_body : stmt :=\n  {ch["prompt_func"]}.',
        f'Definition counter_start : Z := {ch["counter_start"]}.',
        f'Definition counter_step : Z := {ch["counter_step"]}.',
        '',
        '(** PdbCommand: the dataclass fields in order *)',
        f'Definition pdb_command_fields : list string := {strs(PDB_FIELDS)}.',
        '',
        '(** ---- the main process *)',
        '(** Nextline.send_pdb_command(<api_param_names>) *)',
        f'Definition api_param_names : list string := {strs(mn["api_param_names"])}.',
        f'Definition api_params : list string := {strs(mn["api_params"])}.',
        f'Definition api_body : stmt :=\n  {mn["api"]}.',
        '',
        '(** Imp.send_command(command) *)',
        f'Definition imp_params : list string := {strs(mn["imp_params"])}.',
        f'Definition imp_body : stmt := {mn["imp"]}.',
        '',
        '(** CommandSender.send_command(context, command) *)',
        f'Definition sender_params : list string := {strs(mn["sender_params"])}.',
        f'Definition sender_body : stmt :=\n  {mn["sender"]}.',
        '',
        '(** SendCommand(queue_in)._send_command(command) *)',
        f'Definition send_command_params : list string := {strs(mn["send_command_params"])}.',
        f'Definition send_command_body : stmt := {mn["send_command"]}.',
        '',
        '(** OnEvent.on_event_in_process(context, event): event class -> body of its case *)',
        'Definition event_params : list string := ["ev.a0"].',
        f'Definition event_cases : list (string * stmt) :=\n  [{cases}].',
        '',
        '(** RunSession.run: the statements that touch queue_in / context.send_command / context.open_prompts, in source order *)',
        f'Definition run_tracked : list stmt := {coq_list(mn["run_tracked"])}.',
        f'Definition session_in_pos : nat := {mn["session_in_pos"]}.       (* index at which RunSession.run passes queue_in to spawned.set_queues *)',
        f'Definition set_queues_in_pos : nat := {mn["set_queues_in_pos"]}.    (* index of the parameter spawned.set_queues stores in _queue_in *)',
        '',
    ]
    return '\n'.join(L)


if __name__ == '__main__':
    print(translate(Path(sys.argv[1] if len(sys.argv) > 1 else '/repo')))
