(** C09 -- an interpreter for the statement trees of Gen/EmitterSkel.v (regenerated from /repo at
    every check by translate/emitter_skeleton.py), driven by the SAME per-actor structured programs
    and schedules as the hand-written model Events/Emitter.v.  Definitions only; the simulation
    proof and the direct facts are in Events/Tie.v.

    What is hand-written here (the meaning given to the trees) and therefore trusted:
      * values, records and the derived fields of TraceCallInfo (spawned/types.py: __post_init__);
      * generator-based context managers: `with hook.with_.h(args): body` enters the implementations
        in the order pluggy calls them (all are created first, then each runs to its first yield),
        runs the body, and resumes them in reverse order; `ctx.gen.send(v)` resumes them in reverse
        order up to their second yield (apluggy.stack_gen_ctxs);
      * NO EXCEPTION is raised on the paths interpreted here except by an explicit `raise` (caught by
        the enclosing `try/except` of that name) and by a failing `assert` (the actor stops): here
        `try: a finally: b` is a-then-b.  What the `finally` clauses do when an exception is thrown into
        a generator at its yield is the subject of [gexec] in Events/Tie.v, for each generator on its
        own.  NOT covered anywhere: an exception raised by a statement of a hook itself (a failing
        queue put, a KeyError), by the entry of a context manager stacked later, KeyboardInterrupt
        going through `catch()` in _context, and what apluggy's stack does with them;
      * one label [i] = actor i runs up to and including its next VISIBLE action (taking a number
        from a counter, or queue_out.put), then on through statements that are neither, up to the
        point where the environment (settrace, Pdb) is asked what comes next;
      * the environment: at its first trace call a thread/task goes through
        TaskAndThreadKeeper.filtered(); an item [ICall] is `with _context(frame, event, arg): trace()`
        where trace() enters CustomizedPdb.cmdloop() iff the item has a command loop, which calls
        _prompt_func(text) once per prompt; [IOut] is hook.on_write_stdout(); at the end of the
        thread/task the done-callback calls TaskAndThreadKeeper._on_end(). *)
From NL Require Import Events.Grammar Events.Emitter Events.Syntax Gen.EmitterSkel.
From Coq Require Import String.
Open Scope string_scope.
Open Scope list_scope.
Open Scope Z_scope.

(** ================================================================== values *)
Inductive value :=
| VNone | VBool (b : bool) | VNum (z : Z) | VPay (z : Z) | VStr (s : string) | VTask (i : nat)
| VTuple (l : list value) | VObj (cls : string) (fs : list (string * value)) | VBad.

Inductive key := KNum (z : Z) | KTask (i : nat).

Definition key_eqb (a b : key) : bool :=
  match a, b with KNum x, KNum y => x =? y | KTask i, KTask j => Nat.eqb i j | _, _ => false end.

Definition to_key (v : value) : option key :=
  match v with VNum z => Some (KNum z) | VTask i => Some (KTask i) | _ => None end.

Fixpoint alookup {A} (l : list (string * A)) (x : string) : option A :=
  match l with [] => None | (y, v) :: r => if String.eqb x y then Some v else alookup r x end.

Definition vget (l : list (string * value)) (x : string) : value :=
  match alookup l x with Some v => v | None => VBad end.

(** e.f : a stored field, or one of the fields TraceCallInfo derives from its args = (frame, event, arg)
    (frame is given as an object with the two things the stream shows of it: its id and its position) *)
Definition field (v : value) (f : string) : value :=
  match v with
  | VObj cls fs =>
      match alookup fs f with
      | Some x => x
      | None =>
          if String.eqb cls "TraceCallInfo" then
            match alookup fs "args" with
            | Some (VTuple [VObj _ ffs; ev; _]) =>
                if String.eqb f "frame_object_id" then vget ffs "id"
                else if String.eqb f "file_name" then vget ffs "where"
                else if String.eqb f "line_no" then vget ffs "where"
                else if String.eqb f "event" then ev
                else VBad
            | _ => VBad
            end
          else VBad
      end
  | _ => VBad
  end.

Definition truthy (v : value) : option bool :=
  match v with VBool b => Some b | VNone => Some false | VBad => None | _ => Some true end.

(** a == b for the values the asserts compare (numbers, payloads, None, booleans, strings, tasks) *)
Definition veqb (a b : value) : bool :=
  match a, b with
  | VNone, VNone => true
  | VBool x, VBool y => Bool.eqb x y
  | VNum x, VNum y => x =? y
  | VPay x, VPay y => x =? y
  | VStr x, VStr y => String.eqb x y
  | VTask x, VTask y => Nat.eqb x y
  | _, _ => false
  end.

(** ================================================================== shared state *)
(** the dicts / sets of the plugin objects: name of the attribute -> key -> entry *)
Notation store := (string -> key -> option value).

Definition upd (keq : key -> key -> bool) (st : store) (m : string) (k : key) (ov : option value) : store :=
  fun m' k' => if String.eqb m' m && keq k' k then ov else st m' k'.

Record shared := mkSh {
  sh_ct : Z; sh_cc : Z; sh_cp : Z;            (* the per-run counter objects *)
  sh_st : store;
  sh_attrs : list (string * value)            (* other instance attributes of the plugin objects *)
}.

(** ================================================================== expressions *)
Notation env := (list (string * value)).

Definition ext_val (e : env) (h : string) : value :=
  if String.eqb h "current_thread_no" then vget e "drvs.pl"
  else if String.eqb h "current_task_no" then vget e "drvs.pl"
  else if String.eqb h "prompt" then vget e "drvp.cmd"
  else VBad.

Record ectx := mkC { c_r : Z; c_i : nat; c_st : store; c_attrs : list (string * value) }.

Fixpoint eval (n : nat) (c : ectx) (e : env) (x : expr) : value :=
  match n with
  | O => VBad
  | S n =>
    match x with
    | EVar v => vget e v
    | ENone => VNone
    | EBool b => VBool b
    | EStr s => VStr s
    | ERunNo => VNum (c_r c)
    | EAttr a => vget (c_attrs c) a
    | EHook h => match alookup hook_exprs h with Some b => eval n c e b | None => VBad end
    | EHookExt h => ext_val e h
    | ECurrent => VTask (c_i c)
    | EField a f => field (eval n c e a) f
    | EMk cls fs => VObj cls (map (fun p => (fst p, eval n c e (snd p))) fs)
    | ETuple es => VTuple (map (eval n c e) es)
    | EMapGet m k =>
        match to_key (eval n c e k) with
        | Some kk => match c_st c m kk with Some v => v | None => VNone end
        | None => VBad
        end
    | EMapIdx m k =>
        match to_key (eval n c e k) with
        | Some kk => match c_st c m kk with Some v => v | None => VBad end
        | None => VBad
        end
    | EIn k m =>
        match to_key (eval n c e k) with
        | Some kk => match c_st c m kk with Some _ => VBool true | None => VBool false end
        | None => VBad
        end
    | ENot a => match truthy (eval n c e a) with Some b => VBool (negb b) | None => VBad end
    | EIsNone a => match eval n c e a with VNone => VBool true | VBad => VBad | _ => VBool false end
    | ELet v a b => eval n c ((v, eval n c e a) :: e) b
    | EIfNone v a b =>
        match eval n c e a with
        | VNone => VNone
        | VBad => VBad
        | w => eval n c ((v, w) :: e) b
        end
    end
  end.

Definition EFUEL : nat := 24%nat.

(** the entries of the dicts / sets that [eval] looks at (same recursion as [eval]) *)
Notation kl := (list (string * key)).

Fixpoint ekeys (n : nat) (c : ectx) (e : env) (x : expr) : kl :=
  match n with
  | O => []
  | S n =>
    match x with
    | EHook h => match alookup hook_exprs h with Some b => ekeys n c e b | None => [] end
    | EField a _ => ekeys n c e a
    | EMk _ fs => flat_map (fun p => ekeys n c e (snd p)) fs
    | ETuple es => flat_map (ekeys n c e) es
    | EMapGet m k | EMapIdx m k | EIn k m =>
        ekeys n c e k ++ match to_key (eval n c e k) with Some kk => [(m, kk)] | None => [] end
    | ENot a | EIsNone a => ekeys n c e a
    | ELet v a b => ekeys n c e a ++ ekeys n c ((v, eval n c e a) :: e) b
    | EIfNone v a b =>
        ekeys n c e a ++
        match eval n c e a with
        | VNone => []
        | VBad => []
        | w => ekeys n c ((v, w) :: e) b
        end
    | _ => []
    end
  end.

(** ================================================================== flat code *)
Inductive op :=
| OLet (x : string) (e : expr)
| OConst (x : string) (v : value)
| ONext (x : string) (c : ctype)
| OPut (e : expr)
| OMapSet (m : string) (k v : expr)
| OMapDel (m : string) (k : expr)
| OSetAttr (a : string) (e : expr)
| OAssertEq (a b : expr)               (* AssertionError unless a == b *)
| OAssertTrue (e : expr)               (* AssertionError unless e *)
| OJmpUnless (c : expr) (n : nat)      (* if <c> is false skip the next n ops *)
| OJmp (n : nat)
| ORaise (exc : string)
| OEndTry (exc : string)               (* end of the `try` whose `except <exc>` swallows the exception *)
| OClear (q : string)                  (* a function is entered / left: its locals go *)
| OYieldMark (x : option string)       (* during compilation only *)
| OBodyMark                            (* during compilation only *)
| OBad (why : string)
| ODrvStart (pl : Z)                                   (* the environment: first trace call of the thread / task *)
| ODrvItems (k : list item)                            (* ... what the thread / task does next *)
| ODrvTrace (loop : option (prompt * list prompt))     (* ... the trace function (Pdb.trace_dispatch) *)
| ODrvPrompts (ps : list prompt).                      (* ... Cmd.cmdloop reading commands *)

Definition qn (q x : string) : string := String.append q (String.append "." x).

(** the locals of function q are written q.x *)
Fixpoint qual (q : string) (e : expr) : expr :=
  match e with
  | EVar x => EVar (qn q x)
  | EField a f => EField (qual q a) f
  | EMk c fs => EMk c (map (fun p => match p with (f, a) => (f, qual q a) end) fs)
  | ETuple es => ETuple (map (qual q) es)
  | EMapGet m k => EMapGet m (qual q k)
  | EMapIdx m k => EMapIdx m (qual q k)
  | EIn k m => EIn (qual q k) m
  | ENot a => ENot (qual q a)
  | EIsNone a => EIsNone (qual q a)
  | ELet x a b => ELet (qn q x) (qual q a) (qual q b)
  | EIfNone x a b => EIfNone (qn q x) (qual q a) (qual q b)
  | x => x
  end.

Record cenv := mkCE {
  ce_yield : option string -> list op;
  ce_body : list op;
  ce_send : string -> expr -> list op;
  ce_retwith : string -> list op
}.

Definition is_mark (o : op) : bool := match o with OYieldMark _ | OBodyMark => true | _ => false end.

(** pre, then (target of the yield, rest) *)
Fixpoint split_yield (l : list op) : list op * option (option string * list op) :=
  match l with
  | [] => ([], None)
  | OYieldMark x :: r => ([], Some (x, r))
  | o :: r => let '(a, b) := split_yield r in (o :: a, b)
  end.

Fixpoint split_body (l : list op) : list op * list op :=
  match l with
  | [] => ([], [])
  | OBodyMark :: r => ([], r)
  | o :: r => let '(a, b) := split_body r in (o :: a, b)
  end.

(** a generator-based context manager, cut at its yields *)
Record gparts := mkG { g_q : string; g_bind : list op; g_pre : list op; g_x1 : option string;
                       g_mid : option (list op); g_post : list op }.

Definition mk_gparts (q : string) (bind body : list op) : gparts :=
  match split_yield body with
  | (pre, Some (x1, r1)) =>
      match split_yield r1 with
      | (post, None) => mkG q bind pre x1 None post
      | (mid, Some (None, r2)) =>
          match split_yield r2 with
          | (post, None) => mkG q bind pre x1 (Some mid) post
          | _ => mkG q bind [OBad "a context manager with more than two yields"] None None []
          end
      | _ => mkG q bind [OBad "the second yield of a context manager receives a value"] None None []
      end
  | (pre, None) => mkG q bind [OBad "a context manager without a yield"] None None []
  end.

Definition enter_ops (gs : list gparts) : list op :=
  flat_map (fun g => OClear (g_q g) :: g_bind g) gs ++ flat_map g_pre gs.
Definition exit_ops (gs : list gparts) : list op :=
  flat_map (fun g => g_post g ++ [OClear (g_q g)]) (rev gs).
Definition send_ops (gs : list gparts) (e : expr) : list op :=
  flat_map (fun g => match g_mid g with
                     | Some mid => match g_x1 g with Some x => [OLet x e] | None => [] end ++ mid
                     | None => [OBad "send() to a context manager that yields once"]
                     end) (rev gs).

Definition bind_named (f : string) (args : list (string * expr)) : list op :=
  map (fun p => OLet (qn f (fst p)) (snd p)) args.
Definition bind_pos (f : string) (ps : list string) (args : list expr) : list op :=
  map (fun p => OLet (qn f (fst p)) (snd p)) (combine ps args).

Definition qargs (q : string) (args : list (string * expr)) : list (string * expr) :=
  map (fun p => (fst p, qual q (snd p))) args.

Definition impls (tbl : list (string * list string)) (h : string) : list string :=
  match alookup tbl h with Some l => l | None => [] end.

Definition ce_none : cenv :=
  mkCE (fun _ => [OBad "yield outside a context manager"]) [OBad "no body here"]
       (fun _ _ => [OBad "send() to an unknown context"]) (fun _ => [OBad "return of a context manager outside `with f()`"]).
Definition ce_gen : cenv :=
  mkCE (fun x => [OYieldMark x]) [OBad "no body here"]
       (fun _ _ => [OBad "send() to an unknown context"]) (fun _ => [OBad "return of a context manager outside `with f()`"]).

Fixpoint comp (n : nat) (q : string) (ce : cenv) (s : stmt) : list op :=
  match n with
  | O => [OBad "compilation fuel"]
  | S n =>
    let call_named (f : string) (args : list (string * expr)) : list op :=
      match alookup funs f with
      | Some fn => OClear f :: bind_named f args ++ comp n f ce_none (f_body fn) ++ [OClear f]
      | None => [OBad f]
      end in
    let gen_parts (args : list (string * expr)) (f : string) : gparts :=
      match alookup funs f with
      | Some fn => mk_gparts f (bind_named f args) (comp n f ce_gen (f_body fn))
      | None => mkG f [] [OBad f] None None []
      end in
    match s with
    | SSkip => []
    | SSeq a b => comp n q ce a ++ comp n q ce b
    | SLet x e => [OLet (qn q x) (qual q e)]
    | SNext x c => [ONext (qn q x) c]
    | SPut e => [OPut (qual q e)]
    | STry a b => comp n q ce a ++ comp n q ce b
    | STryExcept a exc => comp n q ce a ++ [OEndTry exc]
    | SYield x => ce_yield ce (option_map (qn q) x)
    | SWithHook h args cv body =>
        let gs := map (gen_parts (qargs q args)) (impls with_impls h) in
        let ce' := match cv with
                   | Some c => mkCE (ce_yield ce) (ce_body ce)
                                    (fun c' e => if String.eqb c' c then send_ops gs e else ce_send ce c' e) (ce_retwith ce)
                   | None => ce
                   end in
        enter_ops gs ++ comp n q ce' body ++ exit_ops gs
    | SWithFun f body =>
        match alookup funs f with
        | Some fn =>
            let inner := comp n q ce body in
            let cef := mkCE (ce_yield ce_none) (ce_body ce_none) (ce_send ce_none)
                            (fun h => let gs := map (gen_parts []) (impls with_impls h) in
                                      enter_ops gs ++ inner ++ exit_ops gs) in
            OClear f :: comp n f cef (f_body fn) ++ [OClear f]
        | None => [OBad f]
        end
    | SWithOpaque b => comp n q ce b
    | SReturnWith h => ce_retwith ce h
    | SCallHook h args => flat_map (fun f => call_named f (qargs q args)) (impls call_impls h)
    | SCall f args =>
        match alookup funs f with
        | Some fn =>
            let cef := mkCE (ce_yield ce_none) (ce_body ce) (ce_send ce_none) (ce_retwith ce_none) in
            OClear f :: bind_pos f (f_params fn) (map (qual q) args) ++ comp n f cef (f_body fn) ++ [OClear f]
        | None => [OBad f]
        end
    | SIf c a b =>
        let A := comp n q ce a in let B := comp n q ce b in
        if existsb is_mark A || existsb is_mark B then [OBad "yield under if"]
        else OJmpUnless (qual q c) (S (List.length A)) :: A ++ OJmp (List.length B) :: B
    | SRaise exc => [ORaise exc]
    | SSend c e => ce_send ce c (qual q e)
    | SBody => ce_body ce
    | SMapSet m k v => [OMapSet m (qual q k) (qual q v)]
    | SMapDel m k => [OMapDel m (qual q k)]
    | SSetAdd m k => [OMapSet m (qual q k) (EBool true)]
    | SSetRemove m k => [OMapDel m (qual q k)]
    | SSetAttr a e => [OSetAttr a (qual q e)]
    | SAssertEq a b => [OAssertEq (qual q a) (qual q b)]
    | SAssertTrue e => [OAssertTrue (qual q e)]
    | SExt _ => []
    end
  end.

Definition CFUEL : nat := 30%nat.

(** ---- the code the environment runs, computed from the regenerated trees *)
Definition ce_top : cenv := mkCE (ce_yield ce_none) [OBodyMark] (ce_send ce_none) (ce_retwith ce_none).

(** TaskAndThreadKeeper.filtered() *)
Definition FILTERED_OPS : list op := Eval vm_compute in comp CFUEL "drv" ce_none (SCall "TaskAndThreadKeeper.filtered" []).
(** hook.on_write_stdout(trace_no=<current>, line=<txt>) *)
Definition STDOUT_OPS : list op :=
  Eval vm_compute in comp CFUEL "drvo" ce_none (SCallHook "on_write_stdout" [("trace_no", EHook "current_trace_no"); ("line", EVar "txt")]).
(** the done-callback: TaskAndThreadKeeper._on_end(<the thread / task>) *)
Definition END_OPS : list op := Eval vm_compute in comp CFUEL "drv" ce_none (SCall "TaskAndThreadKeeper._on_end" [ECurrent]).
(** with _context(frame, event, arg): <trace function> *)
Definition CALL_PARTS : gparts :=
  Eval vm_compute in
    match alookup funs "_context" with
    | Some fn => mk_gparts "_context" (bind_pos "_context" (f_params fn) [EVar "drvc.frame"; EVar "drvc.event"; ENone])
                           (comp CFUEL "_context" ce_gen (f_body fn))
    | None => mkG "_context" [] [OBad "_context"] None None []
    end.
Definition CALL_PRE : list op := Eval vm_compute in enter_ops [CALL_PARTS].
Definition CALL_POST : list op := Eval vm_compute in exit_ops [CALL_PARTS].
(** CustomizedPdb.cmdloop(): what runs before / after Cmd.cmdloop() reads commands *)
Definition CMDLOOP_OPS : list op * list op :=
  Eval vm_compute in split_body (comp CFUEL "drv" ce_top (SCall "CustomizedPdb.cmdloop" [ENone])).
(** _prompt_func(text) *)
Definition PROMPT_OPS : list op := Eval vm_compute in comp CFUEL "drvp" ce_none (SCall "_prompt_func" [EVar "txt"]).

Definition frame_val (fid info : Z) : value := VObj "frame" [("id", VPay fid); ("where", VPay info)].

Definition expand_items (k : list item) : list op :=
  match k with
  | [] => END_OPS
  | IOut txt :: k' => OConst "drvo.txt" (VPay txt) :: STDOUT_OPS ++ [OClear "drvo"; ODrvItems k']
  | ICall fid info loop :: k' =>
      FILTERED_OPS ++ OConst "drvc.frame" (frame_val fid info) :: OConst "drvc.event" (VPay info) :: CALL_PRE
        ++ ODrvTrace loop :: CALL_POST ++ [OClear "drvc"; ODrvItems k']
  end.

Definition expand_trace (loop : option (prompt * list prompt)) : list op :=
  match loop with
  | None => []
  | Some (q, qs) => fst CMDLOOP_OPS ++ ODrvPrompts (q :: qs) :: snd CMDLOOP_OPS
  end.

Definition expand_prompts (ps : list prompt) : list op :=
  match ps with
  | [] => []
  | (txt, cmd) :: ps' =>
      OConst "drvp.txt" (VPay txt) :: OConst "drvp.cmd" (VPay cmd) :: PROMPT_OPS ++ [OClear "drvp"; ODrvPrompts ps']
  end.

Definition expand_start (pl : Z) : list op := OConst "drvs.pl" (VPay pl) :: FILTERED_OPS ++ [OClear "drvs"].

(** ================================================================== the machine *)
Record iactor := mkIA {
  ia_ops : list op; ia_env : env;
  ia_t0 : Z; ia_c0 : Z; ia_p0 : Z      (* counters of this trace, used when the counter object is per trace *)
}.

Fixpoint eset (e : env) (x : string) (v : value) : env :=
  match e with
  | [] => [(x, v)]
  | (y, w) :: r => if String.eqb x y then (x, v) :: r else (y, w) :: eset r x v
  end.

Definition eclear (e : env) (q : string) : env :=
  filter (fun p => negb (String.prefix (String.append q ".") (fst p))) e.

Fixpoint drop_to_endtry (exc : string) (l : list op) : option (list op) :=
  match l with
  | [] => None
  | OEndTry x :: r => if String.eqb x exc then Some r else drop_to_endtry exc r
  | _ :: r => drop_to_endtry exc r
  end.

Inductive ieff := INone | ITake (c : ctype) | IPut (v : value) | ICrash.

Definition crashed (a : iactor) : iactor := mkIA [OBad "crashed"] (ia_env a) (ia_t0 a) (ia_c0 a) (ia_p0 a).

Definition set_ops (a : iactor) (l : list op) : iactor := mkIA l (ia_env a) (ia_t0 a) (ia_c0 a) (ia_p0 a).
Definition set_env (a : iactor) (l : list op) (e : env) : iactor := mkIA l e (ia_t0 a) (ia_c0 a) (ia_p0 a).

(** what a step leaves in its log: the entries of the dicts / sets it looked at or wrote, and what its
    asserts compared *)
Inductive lentry := LK (m : string) (k : key) | LEq (a b : value) | LTrue (v : value).
Notation klog := (list lentry).
Definition lks (l : kl) : klog := map (fun p => LK (fst p) (snd p)) l.

Definition ctx_of (r : Z) (i : nat) (sh : shared) : ectx := mkC r i (sh_st sh) (sh_attrs sh).

Definition set_st (sh : shared) (st : store) : shared := mkSh (sh_ct sh) (sh_cc sh) (sh_cp sh) st (sh_attrs sh).

Definition is_visible (o : op) : bool := match o with ONext _ _ | OPut _ => true | _ => false end.
Definition is_driver (o : op) : bool :=
  match o with ODrvStart _ | ODrvItems _ | ODrvTrace _ | ODrvPrompts _ => true | _ => false end.

(** one op that is neither visible nor the environment's: Some (actor, shared, entries looked at or
    written) or None = crash *)
Definition silent (keq : key -> key -> bool) (strict : bool) (r : Z) (i : nat) (sh : shared) (a : iactor) (o : op) (rest : list op)
  : option (iactor * shared * klog) :=
  let c := ctx_of r i sh in
  let e := ia_env a in
  let ek := fun x => lks (ekeys EFUEL c e x) in
  match o with
  | OLet x ex => Some (set_env a rest (eset e x (eval EFUEL c e ex)), sh, ek ex)
  | OConst x v => Some (set_env a rest (eset e x v), sh, [])
  | OMapSet m k v =>
      match to_key (eval EFUEL c e k) with
      | Some kk => Some (set_ops a rest, set_st sh (upd keq (sh_st sh) m kk (Some (eval EFUEL c e v))), ek k ++ ek v ++ [LK m kk])
      | None => None
      end
  | OMapDel m k =>
      match to_key (eval EFUEL c e k) with
      | Some kk => match sh_st sh m kk with
                   | Some _ => Some (set_ops a rest, set_st sh (upd keq (sh_st sh) m kk None), ek k ++ [LK m kk])
                   | None => None                    (* KeyError *)
                   end
      | None => None
      end
  | OSetAttr at_ ex =>
      Some (set_ops a rest, mkSh (sh_ct sh) (sh_cc sh) (sh_cp sh) (sh_st sh) (eset (sh_attrs sh) at_ (eval EFUEL c e ex)), ek ex)
  | OAssertEq x y =>
      (* [strict]: the assert is evaluated; otherwise it is only logged (the log is then checked) *)
      let vx := eval EFUEL c e x in let vy := eval EFUEL c e y in
      if strict && negb (veqb vx vy) then None
      else Some (set_ops a rest, sh, ek x ++ ek y ++ [LEq vx vy])
  | OAssertTrue x =>
      let vx := eval EFUEL c e x in
      if strict && negb (match truthy vx with Some true => true | _ => false end) then None
      else Some (set_ops a rest, sh, ek x ++ [LTrue vx])
  | OJmpUnless cnd n =>
      match truthy (eval EFUEL c e cnd) with
      | Some true => Some (set_ops a rest, sh, ek cnd)
      | Some false => Some (set_ops a (skipn n rest), sh, ek cnd)
      | None => None
      end
  | OJmp n => Some (set_ops a (skipn n rest), sh, [])
  | ORaise exc => match drop_to_endtry exc rest with Some l => Some (set_ops a l, sh, []) | None => None end
  | OEndTry _ => Some (set_ops a rest, sh, [])
  | OClear q => Some (set_env a rest (eclear e q), sh, [])
  | _ => None
  end.

Definition expand (o : op) : option (list op) :=
  match o with
  | ODrvStart pl => Some (expand_start pl)
  | ODrvItems k => Some (expand_items k)
  | ODrvTrace l => Some (expand_trace l)
  | ODrvPrompts ps => Some (expand_prompts ps)
  | _ => None
  end.

(** after the visible action: on through what is neither visible nor the environment's *)
Fixpoint settle (fuel : nat) (keq : key -> key -> bool) (strict : bool) (r : Z) (i : nat) (sh : shared) (a : iactor) (lg : klog)
  : iactor * shared * bool * klog :=
  match fuel with
  | O => (crashed a, sh, false, lg)
  | S fuel =>
    match ia_ops a with
    | [] => (a, sh, true, lg)
    | o :: rest =>
      if is_visible o || is_driver o then (a, sh, true, lg)
      else match silent keq strict r i sh a o rest with
           | Some (a', sh', l) => settle fuel keq strict r i sh' a' (lg ++ l)
           | None => (crashed a, sh, false, lg)
           end
    end
  end.

(** the visible action *)
Definition visible (r : Z) (i : nat) (sh : shared) (a : iactor) (o : op) (rest : list op) : iactor * shared * ieff * klog :=
  match o with
  | ONext x c =>
      match fst (counter_decl c) with
      | PerRun =>
          let z := match c with CTrace => sh_ct sh | CCall => sh_cc sh | CPrompt => sh_cp sh end in
          let sh' := match c with
                     | CTrace => mkSh (sh_ct sh + counter_step) (sh_cc sh) (sh_cp sh) (sh_st sh) (sh_attrs sh)
                     | CCall => mkSh (sh_ct sh) (sh_cc sh + counter_step) (sh_cp sh) (sh_st sh) (sh_attrs sh)
                     | CPrompt => mkSh (sh_ct sh) (sh_cc sh) (sh_cp sh + counter_step) (sh_st sh) (sh_attrs sh)
                     end in
          (set_env a rest (eset (ia_env a) x (VNum z)), sh', ITake c, [])
      | PerTrace =>
          let z := match c with CTrace => ia_t0 a | CCall => ia_c0 a | CPrompt => ia_p0 a end in
          let e' := eset (ia_env a) x (VNum z) in
          (match c with
           | CTrace => mkIA rest e' (ia_t0 a + counter_step) (ia_c0 a) (ia_p0 a)
           | CCall => mkIA rest e' (ia_t0 a) (ia_c0 a + counter_step) (ia_p0 a)
           | CPrompt => mkIA rest e' (ia_t0 a) (ia_c0 a) (ia_p0 a + counter_step)
           end, sh, ITake c, [])
      end
  | OPut ex => (set_ops a rest, sh, IPut (eval EFUEL (ctx_of r i sh) (ia_env a) ex), lks (ekeys EFUEL (ctx_of r i sh) (ia_env a) ex))
  | _ => (crashed a, sh, ICrash, [])
  end.

Definition SFUEL : nat := 120%nat.

(** up to and including the next visible action, then [settle]; the last component lists the
    entries of the dicts / sets that were looked at or written *)
Fixpoint run1 (fuel : nat) (keq : key -> key -> bool) (strict : bool) (r : Z) (i : nat) (sh : shared) (a : iactor) (lg : klog)
  : iactor * shared * ieff * klog :=
  match fuel with
  | O => (crashed a, sh, ICrash, lg)
  | S fuel =>
    match ia_ops a with
    | [] => (a, sh, INone, lg)
    | o :: rest =>
      if is_visible o then
        let '(a1, sh1, eff, l1) := visible r i sh a o rest in
        let '(a2, sh2, ok, l2) := settle SFUEL keq strict r i sh1 a1 (lg ++ l1) in
        (a2, sh2, if ok then eff else ICrash, l2)
      else match expand o with
           | Some l => run1 fuel keq strict r i sh (set_ops a (l ++ rest)) lg
           | None =>
               match silent keq strict r i sh a o rest with
               | Some (a', sh', l) => run1 fuel keq strict r i sh' a' (lg ++ l)
               | None => (crashed a, sh, ICrash, lg)
               end
           end
    end
  end.

(** ================================================================== events *)
Definition num (v : value) : option Z := match v with VNum z => Some z | _ => None end.
Definition pay (v : value) : option Z := match v with VPay z => Some z | _ => None end.
(** the command: what the prompt hook returned, or '' *)
Definition cmd_of (v : value) : option Z := match v with VPay z => Some z | _ => None end.

Definition to_event (v : value) : option event :=
  match v with
  | VObj cls fs =>
      let n f := num (vget fs f) in
      let p f := pay (vget fs f) in
      if String.eqb cls "OnStartTrace" then
        match n "run_no", n "trace_no", p "thread_no", p "task_no" with
        | Some r, Some t, Some pl, Some pl' => if pl =? pl' then Some (StartTrace r t pl) else None
        | _, _, _, _ => None
        end
      else if String.eqb cls "OnEndTrace" then
        match n "run_no", n "trace_no" with Some r, Some t => Some (EndTrace r t) | _, _ => None end
      else if String.eqb cls "OnStartTraceCall" then
        match n "run_no", n "trace_no", n "trace_call_no", p "frame_object_id", p "event", p "file_name", p "line_no" with
        | Some r, Some t, Some c, Some fid, Some info, Some i1, Some i2 =>
            if (info =? i1) && (info =? i2) then Some (StartTraceCall r t c fid info) else None
        | _, _, _, _, _, _, _ => None
        end
      else if String.eqb cls "OnEndTraceCall" then
        match n "run_no", n "trace_no", n "trace_call_no" with
        | Some r, Some t, Some c => Some (EndTraceCall r t c) | _, _, _ => None end
      else if String.eqb cls "OnStartCmdloop" then
        match n "run_no", n "trace_no", n "trace_call_no" with
        | Some r, Some t, Some c => Some (StartCmdloop r t c) | _, _, _ => None end
      else if String.eqb cls "OnEndCmdloop" then
        match n "run_no", n "trace_no", n "trace_call_no" with
        | Some r, Some t, Some c => Some (EndCmdloop r t c) | _, _, _ => None end
      else if String.eqb cls "OnStartPrompt" then
        match n "run_no", n "trace_no", n "trace_call_no", n "prompt_no", p "prompt_text" with
        | Some r, Some t, Some c, Some pn, Some txt => Some (StartPrompt r t c pn txt) | _, _, _, _, _ => None end
      else if String.eqb cls "OnEndPrompt" then
        match n "run_no", n "trace_no", n "trace_call_no", n "prompt_no", cmd_of (vget fs "command") with
        | Some r, Some t, Some c, Some pn, Some cmd => Some (EndPrompt r t c pn cmd) | _, _, _, _, _ => None end
      else if String.eqb cls "OnWriteStdout" then
        match n "run_no", n "trace_no", p "text" with
        | Some r, Some t, Some txt => Some (WriteStdout r t txt) | _, _, _ => None end
      else None
  | _ => None
  end.

(** ================================================================== the system *)
Record isys := mkIS { is_actors : list iactor; is_sh : shared }.

Definition RFUEL : nat := 200%nat.

(** label [i]: actor i performs its next visible action (as in Events/Emitter.v [step]) *)
Definition istep (r : Z) (s : isys) (i : nat) : isys * option event :=
  match nth_error (is_actors s) i with
  | None => (s, None)
  | Some a =>
      let '(a', sh', eff, _) := run1 RFUEL key_eqb true r i (is_sh s) a [] in
      (mkIS (set_nth (is_actors s) i a') sh', match eff with IPut v => to_event v | _ => None end)
  end.

Fixpoint irun (r : Z) (s : isys) (sched : list nat) : isys * list event :=
  match sched with
  | [] => (s, [])
  | i :: rest =>
    let '(s1, oe) := istep r s i in
    let '(s2, es) := irun r s1 rest in
    (s2, match oe with Some e => e :: es | None => es end)
  end.

Definition start_of (c : ctype) : Z := snd (counter_decl c).

Definition iinit_actor (p : prog) : iactor :=
  mkIA [ODrvStart (p_pl p); ODrvItems (p_items p)] [] (start_of CTrace) (start_of CCall) (start_of CPrompt).

Definition st0 : store := fun _ _ => None.

Definition iinit (ps : list prog) : isys :=
  mkIS (map iinit_actor ps) (mkSh (start_of CTrace) (start_of CCall) (start_of CPrompt) st0 []).

(** the stream the regenerated code puts on the outgoing queue *)
Definition iemitted (r : Z) (ps : list prog) (sched : list nat) : list event := snd (irun r (iinit ps) sched).

Definition ifinished (r : Z) (ps : list prog) (sched : list nat) : bool :=
  forallb (fun a => match ia_ops a with [] => true | _ => false end) (is_actors (fst (irun r (iinit ps) sched))).
